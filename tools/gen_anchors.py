#!/usr/bin/env python3
"""Record, from a run on the clean tree, which local variable names of which menpo function each
property's rules mention in their patterns -> menpolint/anchors.json (see astutil.PATTERN_LOG)."""
import json, os, sys
sys.path.insert(0, os.path.dirname(os.path.dirname(os.path.abspath(__file__))))
import menpolint.astutil as A
from menpolint.loader import Project
from menpolint import check

out = {}
project = Project()
for i in range(1, 21):
    pid = "C%02d" % i
    A.PATTERN_LOG = []
    mod = check.prop_module(pid)
    check.run_rules(mod, project, "quick")
    per = {}
    for root, pattern in A.PATTERN_LOG:
        fi = getattr(root, "_finfo", None)
        if fi is None:
            continue
        d = A.Defs(root)
        locs = {n for n, ds in d.defs.items() if not any(k in ("param", "def", "comp", "comp-unpack") for k, _, _ in ds)}
        import ast
        for sub in ast.walk(root):
            if isinstance(sub, (ast.FunctionDef, ast.AsyncFunctionDef)) and sub is not root:
                locs |= {n for n, ds in A.Defs(sub).defs.items() if not any(k in ("param", "def", "comp", "comp-unpack") for k, _, _ in ds)}
        names = A.pattern_names(pattern) & locs
        if names:
            per.setdefault(fi.qualname, set()).update(names)
    out[pid] = {k: sorted(v) for k, v in sorted(per.items())}
    A.PATTERN_LOG = None
    print(pid, sum(len(v) for v in out[pid].values()), "anchor locals in", len(out[pid]), "functions")
json.dump(out, open(os.path.join(os.path.dirname(os.path.dirname(os.path.abspath(__file__))), "menpolint", "anchors.json"), "w"), indent=1, sort_keys=True)
