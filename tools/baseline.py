#!/usr/bin/env python3
"""Run the repo's baseline test command and compare with /root/.vp/BASELINE.json stable_pass."""
import json, subprocess, sys, tempfile, os, xml.etree.ElementTree as ET
base = json.load(open('/root/.vp/BASELINE.json'))
want = set(base['stable_pass'])
fd, path = tempfile.mkstemp(suffix='.xml'); os.close(fd)
cmd = "cd /repo && /venv/bin/python -m pytest -ra -q -p no:cacheprovider --timeout=900 -n 12 --continue-on-collection-errors --junitxml=%s" % path
subprocess.run(cmd, shell=True, stdout=subprocess.DEVNULL, stderr=subprocess.DEVNULL)
passed = set()
for tc in ET.parse(path).getroot().iter('testcase'):
    if not any(c.tag in ('failure', 'error', 'skipped') for c in tc):
        passed.add("%s::%s" % (tc.get('classname'), tc.get('name')))
os.unlink(path)
missing = sorted(want - passed)
print("baseline stable_pass=%d, now passing=%d, missing=%d" % (len(want), len(passed), len(missing)))
for m in missing: print("  MISSING", m)
sys.exit(1 if missing else 0)
