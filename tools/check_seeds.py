#!/usr/bin/env python3
"""Re-runs all 20 quick checks against every kept seeded change, in parallel, on scratch copies of /repo/menpo with the patch
applied (MENPOLINT_REPO; nothing in /repo is touched, scratch copies are removed).  Updates seeded/MATRIX.json (fired /
errors / checks) for seeds that tools/run_seeds.py verify has already confirmed (demo + apply to /repo).
usage: check_seeds.py [--jobs N] [seed ids ...]"""
import json, os, shutil, subprocess, sys, tempfile
from concurrent.futures import ThreadPoolExecutor

VERIF = os.path.dirname(os.path.dirname(os.path.abspath(__file__)))
SEEDED = os.path.join(VERIF, "seeded")
PROPS = ["C%02d" % i for i in range(1, 21)]


def one(sid, scratch):
    tree = os.path.join(scratch, sid)
    os.makedirs(tree)
    shutil.copytree("/repo/menpo", os.path.join(tree, "menpo"))
    subprocess.check_call(["patch", "-s", "-p1", "-d", tree, "-i", os.path.join(SEEDED, sid, "patch.diff")])
    env = dict(os.environ, MENPOLINT_REPO=tree)
    checks = {}
    for pid in PROPS:
        r = subprocess.run(["/venv/bin/python", "-m", "menpolint.check", pid, "--no-evidence"], cwd=VERIF, env=env, stdout=subprocess.PIPE, stderr=subprocess.STDOUT, text=True)
        if r.returncode != 0:
            reps = [l.replace(tree + "/", "")[:300] for l in r.stdout.splitlines() if l.startswith(("menpo/", "ANALYSIS-ERROR"))][:6]
            checks[pid] = {"exit": r.returncode, "reports": reps}
    shutil.rmtree(tree)
    return sid, checks


def main():
    args = sys.argv[1:]
    jobs = 8
    if args[:1] == ["--jobs"]:
        jobs = int(args[1])
        args = args[2:]
    ids = args or sorted(d for d in os.listdir(SEEDED) if os.path.isdir(os.path.join(SEEDED, d)))
    mpath = os.path.join(SEEDED, "MATRIX.json")
    matrix = json.load(open(mpath))
    scratch = tempfile.mkdtemp(prefix="check_seeds_")
    own = sib = none = 0
    try:
        with ThreadPoolExecutor(jobs) as ex:
            for sid, checks in ex.map(lambda s: one(s, scratch), ids):
                meta = json.load(open(os.path.join(SEEDED, sid, "meta.json")))
                ent = matrix.setdefault(sid, {"seed": sid, "property": meta["property"]})
                ent["checks"] = checks
                ent["fired"] = sorted(p for p, c in checks.items() if c["exit"] == 1)
                ent["errors"] = sorted(p for p, c in checks.items() if c["exit"] == 2)
                tag = "own" if meta["property"] in ent["fired"] else ("sibling" if ent["fired"] else "MISSED")
                own += tag == "own"
                sib += tag == "sibling"
                none += tag == "MISSED"
                print("%-10s %-8s fired=%s errors=%s" % (sid, tag, ent["fired"], ent["errors"]), flush=True)
                meta["target_check_fired"] = meta["property"] in ent["fired"]
                meta["checks_fired"] = ent["fired"]
                meta["checks_analysis_error"] = ent["errors"]
                json.dump(meta, open(os.path.join(SEEDED, sid, "meta.json"), "w"), indent=1)
    finally:
        shutil.rmtree(scratch, ignore_errors=True)
    json.dump(matrix, open(mpath, "w"), indent=1, sort_keys=True)
    print("%d seeds: own-property check %d, sibling only %d, missed %d" % (len(ids), own, sib, none))


if __name__ == "__main__":
    main()
