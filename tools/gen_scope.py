#!/usr/bin/env python3
"""Record, from a run on the clean tree, (a) which menpo functions each property's rules analyse (its scope) and
(b) which parameters of those functions are read in their bodies -> menpolint/scope.json.  Used by the generic
rule Cxx.G1 (an option that was read on the confirmed tree and is no longer read is a dropped option)."""
import ast, json, os, sys
sys.path.insert(0, os.path.dirname(os.path.dirname(os.path.abspath(__file__))))
import menpolint.astutil as A
from menpolint.loader import Project, FuncInfo
from menpolint import check, report

project = Project()
PROPS = {json.loads(l)['id']: json.loads(l) for l in open('/verif/properties.jsonl')}
out = {}
for i in range(1, 21):
    pid = "C%02d" % i
    A.PATTERN_LOG = []
    mod = check.prop_module(pid)
    res = check.run_rules(mod, project, "quick", generic=False)
    fns = {}
    for root, _ in A.PATTERN_LOG:
        fi = getattr(root, "_finfo", None)
        if fi is not None:
            fns[fi.qualname] = fi
    A.PATTERN_LOG = None
    for r in res.rules:
        for f in getattr(r, "instance_funcs", []):
            fns[f.qualname] = f
    # callees: functions of the property's anchor files that the core functions call (two levels) -- the core
    # depends on them.  (Callers are NOT added: a caller in an anchor file need not be part of this property.)
    from menpolint.calls import CallCtx
    from menpolint.astutil import calls_in
    files = set(PROPS[pid]["anchors"]["files"])
    for _level in range(2):
        for f in list(fns.values()):
            ctx = CallCtx(project, f, f.cls)
            for k in calls_in(f.node, include_nested=True):
                for t in ctx.resolve_call(k):
                    if t.func.module.relpath in files and t.func.qualname not in fns:
                        fns[t.func.qualname] = t.func
    # overrides of scope methods in subclasses, and thin wrappers: functions of the anchor files that hand at least one of
    # their own parameters on, under its own name, to a function of the scope (the convenience entry points of the same
    # family: rescale_to_diagonal -> rescale, MaskedImage.sample -> Image.sample, ...).  They are in scope for the generic
    # rules only (no property-specific rule looks at them).
    core = dict(fns)
    for f in list(core.values()):
        if f.cls is None:
            continue
        for c in project.classes.values():
            if f.cls in c.mro[1:] and f.name in c.methods and c.methods[f.name].module.relpath in files:
                fns.setdefault(c.methods[f.name].qualname, c.methods[f.name])
    # sibling implementations (the same method name in another class of the anchor files) and every function the property's
    # anchors name in their `where` fields
    import re as _re
    named = set()
    for grp in ("state", "mechanism"):
        for ent in PROPS[pid]["anchors"].get(grp) or []:
            named |= set(_re.findall(r"[A-Za-z_][A-Za-z0-9_]*(?:\.[A-Za-z_][A-Za-z0-9_]*)?", ent.get("where", "")))
    method_names = {f.name for f in core.values() if f.cls is not None and not (f.name.startswith("__") and f.name != "__init__")} - {"__init__"}
    for w in project.all_functions():
        if w.module.relpath not in files or w.qualname in fns:
            continue
        if (w.cls is not None and w.name in method_names) or w.short in named or (w.name in named and not w.name.startswith("__")):
            fns[w.qualname] = w
    core = dict(fns)
    for _level, w in [(l, w) for l in range(2) for w in project.all_functions()]:
        if _level == 1:
            core = dict(fns)
        if w.module.relpath not in files or w.qualname in fns or not w.params:
            continue
        shorts = {f.short for f in core.values()}
        now, _called = check.forwarded_options(project, w)
        hit = any(callee in shorts for callee, _prm in now) or (_level == 0 and any(c in shorts for c in _called))
        if hit:
            fns[w.qualname] = w
    index = {f.qualname: f for f in project.all_functions()}
    for q in getattr(mod, "EXTRA_SCOPE", []):
        if q not in index:
            raise SystemExit("EXTRA_SCOPE of %s names unknown function %s" % (pid, q))
        fns[q] = index[q]
    per = {}
    for q, fi in sorted(fns.items()):
        used = check.params_read(fi.node)
        per[q] = sorted(used)
    out[pid] = per
    print(pid, len(per), "functions in scope")
# G4: options forwarded under their own name, per function of each scope;  G5: attributes stored on self, per class
fwd = {}
index = {f.qualname: f for f in project.all_functions()}
for pid, per in out.items():
    t = {}
    for q in per:
        f = index.get(q)
        if f is None:
            continue
        now, _called = check.forwarded_options(project, f)
        if now:
            t[q] = sorted([list(x) for x in now])
    fwd[pid] = t
out["#forward"] = fwd
al = {"#functions": sorted(index)}
for pid in [k for k in out if not k.startswith("#")]:
    for q in out[pid]:
        f = index.get(q)
        if f is not None and q not in al:
            i_, n_, c_, _e = check.aliasing_profile(project, f)
            al[q] = [len(i_), len(n_), len(c_)]
out["#alias"] = al
ctl = {}
for pid in [k for k in out if not k.startswith("#")]:
    for q in out[pid]:
        f = index.get(q)
        if f is not None and q not in ctl:
            must, pol, _present = check.control_profile(f)
            ctl[q] = {"must": sorted(must), "pol": {"%s|%s" % k: v for k, v in sorted(pol.items())}}
out["#control"] = ctl
sc = {}
for pid in [k for k in out if not k.startswith("#")]:
    for q in out[pid]:
        f = index.get(q)
        if f is not None and q not in sc:
            sc[q] = [len(x) for x in check.shortcut_profile(f)]
out["#shortcut"] = sc
out["#state"] = {c.qualname: sorted(check.class_state(c)) for c in project.classes.values()}
json.dump(out, open(os.path.join(os.path.dirname(os.path.dirname(os.path.abspath(__file__))), "menpolint", "scope.json"), "w"), indent=1, sort_keys=True)
