#!/bin/bash
# usage: try_seed.sh <seed-id> [Cxx ...]   run quick checks (default: the seed's own property) on a scratch copy of /repo/menpo with the seed applied
S=$1; shift
D=$(mktemp -d /tmp/try_seed_XXXX)
cp -r /repo/menpo $D/menpo
patch -s -p1 -d $D -i /verif/seeded/$S/patch.diff || { rm -rf $D; exit 3; }
P="$@"
[ -z "$P" ] && P=$(/venv/bin/python -c "import json;print(json.load(open('/verif/seeded/$S/meta.json'))['property'])")
for p in $P; do
  (cd /verif && MENPOLINT_REPO=$D /venv/bin/python -m menpolint.check $p --no-evidence | grep -E "^menpo/|ANALYSIS-ERROR|^C[0-9]+ tier" | cut -c1-330)
done
rm -rf $D
