#!/usr/bin/env python3
"""Regenerates the machine-derived parts of DESIGN.md (between `<!-- BEGIN GENERATED:x -->` / `<!-- END GENERATED:x -->`).

  rules      rule inventory as built: every rule of every property with title, instances and obligations measured on the
             current tree (the rules are run in-process, quick tier, no evidence written)
  witnesses  witness matrix as built (WITNESSES tables of the property modules)
  seeds      the seeded changes kept under /verif/seeded and which checks report each of them (seeded/MATRIX.json,
             produced by tools/run_seeds.py; seeded/ARRIVAL.json, produced by tools/arrival.py)
  findings   known_findings.json rendered as a table
"""
import glob
import json
import os
import re
import sys

VERIF = os.path.dirname(os.path.dirname(os.path.abspath(__file__)))
sys.path.insert(0, VERIF)
from menpolint.loader import Project  # noqa: E402
from menpolint import check  # noqa: E402

PROPS = ["C%02d" % i for i in range(1, 21)]


def esc(s):
    return str(s).replace("|", "\\|").replace("\n", " ")


def gen_rules():
    project = Project()
    out = []
    tot_i = tot_o = tot_r = 0
    for pid in PROPS:
        mod = check.prop_module(pid)
        res = check.run_rules(mod, project, "quick")
        out.append("**%s** — technique: %s.  Not decided: %s." % (pid, mod.TECHNIQUE, mod.NOT_DECIDED))
        out.append("")
        out.append("| rule | what it requires | instances | obligations |")
        out.append("|---|---|---|---|")
        for r in res.rules:
            out.append("| %s | %s | %d | %d |" % (r.id, esc(r.title), len(r.instances), r.obligations))
            tot_i += len(r.instances)
            tot_o += r.obligations
            tot_r += 1
        if res.errors:
            out.append("")
            out.append("analysis errors on this run: %s" % "; ".join(res.errors))
        out.append("")
    out.append("Totals on this tree: %d rules, %d rule instances, %d obligations." % (tot_r, tot_i, tot_o))
    return "\n".join(out)


def gen_witnesses():
    out = ["| id | kind | edited definition | expected rule | edit (on the `ast.unparse` text of the current definition) |", "|---|---|---|---|---|"]
    nw = nt = 0
    for pid in PROPS:
        mod = check.prop_module(pid)
        for w in mod.WITNESSES:
            if w.kind == "W":
                nw += 1
            else:
                nt += 1
            edit = "`%s` → `%s`" % (esc(w.old.strip())[:70], esc(w.new.strip())[:70] or "(deleted)")
            if w.note:
                edit += " — " + esc(w.note)
            out.append("| %s | %s | %s:%s | %s | %s |" % (w.id, "must fire" if w.kind == "W" else "silent twin", w.relpath.replace("menpo/", ""), w.target or "(module)", w.rule or "—", edit))
    out.append("")
    out.append("%d witnesses that must fire, %d silent twins." % (nw, nt))
    return "\n".join(out)


def gen_seeds():
    matrix = json.load(open(os.path.join(VERIF, "seeded", "MATRIX.json")))
    arrival_file = os.path.join(VERIF, "seeded", "ARRIVAL.json")
    arrival = json.load(open(arrival_file)) if os.path.exists(arrival_file) else {}
    out = ["| change | property | what it does (author's summary, shortened) | reported by (rule ids) | on arrival |", "|---|---|---|---|---|"]
    n = own = sib = 0
    arr_own = arr_any = arr_n = 0
    for d in sorted(glob.glob(os.path.join(VERIF, "seeded", "*", "meta.json")), key=lambda p: (re.search(r"C\d\d", os.path.basename(os.path.dirname(p))).group(0), p)):
        sid = os.path.basename(os.path.dirname(d))
        meta = json.load(open(d))
        m = matrix.get(sid, {})
        rules = []
        for pid, c in sorted(m.get("checks", {}).items()):
            for rep in c.get("reports", []):
                mm = re.search(r"\b(C\d\d\.[RG]\d+)\b", rep)
                if mm and mm.group(1) not in rules:
                    rules.append(mm.group(1))
        fired = m.get("fired", [])
        n += 1
        if meta["property"] in fired:
            own += 1
        elif fired:
            sib += 1
        a = arrival.get(sid)
        if a:
            arr_n += 1
            arr_own += a["own_property_fired"]
            arr_any += bool(a["fired"])
            arr = ("own check" if a["own_property_fired"] else ("sibling " + ",".join(a["fired"]) if a["fired"] else "missed")) + (" (analysis-error: %s)" % ",".join(a["analysis_error"]) if a["analysis_error"] else "")
        else:
            arr = "—"
        summ = meta.get("summary", "")
        summ = summ if len(summ) < 230 else summ[:227] + "…"
        out.append("| %s | %s | %s | %s | %s |" % (sid, meta["property"], esc(summ), ", ".join(rules) or "**none**", arr))
    out.append("")
    out.append("%d changes kept; %d reported by the check of their own property, %d only by the check of a sibling property, %d by none." % (n, own, sib, n - own - sib))
    if arr_n:
        out.append("On arrival (checker as it stood before the round the change belongs to; `tools/arrival.py`): %d of %d reported by the own-property check, %d of %d by some check." % (arr_own, arr_n, arr_any, arr_n))
    return "\n".join(out)


def gen_rounds():
    matrix = json.load(open(os.path.join(VERIF, "seeded", "MATRIX.json")))
    arrival_file = os.path.join(VERIF, "seeded", "ARRIVAL.json")
    arrival = json.load(open(arrival_file)) if os.path.exists(arrival_file) else {}
    rounds = {"1": [], "2": [], "3": [], "4": [], "5": [], "6": []}
    for sid in matrix:
        rounds["1" if sid[0] == "C" else sid[1]].append(sid)
    desc = {"1": "1 (two per property)", "2": "2 (three per property, told to avoid round 1)", "3": "3 (three per property, told to avoid rounds 1 and 2)", "4": "4 (three per property, told to avoid rounds 1-3)", "5": "5 (three per property, told to avoid rounds 1-4)", "6": "6 (nine changes, last session; 8 of 9 reported on arrival by the own-property check)"}
    out = ["| round | changes kept | on arrival: own-property check | on arrival: some check | today: own-property check | today: sibling check only | today: none |", "|---|---|---|---|---|---|---|"]
    for rd in ("1", "2", "3", "4", "5", "6"):
        ids = rounds[rd]
        if not ids:
            continue
        arr = [arrival[i] for i in ids if i in arrival]
        own_a = sum(1 for a in arr if a["own_property_fired"])
        any_a = sum(1 for a in arr if a["fired"])
        own = sum(1 for i in ids if matrix[i]["property"] in matrix[i]["fired"])
        sib = sum(1 for i in ids if matrix[i]["fired"] and matrix[i]["property"] not in matrix[i]["fired"])
        out.append("| %s | %d | %s | %s | %d | %d | %d |" % (desc[rd], len(ids), "%d of %d" % (own_a, len(arr)) if arr else "—", "%d of %d" % (any_a, len(arr)) if arr else "—", own, sib, len(ids) - own - sib))
    return "\n".join(out)


def gen_benign():
    mp = os.path.join(VERIF, "benign", "MATRIX.json")
    if not os.path.exists(mp):
        return "(no behaviour-preserving refactorings recorded)"
    matrix = json.load(open(mp))
    out = ["| refactoring | property | kind (author's words) | functions | today's 20 checks |", "|---|---|---|---|---|"]
    n = fa = nv = 0
    for bid in sorted(matrix, key=lambda k: (re.search(r"C\d\d", k).group(0), k)):
        v = matrix[bid]
        meta = json.load(open(os.path.join(VERIF, "benign", bid, "meta.json")))
        n += 1
        if v["violations"]:
            fa += 1
            verdict = "**false alarm**: " + ", ".join(sorted(v["violations"]))
        elif v["analysis_errors"]:
            nv += 1
            verdict = "no verdict (analysis error): " + ", ".join(sorted(v["analysis_errors"]))
        else:
            verdict = "silent"
        out.append("| %s | %s | %s | %s | %s |" % (bid, meta.get("property"), esc(str(meta.get("kind", ""))[:70]), esc(", ".join(meta.get("functions", []))[:90]), verdict))
    out.append("")
    out.append("%d refactorings: %d silent, %d without verdict (exit 2), %d false alarms (exit 1)." % (n, n - fa - nv, nv, fa))
    return "\n".join(out)


def gen_findings():
    data = json.load(open(os.path.join(VERIF, "known_findings.json")))
    out = ["| property.rule | construct | status | what failed |", "|---|---|---|---|"]
    for k in data.get("findings", []):
        out.append("| %s | `%s` | %s | %s |" % (k.get("rule"), k.get("construct", "").replace("menpo.", "", 1), k.get("status"), esc(k.get("what", ""))))
    return "\n".join(out)


def main():
    path = os.path.join(VERIF, "DESIGN.md")
    text = open(path).read()
    for name, fn in (("rules", gen_rules), ("witnesses", gen_witnesses), ("seeds", gen_seeds), ("rounds", gen_rounds), ("benign", gen_benign), ("findings", gen_findings)):
        b, e = "<!-- BEGIN GENERATED:%s -->" % name, "<!-- END GENERATED:%s -->" % name
        if b not in text:
            print("marker for %s not present, skipped" % name)
            continue
        i, j = text.index(b) + len(b), text.index(e)
        text = text[:i] + "\n" + fn() + "\n" + text[j:]
    open(path, "w").write(text)
    print("DESIGN.md regenerated")


if __name__ == "__main__":
    main()
