#!/usr/bin/env python3
"""Behaviour-preserving whole-package twins, used to measure how brittle the rules are.

  rename   every function-local variable (not parameters, not names shared with nested scopes, not globals)
           gets a `_rn` suffix
  kwsort   keyword arguments of every call are sorted alphabetically
  dotform  np.dot(a, b) -> a.dot(b) is NOT applied (numerically identical but ndarray-only); kept as an option

usage: refactor_twins.py <kind> [Cxx ...]      runs the quick checks of the given properties on the in-memory twin
"""
import ast
import os
import symtable
import sys

sys.path.insert(0, os.path.dirname(os.path.dirname(os.path.abspath(__file__))))
from menpolint.loader import Project  # noqa: E402
from menpolint import check  # noqa: E402
from menpolint.report import Result  # noqa: E402


def local_renames(src, filename):
    """name -> newname per function (keyed by (lineno, name))"""
    st = symtable.symtable(src, filename, "exec")
    plan = {}

    def visit(t):
        for ch in t.get_children():
            if ch.get_type() == "function":
                names = {}
                # names used by nested scopes must keep their spelling
                nested_free = set()

                def collect(c):
                    for cc in c.get_children():
                        for s in cc.get_symbols():
                            if s.is_free() or s.is_global():
                                nested_free.add(s.get_name())
                        nested_free.update(x.get_name() for x in cc.get_symbols() if x.is_free())
                        collect(cc)
                collect(ch)
                for s in ch.get_symbols():
                    n = s.get_name()
                    if s.is_local() and not s.is_parameter() and not s.is_imported() and not s.is_global() and not s.is_free() and n not in nested_free \
                            and not s.is_namespace() and not n.startswith("__") and n != "_":
                        names[n] = n + "_rn"
                plan[(ch.get_name(), ch.get_lineno())] = names
            visit(ch)
    visit(st)
    return plan


class Renamer(ast.NodeTransformer):
    def __init__(self, plan):
        self.plan = plan
        self.stack = []

    def visit_FunctionDef(self, node):
        names = self.plan.get((node.name, node.lineno), {})
        self.stack.append(names)
        # do not rename inside default expressions / decorators (evaluated outside)
        node.body = [self.visit(s) for s in node.body]
        self.stack.pop()
        return node

    visit_AsyncFunctionDef = visit_FunctionDef

    def visit_Lambda(self, node):
        self.stack.append({})
        self.generic_visit(node)
        self.stack.pop()
        return node

    def _comp(self, node):
        # comprehension targets live in their own scope: leave the whole comprehension's own targets alone
        targets = set()
        for g in node.generators:
            for x in ast.walk(g.target):
                if isinstance(x, ast.Name):
                    targets.add(x.id)
        cur = dict(self.stack[-1]) if self.stack else {}
        for t in targets:
            cur.pop(t, None)
        self.stack.append(cur)
        self.generic_visit(node)
        self.stack.pop()
        return node

    visit_ListComp = visit_SetComp = visit_DictComp = visit_GeneratorExp = _comp

    def visit_Name(self, node):
        if self.stack and node.id in self.stack[-1]:
            node.id = self.stack[-1][node.id]
        return node

    def visit_ExceptHandler(self, node):
        if self.stack and node.name in self.stack[-1]:
            node.name = self.stack[-1][node.name]
        self.generic_visit(node)
        return node

    def visit_Global(self, node):
        return node


class KwSorter(ast.NodeTransformer):
    def visit_Call(self, node):
        self.generic_visit(node)
        named = [k for k in node.keywords if k.arg is not None]
        star = [k for k in node.keywords if k.arg is None]
        node.keywords = sorted(named, key=lambda k: k.arg) + star
        return node


class IfSwapper(ast.NodeTransformer):
    """if c: A else: B  ->  if not c: B else: A   (only plain if/else, not elif chains)"""

    def visit_If(self, node):
        self.generic_visit(node)
        if node.orelse and not (len(node.orelse) == 1 and isinstance(node.orelse[0], ast.If)):
            test = node.test
            if isinstance(test, ast.UnaryOp) and isinstance(test.op, ast.Not):
                new_test = test.operand
            else:
                new_test = ast.UnaryOp(op=ast.Not(), operand=test)
            return ast.If(test=new_test, body=node.orelse, orelse=node.body)
        return node


class DotForm(ast.NodeTransformer):
    """np.dot(a, b) -> a.dot(b) when a is a simple name/attribute chain"""

    def visit_Call(self, node):
        self.generic_visit(node)
        f = node.func
        if isinstance(f, ast.Attribute) and f.attr == "dot" and isinstance(f.value, ast.Name) and f.value.id == "np" and len(node.args) == 2 and not node.keywords:
            a, b = node.args
            if isinstance(a, (ast.Name, ast.Attribute)):
                return ast.Call(func=ast.Attribute(value=a, attr="dot", ctx=ast.Load()), args=[b], keywords=[])
        return node


def twin_sources(project, kind):
    out = {}
    for rel, m in project.by_relpath.items():
        tree = ast.parse(m.src)
        if kind == "rename":
            plan = local_renames(m.src, rel)
            tree = Renamer(plan).visit(tree)
        elif kind == "kwsort":
            tree = KwSorter().visit(tree)
        elif kind == "ifswap":
            tree = IfSwapper().visit(tree)
        elif kind == "dotform":
            tree = DotForm().visit(tree)
        else:
            raise SystemExit("unknown twin kind")
        ast.fix_missing_locations(tree)
        src = ast.unparse(tree)
        compile(src, rel, "exec")
        out[rel] = src
    return out


def main():
    kind = sys.argv[1]
    props = sys.argv[2:] or ["C%02d" % i for i in range(1, 21)]
    base = Project()
    twin = Project(base.root, twin_sources(base, kind))
    dump = os.environ.get("TWIN_DUMP")
    if dump:
        for rel, src in twin.overrides.items():
            pth = os.path.join(dump, rel)
            os.makedirs(os.path.dirname(pth), exist_ok=True)
            open(pth, "w").write(src)
    rc = 0
    for pid in props:
        mod = check.prop_module(pid)
        b = check.run_rules(mod, base, "quick")
        base_keys = {f.key for f in b.findings}
        res = check.run_rules(mod, twin, "quick")
        new = [f for f in res.findings if f.rule + "|" + f.construct not in {k.rsplit("|", 1)[0] for k in base_keys}]
        print("%s twin=%s: violations=%d errors=%d" % (pid, kind, len(new), len(res.errors)))
        for f in new[:40]:
            print("   V", f.rule, f.construct.split(".")[-1], "|", f.message[:110])
        for e in res.errors[:40]:
            print("   E", e[:170])
        if new:
            rc = 1
    return rc


if __name__ == "__main__":
    sys.exit(main())
