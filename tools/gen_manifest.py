#!/usr/bin/env python3
"""Regenerate /verif/MANIFEST.json from the property modules that exist."""
import importlib, json, os, sys
sys.path.insert(0, os.path.dirname(os.path.dirname(os.path.abspath(__file__))))
props = [json.loads(l) for l in open('/verif/properties.jsonl')]
checks, na = [], []
for p in props:
    pid = p['id']
    try:
        m = importlib.import_module('menpolint.props.%s' % pid.lower())
    except ModuleNotFoundError:
        na.append({"property_id": pid, "reason": "no static rule implemented yet for this property in this revision of /verif (design in DESIGN.md section 4)"})
        continue
    checks.append({
        "property_id": pid,
        "quick_cmd": "/venv/bin/python -m menpolint.check %s --tier quick" % pid,
        "thorough_cmd": "/venv/bin/python -m menpolint.check %s --tier thorough" % pid,
        "evidence_file": "/verif/evidence/%s.json" % pid,
        "replay_cmd_template": "/venv/bin/python -m menpolint.check %s --replay {path}" % pid,
        "engine": "menpolint",
        "level_claimed": {
            "category": "other",
            "text": "Static analysis of /repo's working tree (nothing executed): " + m.EXPLANATION +
                    " In addition, over the functions of this property's scope, per-function facts recorded from the confirmed tree are compared with the tree under analysis "
                    "(generic rules G1-G10: options read and forwarded, positional argument roles, no result caches, no new object state, no new whole-buffer overwrite, no dropped "
                    "copy, option polarity by CFG guards, calls and state updates on every normal path by CFG must-pass, no new unchecked shortcuts)."
                    " These are necessary structural conditions of the property, established for every analysed class/path/call site; "
                    "the numerical behaviour itself is not decided. Thorough tier adds the witness matrix: in-memory one-edit variants "
                    "of the current sources must make the intended rule fire, behaviour-preserving twins must stay silent.",
            "design_ref": "DESIGN.md section 4 / %s" % pid,
        },
        "level_note": "Not decided by this check: " + getattr(m, 'NOT_DECIDED', '') +
                      ". Trusted: CPython ast; menpolint's import/MRO/call resolution (unresolved calls are effect-free); the accepted-idiom tables in menpolint/props/%s.py." % pid.lower(),
        "technique": getattr(m, 'TECHNIQUE', "custom AST/CFG/dataflow rules over resolved class hierarchy (static analysis)"),
    })
man = {
    "version": 1,
    "setup_cmd": "/venv/bin/python -m compileall -q /verif/menpolint",
    "hooks": {
        "guard": "MENPO_VERIF",
        "enable": "none needed: the checks are static and read /repo's working tree; no instrumentation exists in menpo",
        "baseline_off_cmd": "cd /repo && /venv/bin/python -m pytest -ra -q -p no:cacheprovider --timeout=900 --continue-on-collection-errors",
        "source_commits": [],
        "add_only": True,
    },
    "engines": [{
        "name": "menpolint",
        "path": "/verif/menpolint",
        "serves_properties": [c["property_id"] for c in checks],
        "kind_free_text": "repository-specific static analyser on the stdlib ast: import/MRO/call resolution, statement CFG with path queries, bottom-up mutation summaries, small abstract domains (rank, alias, sign, truth tables, constant folding), sibling comparison; known-finding matching by rule+construct",
    }],
    "checks": checks,
    "notes": "All checks are static (family: static analysis). exit 0 = all rule instances hold (KNOWN-FINDING lines for recorded defects); exit 1 = VIOLATION; exit 2 = ANALYSIS-ERROR (anchor vanished / idiom not recognised), never a verdict. Genuine defects repaired in /repo are 'fix:' commits listed in known_findings.json.",
    "not_applicable": na,
}
json.dump(man, open('/verif/MANIFEST.json', 'w'), indent=1)
print("checks:", [c["property_id"] for c in checks], "n/a:", [n["property_id"] for n in na])
