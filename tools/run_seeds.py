#!/usr/bin/env python3
"""Confirm seeded changes and run every check against each of them.

usage: run_seeds.py import <srcdir> <seed-id>   copy a sub-agent's seed directory into /verif/seeded/<seed-id>
       run_seeds.py verify [seed-id ...]        apply to /repo, run demo (must fail) + all 20 quick checks, revert, run demo (must pass)
The catch matrix is written to /verif/seeded/MATRIX.json and meta.json of each seed records what was run.
"""
import json, os, shutil, subprocess, sys, glob

VERIF = os.path.dirname(os.path.dirname(os.path.abspath(__file__)))
SEEDED = os.path.join(VERIF, "seeded")
REPO = "/repo"
PY = "/venv/bin/python"


def sh(cmd, cwd=None, env=None, timeout=600):
    e = dict(os.environ)
    if env:
        e.update(env)
    p = subprocess.run(cmd, shell=True, cwd=cwd, env=e, capture_output=True, text=True, timeout=timeout)
    return p.returncode, p.stdout + p.stderr


def clean_repo():
    rc, out = sh("git status --porcelain", REPO)
    return out.strip() == ""


def verify(sid):
    d = os.path.join(SEEDED, sid)
    meta = json.load(open(os.path.join(d, "meta.json")))
    patch = os.path.join(d, "patch.diff")
    demo = os.path.join(d, "demo.py")
    assert clean_repo(), "repo not clean"
    rc0, out0 = sh("%s %s" % (PY, demo), cwd=d, env={"PYTHONPATH": REPO})
    rc, out = sh("git apply %s" % patch, REPO)
    if rc != 0:
        return {"seed": sid, "error": "patch does not apply: " + out[-300:]}
    try:
        rc1, out1 = sh("%s %s" % (PY, demo), cwd=d, env={"PYTHONPATH": REPO})
        checks = {}
        for i in range(1, 21):
            pid = "C%02d" % i
            crc, cout = sh("%s -m menpolint.check %s --no-evidence" % (PY, pid), VERIF)
            lines = [l for l in cout.splitlines() if l.startswith(("menpo/", "ANALYSIS-ERROR")) or " C%02d.R" % i in l and not l.startswith("  ")]
            checks[pid] = {"exit": crc, "reports": [l[:300] for l in cout.splitlines() if ((".R" in l or ".G" in l) and l.startswith("menpo/")) or l.startswith("ANALYSIS-ERROR")][:6]}
    finally:
        sh("git checkout -- .", REPO)
    assert clean_repo()
    res = {
        "seed": sid, "property": meta.get("property"),
        "demo_clean_exit": rc0, "demo_patched_exit": rc1,
        "confirmed": rc0 == 0 and rc1 != 0,
        "fired": sorted(p for p, c in checks.items() if c["exit"] == 1),
        "errors": sorted(p for p, c in checks.items() if c["exit"] == 2),
        "checks": {p: c for p, c in checks.items() if c["exit"] != 0},
    }
    meta["what_was_run"] = [
        "PYTHONPATH=/repo /venv/bin/python demo.py on the unchanged tree -> exit %d" % rc0,
        "git -C /repo apply patch.diff; PYTHONPATH=/repo /venv/bin/python demo.py -> exit %d" % rc1,
        "all 20 quick checks (/venv/bin/python -m menpolint.check Cxx) with the patch applied; git -C /repo checkout -- .",
    ]
    meta["target_check_fired"] = meta.get("property") in res["fired"]
    meta["checks_fired"] = res["fired"]
    meta["checks_analysis_error"] = res["errors"]
    json.dump(meta, open(os.path.join(d, "meta.json"), "w"), indent=1)
    return res


def main():
    cmd = sys.argv[1]
    if cmd == "import":
        src, sid = sys.argv[2], sys.argv[3]
        dst = os.path.join(SEEDED, sid)
        os.makedirs(dst, exist_ok=True)
        for fn in ("patch.diff", "demo.py", "meta.json"):
            shutil.copy(os.path.join(src, fn), os.path.join(dst, fn))
        print("imported", sid)
    elif cmd == "verify":
        ids = sys.argv[2:] or sorted(os.listdir(SEEDED))
        ids = [i for i in ids if os.path.isdir(os.path.join(SEEDED, i))]
        mpath = os.path.join(SEEDED, "MATRIX.json")
        matrix = json.load(open(mpath)) if os.path.exists(mpath) else {}
        for sid in ids:
            r = verify(sid)
            matrix[sid] = r
            print("%-10s prop=%s confirmed=%s fired=%s errors=%s" % (sid, r.get("property"), r.get("confirmed"), r.get("fired"), r.get("errors")), r.get("error", ""))
            for p, c in r.get("checks", {}).items():
                for line in c["reports"][:3]:
                    print("      %s: %s" % (p, line[:230]))
        json.dump(matrix, open(mpath, "w"), indent=1, sort_keys=True)


if __name__ == "__main__":
    main()
