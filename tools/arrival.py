#!/usr/bin/env python3
"""How many seeded changes did the checker catch *before* it was strengthened with them in hand?

For every seed directory the script builds a scratch copy of /repo/menpo with the patch applied (under a scratch
directory outside /repo and /verif, removed afterwards), checks out the /verif commit that preceded the round the seed
belongs to into a scratch git worktree, and runs that historical checker over the patched copy (MENPOLINT_REPO).
Nothing in /repo is touched.  The result is written to seeded/ARRIVAL.json (a record of the development history, not
something a registered check reads).

usage: arrival.py <round-prefix> <verif-commit> [jobs]      e.g.  arrival.py R1 fe272cc ; arrival.py R2 be61a9a
"""
import json
import os
import shutil
import subprocess
import sys
import tempfile
from concurrent.futures import ThreadPoolExecutor

VERIF = os.path.dirname(os.path.dirname(os.path.abspath(__file__)))
PROPS = ["C%02d" % i for i in range(1, 21)]


def seeds_of(prefix):
    out = []
    for d in sorted(os.listdir(os.path.join(VERIF, "seeded"))):
        p = os.path.join(VERIF, "seeded", d)
        if not os.path.isdir(p):
            continue
        if prefix == "R1" and d[0] == "C":
            out.append(d)
        elif prefix != "R1" and d.startswith(prefix + "-"):
            out.append(d)
    return out


def run_checker(wt, repo, pid):
    env = dict(os.environ, MENPOLINT_REPO=repo, PYTHONPATH=wt)
    r = subprocess.run(["/venv/bin/python", "-m", "menpolint.check", pid, "--tier", "quick", "--no-evidence"], cwd=wt, env=env,
                       stdout=subprocess.PIPE, stderr=subprocess.STDOUT, text=True)
    lines = [l for l in r.stdout.splitlines() if " C%s." % pid[1:] in l and not l.startswith("KNOWN-FINDING")]
    return r.returncode, lines


def main():
    prefix, commit = sys.argv[1], sys.argv[2]
    jobs = int(sys.argv[3]) if len(sys.argv) > 3 else 6
    scratch = tempfile.mkdtemp(prefix="arrival_")
    wt = os.path.join(scratch, "verif_old")
    subprocess.check_call(["git", "-C", VERIF, "worktree", "add", "--detach", wt, commit], stdout=subprocess.DEVNULL, stderr=subprocess.DEVNULL)
    try:
        # what the historical checker says about the clean tree (so that only *new* non-zero exits count)
        clean = {pid: run_checker(wt, "/repo", pid)[0] for pid in PROPS}
        result = {}

        def one(seed):
            tree = os.path.join(scratch, seed)
            os.makedirs(tree)
            shutil.copytree("/repo/menpo", os.path.join(tree, "menpo"))
            subprocess.check_call(["patch", "-s", "-p1", "-d", tree, "-i", os.path.join(VERIF, "seeded", seed, "patch.diff")])
            fired, errs = [], []
            for pid in PROPS:
                rc, _ = run_checker(wt, tree, pid)
                if rc == 1 and clean[pid] == 0:
                    fired.append(pid)
                elif rc == 2 and clean[pid] == 0:
                    errs.append(pid)
            shutil.rmtree(tree)
            return seed, fired, errs

        with ThreadPoolExecutor(jobs) as ex:
            for seed, fired, errs in ex.map(one, seeds_of(prefix)):
                meta = json.load(open(os.path.join(VERIF, "seeded", seed, "meta.json")))
                result[seed] = {"property": meta["property"], "checker_commit": commit, "fired": fired, "analysis_error": errs,
                                "own_property_fired": meta["property"] in fired}
                print(seed, fired, errs, flush=True)
    finally:
        subprocess.call(["git", "-C", VERIF, "worktree", "remove", "--force", wt])
        shutil.rmtree(scratch, ignore_errors=True)
    out = os.path.join(VERIF, "seeded", "ARRIVAL.json")
    allr = json.load(open(out)) if os.path.exists(out) else {}
    allr.update(result)
    json.dump(allr, open(out, "w"), indent=1, sort_keys=True)
    own = sum(1 for v in result.values() if v["own_property_fired"])
    anyc = sum(1 for v in result.values() if v["fired"])
    print("%s @ %s: %d seeds, own-property check fired on %d, some check fired on %d" % (prefix, commit, len(result), own, anyc))


if __name__ == "__main__":
    main()
