#!/usr/bin/env python3
"""Confirms, for every seeded change, that the existing test suite still passes with the change applied.

For each seed a scratch git worktree of /repo is created under a scratch directory outside /repo and /verif, the patch
is applied there, the baseline test command is run in it (pytest-xdist workers, junit output into the scratch
directory), the set of passing tests is compared with the stable baseline of /root/.vp/BASELINE.json, and the worktree
is removed again.  /repo's own working tree is never touched.  The outcome is recorded in the seed's meta.json
("tests_confirmed") -- a record of what was run, read by no registered check.

usage: confirm_tests.py [--jobs 3] [--workers 4] [seed ids ...]     (default: every seed without a record)
"""
import argparse
import json
import os
import shutil
import subprocess
import tempfile
import xml.etree.ElementTree as ET
from concurrent.futures import ThreadPoolExecutor

VERIF = os.path.dirname(os.path.dirname(os.path.abspath(__file__)))
BASE = json.load(open("/root/.vp/BASELINE.json"))
STABLE = set(BASE["stable_pass"])


def passed_tests(junit):
    out = set()
    for tc in ET.parse(junit).getroot().iter("testcase"):
        if not any(c.tag in ("failure", "error", "skipped") for c in tc):
            out.add("%s::%s" % (tc.get("classname"), tc.get("name")))
    return out


def one(seed, scratch, workers):
    wt = os.path.join(scratch, "wt_" + seed)
    junit = os.path.join(scratch, seed + ".junit.xml")
    subprocess.check_call(["git", "-C", "/repo", "worktree", "add", "--detach", wt, "HEAD"], stdout=subprocess.DEVNULL, stderr=subprocess.DEVNULL)
    try:
        subprocess.check_call(["git", "-C", wt, "apply", os.path.join(VERIF, "seeded", seed, "patch.diff")])
        env = dict(os.environ, PYTHONPATH=wt, PYTHONDONTWRITEBYTECODE="1")
        subprocess.run(["/venv/bin/python", "-m", "pytest", "-q", "-p", "no:cacheprovider", "--timeout=900", "--continue-on-collection-errors",
                        "-n", str(workers), "--junitxml=" + junit], cwd=wt, env=env, stdout=subprocess.DEVNULL, stderr=subprocess.DEVNULL)
        ok = passed_tests(junit)
        missing = sorted(STABLE - ok)
        rec = {"command": "pytest -q -p no:cacheprovider --timeout=900 --continue-on-collection-errors -n %d (scratch worktree of /repo HEAD + patch.diff)" % workers,
               "stable_baseline_tests": len(STABLE), "passing_with_change": len(ok), "stable_baseline_tests_not_passing": missing}
    finally:
        subprocess.call(["git", "-C", "/repo", "worktree", "remove", "--force", wt], stdout=subprocess.DEVNULL, stderr=subprocess.DEVNULL)
        if os.path.exists(junit):
            os.remove(junit)
    mp = os.path.join(VERIF, "seeded", seed, "meta.json")
    meta = json.load(open(mp))
    meta["tests_confirmed"] = rec
    json.dump(meta, open(mp, "w"), indent=1)
    return seed, rec


def main():
    ap = argparse.ArgumentParser()
    ap.add_argument("--jobs", type=int, default=3)
    ap.add_argument("--workers", type=int, default=4)
    ap.add_argument("--force", action="store_true")
    ap.add_argument("seeds", nargs="*")
    a = ap.parse_args()
    seeds = a.seeds or sorted(d for d in os.listdir(os.path.join(VERIF, "seeded")) if os.path.isdir(os.path.join(VERIF, "seeded", d)))
    if not a.force and not a.seeds:
        seeds = [s for s in seeds if "tests_confirmed" not in json.load(open(os.path.join(VERIF, "seeded", s, "meta.json")))]
    scratch = tempfile.mkdtemp(prefix="confirm_tests_")
    bad = 0
    try:
        with ThreadPoolExecutor(a.jobs) as ex:
            for seed, rec in ex.map(lambda s: one(s, scratch, a.workers), seeds):
                n = len(rec["stable_baseline_tests_not_passing"])
                bad += bool(n)
                print("%-10s passing=%d stable-baseline tests not passing=%d %s" % (seed, rec["passing_with_change"], n, rec["stable_baseline_tests_not_passing"][:3]), flush=True)
    finally:
        shutil.rmtree(scratch, ignore_errors=True)
        subprocess.call(["git", "-C", "/repo", "worktree", "prune"])
    print("%d seeds run, %d break a stable baseline test" % (len(seeds), bad))


if __name__ == "__main__":
    main()
