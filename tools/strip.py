#!/usr/bin/env python3
"""Print a python file (or selected defs) without docstrings/comments, keeping line numbers.
usage: strip.py FILE [NAME ...]   NAME = func or Class or Class.method
"""
import ast, sys, io, tokenize

def main():
    path = sys.argv[1]
    names = sys.argv[2:]
    src = open(path).read()
    tree = ast.parse(src)
    lines = src.splitlines()
    drop = set()
    for node in ast.walk(tree):
        if isinstance(node, (ast.FunctionDef, ast.ClassDef, ast.Module, ast.AsyncFunctionDef)):
            b = node.body
            if b and isinstance(b[0], ast.Expr) and isinstance(b[0].value, ast.Constant) and isinstance(b[0].value.value, str):
                for i in range(b[0].lineno, b[0].end_lineno + 1):
                    drop.add(i)
    # comments
    try:
        for tok in tokenize.generate_tokens(io.StringIO(src).readline):
            if tok.type == tokenize.COMMENT:
                l = tok.start[0]
                if lines[l-1].strip().startswith('#'):
                    drop.add(l)
    except Exception:
        pass
    ranges = []
    if names:
        def find(body, parts):
            for n in body:
                if isinstance(n, (ast.FunctionDef, ast.ClassDef, ast.AsyncFunctionDef)) and n.name == parts[0]:
                    if len(parts) == 1:
                        start = n.lineno
                        if getattr(n, 'decorator_list', None):
                            start = min(d.lineno for d in n.decorator_list)
                        ranges.append((start, n.end_lineno))
                    else:
                        find(n.body, parts[1:])
        for nm in names:
            find(tree.body, nm.split('.'))
    else:
        ranges = [(1, len(lines))]
    for a, b in ranges:
        for i in range(a, b + 1):
            if i in drop: continue
            if not lines[i-1].strip(): continue
            print(f"{i:5d} {lines[i-1]}")
        print()
main()
