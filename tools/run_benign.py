#!/usr/bin/env python3
"""Behaviour-preserving refactorings written by independent sub-agents: the false-alarm side of the both-ways test.

usage: run_benign.py import <srcdir> <id>     copy patch.diff, meta.json, equiv.py (golden.json is re-recordable and not kept)
       run_benign.py run [id ...]             for each refactoring: scratch copy of /repo/menpo + patch (outside /repo and
                                              /verif, removed afterwards), all 20 quick checks on it via MENPOLINT_REPO;
                                              a VIOLATION is a false alarm, an ANALYSIS-ERROR is "no verdict"
Results: /verif/benign/MATRIX.json.  Nothing in /repo is touched.
"""
import json
import os
import shutil
import subprocess
import sys
import tempfile
from concurrent.futures import ThreadPoolExecutor

VERIF = os.path.dirname(os.path.dirname(os.path.abspath(__file__)))
BEN = os.path.join(VERIF, "benign")
PROPS = ["C%02d" % i for i in range(1, 21)]


def do_import(src, bid):
    d = os.path.join(BEN, bid)
    os.makedirs(d, exist_ok=True)
    for fn in ("patch.diff", "meta.json", "equiv.py"):
        if os.path.exists(os.path.join(src, fn)):
            shutil.copy(os.path.join(src, fn), os.path.join(d, fn))
    print("imported", bid)


def run_one(bid, scratch):
    tree = os.path.join(scratch, bid)
    os.makedirs(tree)
    shutil.copytree("/repo/menpo", os.path.join(tree, "menpo"))
    rc = subprocess.call(["patch", "-s", "-p1", "-d", tree, "-i", os.path.join(BEN, bid, "patch.diff")])
    out = {"violations": {}, "analysis_errors": {}}
    if rc != 0:
        out["error"] = "patch does not apply"
        shutil.rmtree(tree)
        return bid, out
    # the refactored tree must still compile
    rc = subprocess.call(["/venv/bin/python", "-m", "compileall", "-q", os.path.join(tree, "menpo")], stdout=subprocess.DEVNULL)
    if rc != 0:
        out["error"] = "does not compile"
    env = dict(os.environ, MENPOLINT_REPO=tree)
    for pid in PROPS:
        r = subprocess.run(["/venv/bin/python", "-m", "menpolint.check", pid, "--no-evidence"], cwd=VERIF, env=env, stdout=subprocess.PIPE, stderr=subprocess.STDOUT, text=True)
        lines = r.stdout.splitlines()
        if r.returncode == 1:
            out["violations"][pid] = [l[:400] for l in lines if l.startswith("menpo/")][:6]
        elif r.returncode == 2:
            out["analysis_errors"][pid] = [l[:400] for l in lines if l.startswith("ANALYSIS-ERROR")][:6]
    shutil.rmtree(tree)
    return bid, out


def main():
    if sys.argv[1] == "import":
        do_import(sys.argv[2], sys.argv[3])
        return
    ids = sys.argv[2:] or sorted(d for d in os.listdir(BEN) if os.path.isdir(os.path.join(BEN, d)))
    scratch = tempfile.mkdtemp(prefix="benign_")
    mpath = os.path.join(BEN, "MATRIX.json")
    matrix = json.load(open(mpath)) if os.path.exists(mpath) else {}
    try:
        with ThreadPoolExecutor(6) as ex:
            for bid, out in ex.map(lambda b: run_one(b, scratch), ids):
                meta = json.load(open(os.path.join(BEN, bid, "meta.json")))
                out["property"] = meta.get("property")
                out["kind"] = meta.get("kind")
                matrix[bid] = out
                tag = "FALSE-ALARM" if out["violations"] else ("no-verdict" if out["analysis_errors"] else "silent")
                print("%-12s %-12s viol=%s err=%s" % (bid, tag, sorted(out["violations"]), sorted(out["analysis_errors"])), flush=True)
                for pid, ls in out["violations"].items():
                    for l in ls[:3]:
                        print("      V", l[:260])
                for pid, ls in out["analysis_errors"].items():
                    for l in ls[:2]:
                        print("      E", l[:260])
    finally:
        shutil.rmtree(scratch, ignore_errors=True)
    json.dump(matrix, open(mpath, "w"), indent=1, sort_keys=True)
    n = len(matrix)
    fa = sum(1 for v in matrix.values() if v["violations"])
    nv = sum(1 for v in matrix.values() if not v["violations"] and v["analysis_errors"])
    print("%d refactorings: %d raise a false alarm, %d give no verdict (analysis error), %d silent" % (n, fa, nv, n - fa - nv))


if __name__ == "__main__":
    main()
