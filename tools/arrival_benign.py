#!/usr/bin/env python3
"""What did the checker, as it stood at a given /verif commit, say about the behaviour-preserving refactorings?
(history worktree of /verif + scratch copies of the patched tree, all removed afterwards; /repo untouched)
usage: arrival_benign.py <id-prefix> <verif-commit> [jobs]      e.g.  arrival_benign.py B-C 9ddc55f"""
import json, os, shutil, subprocess, sys, tempfile
from concurrent.futures import ThreadPoolExecutor

VERIF = os.path.dirname(os.path.dirname(os.path.abspath(__file__)))
BEN = os.path.join(VERIF, "benign")
PROPS = ["C%02d" % i for i in range(1, 21)]


def main():
    prefix, commit = sys.argv[1], sys.argv[2]
    jobs = int(sys.argv[3]) if len(sys.argv) > 3 else 6
    ids = sorted(d for d in os.listdir(BEN) if d.startswith(prefix) and os.path.isdir(os.path.join(BEN, d)))
    scratch = tempfile.mkdtemp(prefix="arrival_benign_")
    wt = os.path.join(scratch, "verif_old")
    subprocess.check_call(["git", "-C", VERIF, "worktree", "add", "--detach", wt, commit], stdout=subprocess.DEVNULL, stderr=subprocess.DEVNULL)
    res = {}
    try:
        def one(bid):
            tree = os.path.join(scratch, bid)
            os.makedirs(tree)
            shutil.copytree("/repo/menpo", os.path.join(tree, "menpo"))
            subprocess.check_call(["patch", "-s", "-p1", "-d", tree, "-i", os.path.join(BEN, bid, "patch.diff")])
            env = dict(os.environ, MENPOLINT_REPO=tree, PYTHONPATH=wt)
            v, e = [], []
            for pid in PROPS:
                r = subprocess.run(["/venv/bin/python", "-m", "menpolint.check", pid, "--no-evidence"], cwd=wt, env=env, stdout=subprocess.DEVNULL, stderr=subprocess.DEVNULL)
                if r.returncode == 1:
                    v.append(pid)
                elif r.returncode == 2:
                    e.append(pid)
            shutil.rmtree(tree)
            return bid, v, e
        with ThreadPoolExecutor(jobs) as ex:
            for bid, v, e in ex.map(one, ids):
                res[bid] = {"checker_commit": commit, "violations": v, "analysis_errors": e}
                print(bid, v, e, flush=True)
    finally:
        subprocess.call(["git", "-C", VERIF, "worktree", "remove", "--force", wt])
        shutil.rmtree(scratch, ignore_errors=True)
    out = os.path.join(BEN, "ARRIVAL.json")
    allr = json.load(open(out)) if os.path.exists(out) else {}
    allr.update(res)
    json.dump(allr, open(out, "w"), indent=1, sort_keys=True)
    fa = sum(1 for x in res.values() if x["violations"])
    nv = sum(1 for x in res.values() if not x["violations"] and x["analysis_errors"])
    print("%s @ %s: %d refactorings, %d false alarms, %d no verdict, %d silent" % (prefix, commit, len(res), fa, nv, len(res) - fa - nv))


if __name__ == "__main__":
    main()
