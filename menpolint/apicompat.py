"""Resolution of third-party attribute chains against the libraries installed in the
interpreter that runs the check (/venv): an attribute of numpy/scipy/PIL that does
not exist is a crash on every input that reaches it.  Only the *libraries* are
imported, never menpo.
"""
import ast
import importlib

from .loader import dotted
from .astutil import walk_own
from . import cfg as cfgmod

ROOTS = ("numpy", "scipy", "PIL")
_cache = {}


def _import(name):
    if name not in _cache:
        try:
            _cache[name] = importlib.import_module(name)
        except Exception:
            _cache[name] = None
    return _cache[name]


def resolve_external(full):
    """full dotted name 'numpy.linalg.inv' -> (exists: bool|None, detail). None = library not installed."""
    parts = full.split(".")
    if parts[0] not in ROOTS:
        return None, "not a checked library"
    if _import(parts[0]) is None:
        return None, "library %s not installed" % parts[0]
    obj = None
    i = len(parts)
    while i > 0:
        m = _import(".".join(parts[:i]))
        if m is not None:
            obj = m
            break
        i -= 1
    if obj is None:
        return None, "cannot import"
    for j in range(i, len(parts)):
        if not hasattr(obj, parts[j]):
            return False, "%s has no attribute '%s'" % (".".join(parts[:j]), parts[j])
        obj = getattr(obj, parts[j])
    return True, ""


def _local_imports(fn_node, module):
    out = {}
    for n in walk_own(fn_node):
        if isinstance(n, ast.Import):
            for a in n.names:
                out[a.asname or a.name.split(".")[0]] = a.name if a.asname else a.name.split(".")[0]
        elif isinstance(n, ast.ImportFrom) and n.level == 0 and n.module:
            for a in n.names:
                out[a.asname or a.name] = n.module + "." + a.name
    return out


def external_refs(project, finfo):
    """[(node, full dotted external name)] for every Name/Attribute chain in finfo rooted at an external import"""
    out = []
    mod = finfo.module
    local = _local_imports(finfo.node, mod)
    seen = set()
    for n in walk_own(finfo.node, include_nested=True):
        if isinstance(n, (ast.Attribute, ast.Name)):
            par = getattr(n, "_parent", None)
            if isinstance(par, ast.Attribute) and par.value is n:
                continue  # not the top of the chain
            d = dotted(n)
            if not d:
                continue
            root = d.split(".")[0]
            full = None
            if root in local:
                full = local[root] + d[len(root):]
            else:
                imp = mod.imports.get(root)
                if imp is None:
                    continue
                if imp[0] == "mod":
                    full = imp[1] + d[len(root):]
                else:
                    full = imp[1] + "." + imp[2] + d[len(root):]
            if full.split(".")[0] not in ROOTS:
                continue
            # local variable shadowing the import?
            if (id(n)) in seen:
                continue
            seen.add(id(n))
            out.append((n, full))
    return out


def check_function(project, finfo):
    """-> list of (node, full, detail) for references that do not resolve; and count of resolved refs"""
    bad = []
    n_ok = 0
    for node, full in external_refs(project, finfo):
        # trim method calls on values: np.array(...).reshape is not a chain on a Name, fine.
        ok, detail = resolve_external(full)
        if ok is False:
            # an attribute of an *object* reached through the chain (e.g. np.float64.max) would have resolved; report
            bad.append((node, full, detail))
        elif ok:
            n_ok += 1
    return bad, n_ok


def cross_2d_sites(project, finfo):
    """np.cross calls that execute under an `n_dims == 2` guard (the installed numpy rejects 2-vectors)"""
    out = []
    np_mod = _import("numpy")
    if np_mod is None:
        return out
    rejects = False
    try:
        np_mod.cross(np_mod.ones((1, 2)), np_mod.ones((1, 2)))
    except Exception:
        rejects = True
    if not rejects:
        return out
    g = None
    for n in walk_own(finfo.node):
        if isinstance(n, ast.Call) and (dotted(n.func) or "") in ("np.cross", "numpy.cross"):
            g = g or cfgmod.build(finfo.node)
            from .astutil import stmt_of, norm
            for t, pol in g.guards(stmt_of(n)):
                s = norm(t)
                if pol and s in ("self.n_dims == 2", "n_dims == 2", "points.shape[1] == 2"):
                    out.append(n)
    return out
