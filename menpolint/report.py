"""Findings, rule records, known-finding matching, evidence and exit protocol."""
import ast
import hashlib
import json
import os
import time

from .loader import AnalysisError, FuncInfo, ClassInfo
from .astutil import norm, stmt_of

VERIF = os.path.dirname(os.path.dirname(os.path.abspath(__file__)))
EVIDENCE_DIR = os.path.join(VERIF, "evidence")
KNOWN_FILE = os.path.join(VERIF, "known_findings.json")


def construct_name(c):
    if isinstance(c, FuncInfo):
        return c.qualname
    if isinstance(c, ClassInfo):
        return c.qualname
    return str(c)


class Finding:
    def __init__(self, prop, rule, construct, node, message, where=None):
        self.prop = prop
        self.rule = rule
        self.construct = construct_name(construct)
        self.message = message
        st = None
        if isinstance(node, ast.AST):
            st = node if isinstance(node, (ast.stmt, ast.ExceptHandler)) else stmt_of(node)
        if st is not None and isinstance(st, (ast.If, ast.For, ast.While, ast.With, ast.Try, ast.FunctionDef, ast.ClassDef)):
            # key on the head only, not on the whole body
            head = getattr(st, "test", None) or getattr(st, "iter", None)
            self.stmt_key = type(st).__name__ + " " + (norm(head) if head is not None else getattr(st, "name", ""))
        elif st is not None:
            self.stmt_key = norm(st)
        elif isinstance(node, str):
            self.stmt_key = node
        else:
            self.stmt_key = ""
        self.line = getattr(node, "lineno", None) if isinstance(node, ast.AST) else None
        if where is None and isinstance(node, ast.AST):
            n = node
            while n is not None and not isinstance(n, ast.Module):
                n = getattr(n, "_parent", None)
            if n is not None and hasattr(n, "_module"):
                where = n._module.relpath
        if where is None and isinstance(construct, (FuncInfo, ClassInfo)):
            where = construct.module.relpath
        self.file = where
        self.known = None

    @property
    def key(self):
        return "%s|%s|%s" % (self.rule, self.construct, self.stmt_key)

    def digest(self):
        return hashlib.sha1(self.key.encode()).hexdigest()[:12]

    def as_dict(self):
        return {
            "property": self.prop,
            "rule": self.rule,
            "construct": self.construct,
            "statement_key": self.stmt_key,
            "file": self.file,
            "line": self.line,
            "message": self.message,
            "key": self.key,
        }

    def text(self):
        loc = "%s:%s" % (self.file or "?", self.line if self.line is not None else "?")
        return "%s %s [%s] %s" % (loc, self.rule, self.construct, self.message)


class RuleRecord:
    def __init__(self, result, rid, title):
        self.result = result
        self.id = rid
        self.title = title
        self.instances = []
        self.obligations = 0
        self.discharged = 0
        self.undecided = []
        self.notes = []
        self.samples = []

    def instance(self, what):
        self.instances.append(construct_name(what))
        if isinstance(what, FuncInfo):
            if not hasattr(self, "instance_funcs"):
                self.instance_funcs = []
            self.instance_funcs.append(what)

    def ok(self, sample=None):
        self.obligations += 1
        self.discharged += 1
        if sample is not None and len(self.samples) < 4:
            self.samples.append(sample)

    def violation(self, construct, node, message):
        self.obligations += 1
        f = Finding(self.result.prop, self.id, construct, node, message)
        f.func_node = getattr(construct, "node", None) if isinstance(construct, FuncInfo) else None
        self.result.findings.append(f)
        return f

    def check(self, cond, construct, node, message, sample=None):
        if cond:
            self.ok(sample)
        else:
            self.violation(construct, node, message)
        return cond

    def undecide(self, what):
        self.undecided.append(what)

    def note(self, what):
        self.notes.append(what)

    def floor(self, n, what="instances"):
        if len(self.instances) < n:
            raise AnalysisError(
                "%s: only %d %s analysed, confirmed floor is %d (%s)"
                % (self.id, len(self.instances), what, n, ", ".join(self.instances[:12]))
            )

    def as_dict(self):
        return {
            "rule": self.id,
            "title": self.title,
            "instances": len(self.instances),
            "instance_names": self.instances[:60],
            "obligations": self.obligations,
            "discharged": self.discharged,
            "undecided": self.undecided,
            "notes": self.notes,
        }


class Result:
    def __init__(self, prop, tier="quick"):
        self.prop = prop
        self.tier = tier
        self.rules = []
        self.findings = []
        self.errors = []
        self.notes = []
        self.witness = None
        self.t0 = time.time()

    def rule(self, rid, title):
        r = RuleRecord(self, rid, title)
        self.rules.append(r)
        return r

    def error(self, msg):
        self.errors.append(msg)


def load_known():
    if not os.path.exists(KNOWN_FILE):
        return []
    with open(KNOWN_FILE) as f:
        data = json.load(f)
    return data.get("findings", [])


def match_known(finding, known):
    for k in known:
        if k.get("status") != "known":
            continue  # 'fixed: <commit>' entries suppress nothing
        if k.get("property") != finding.prop or k.get("rule") != finding.rule:
            continue
        if k.get("construct") != finding.construct:
            continue
        sk = k.get("statement_key")
        if sk and sk != finding.stmt_key:
            continue
        return k
    return None
