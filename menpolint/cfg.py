"""Statement-level control-flow graph for one function, with path queries.

Nodes are simple statements and the heads (tests / iterables) of compound
statements.  Two distinct exits: RETURN (normal return or fall off the end) and
RAISE (explicit `raise` not caught inside the function).  Only explicit raises
are modelled as leaving the function; inside a `try` body every statement may
jump to every handler.  `finally` bodies are duplicated on the normal, the
return and the raise continuation.  Loops may run zero times.
"""
import ast

ENTRY, RETURN, RAISE = "ENTRY", "RETURN", "RAISE"


class CFG:
    def __init__(self, fn_node):
        self.fn = fn_node
        self.succ = {ENTRY: [], RETURN: [], RAISE: []}  # node -> [(dst, label)]
        self.stmt = {}  # node id -> ast stmt
        self.nodes_of = {}  # id(ast stmt) -> [node ids]
        self._n = 0
        ends = self._block(fn_node.body, [(ENTRY, None)], _Ctx())
        for src, lab in ends:
            self._edge(src, RETURN, lab)
        self.pred = {n: [] for n in self.succ}
        for s, outs in self.succ.items():
            for d, lab in outs:
                self.pred[d].append((s, lab))

    # ------------------------------------------------------------ building
    def _new(self, stmt):
        self._n += 1
        nid = self._n
        self.succ[nid] = []
        self.stmt[nid] = stmt
        self.nodes_of.setdefault(id(stmt), []).append(nid)
        return nid

    def _edge(self, src, dst, label=None):
        self.succ[src].append((dst, label))

    def _connect(self, incoming, node):
        for src, lab in incoming:
            self._edge(src, node, lab)

    def _block(self, body, incoming, ctx):
        """incoming: list of (node, label) dangling edges; returns dangling edges after the block."""
        cur = incoming
        for st in body:
            cur = self._stmt(st, cur, ctx)
        return cur

    def _stmt(self, st, incoming, ctx):
        if isinstance(st, ast.If):
            h = self._new(st)
            self._connect(incoming, h)
            ctx.note(self, h)
            t = self._block(st.body, [(h, "T")], ctx)
            f = self._block(st.orelse, [(h, "F")], ctx) if st.orelse else [(h, "F")]
            return t + f
        if isinstance(st, (ast.While,)):
            h = self._new(st)
            self._connect(incoming, h)
            ctx.note(self, h)
            lc = ctx.loop()
            body_end = self._block(st.body, [(h, "T")], lc)
            self._connect(body_end + lc.continues, h)
            out = [(h, "F")]
            if st.orelse:
                out = self._block(st.orelse, out, ctx)
            infinite = isinstance(st.test, ast.Constant) and bool(st.test.value)
            if infinite:
                out = []
            return out + lc.breaks
        if isinstance(st, (ast.For, ast.AsyncFor)):
            h = self._new(st)
            self._connect(incoming, h)
            ctx.note(self, h)
            lc = ctx.loop()
            body_end = self._block(st.body, [(h, "T")], lc)
            self._connect(body_end + lc.continues, h)
            out = [(h, "F")]
            if st.orelse:
                out = self._block(st.orelse, out, ctx)
            return out + lc.breaks
        if isinstance(st, (ast.With, ast.AsyncWith)):
            h = self._new(st)
            self._connect(incoming, h)
            ctx.note(self, h)
            return self._block(st.body, [(h, None)], ctx)
        if isinstance(st, ast.Try) or (hasattr(ast, "TryStar") and isinstance(st, getattr(ast, "TryStar"))):
            return self._try(st, incoming, ctx)
        if isinstance(st, ast.Match):
            h = self._new(st)
            self._connect(incoming, h)
            ctx.note(self, h)
            outs = []
            for case in st.cases:
                outs += self._block(case.body, [(h, "case")], ctx)
            return outs + [(h, "nomatch")]
        n = self._new(st)
        self._connect(incoming, n)
        ctx.note(self, n)
        if isinstance(st, ast.Return):
            ctx.do_return(self, n)
            return []
        if isinstance(st, ast.Raise):
            ctx.do_raise(self, n)
            return []
        if isinstance(st, ast.Break):
            ctx.breaks.append((n, None))
            return []
        if isinstance(st, ast.Continue):
            ctx.continues.append((n, None))
            return []
        return [(n, None)]

    def _try(self, st, incoming, ctx):
        tc = ctx.try_(st)
        # a pseudo head so that "before the try" can jump to handlers
        h = self._new(st)
        self._connect(incoming, h)
        ctx.note(self, h)
        tc.body_nodes.append(h)
        body_end = self._block(st.body, [(h, None)], tc)
        if st.orelse:
            # else-part exceptions are not caught by the handlers
            body_end = self._block(st.orelse, body_end, tc.outer_for_else())
        handler_ends = []
        for hd in st.handlers:
            hn = self._new(hd)
            for b in tc.body_nodes:
                self._edge(b, hn, "exc")
            for b, _ in tc.raised:
                self._edge(b, hn, "exc")
            handler_ends += self._block(hd.body, [(hn, None)], tc.handler_ctx())
        if not st.handlers:
            # try/finally: explicit raises continue outward (through finally)
            for b, lab in tc.raised:
                tc.pending_raise.append((b, lab))
        normal = body_end + handler_ends
        if st.finalbody:
            out = self._block(st.finalbody, normal, ctx) if normal else []
            if tc.pending_return:
                fin = self._block(st.finalbody, tc.pending_return, ctx)
                for src, lab in fin:
                    ctx.do_return_edge(self, src, lab)
            if tc.pending_raise:
                fin = self._block(st.finalbody, tc.pending_raise, ctx)
                for src, lab in fin:
                    ctx.do_raise_edge(self, src, lab)
            ctx.breaks += tc.breaks
            ctx.continues += tc.continues
            return out
        for src, lab in tc.pending_return:
            ctx.do_return_edge(self, src, lab)
        for src, lab in tc.pending_raise:
            ctx.do_raise_edge(self, src, lab)
        ctx.breaks += tc.breaks
        ctx.continues += tc.continues
        return normal

    # -------------------------------------------------------------- queries
    def nodes(self, stmt):
        return self.nodes_of.get(id(stmt), [])

    def reachable(self, start=ENTRY, avoid=(), avoid_edges=()):
        """Nodes reachable from start without entering any node in `avoid`
        and without using edges in avoid_edges {(src, label)}."""
        avoid = set(avoid)
        avoid_edges = set(avoid_edges)
        seen = set()
        todo = [start]
        while todo:
            n = todo.pop()
            if n in seen or n in avoid:
                continue
            seen.add(n)
            for d, lab in self.succ[n]:
                if (n, lab) in avoid_edges:
                    continue
                todo.append(d)
        return seen

    def _ids(self, stmts):
        out = set()
        for s in stmts:
            if isinstance(s, (int, str)):
                out.add(s)
            else:
                out.update(self.nodes(s))
        return out

    def must_pass(self, through, target, start=ENTRY):
        """True iff every path start -> target passes through one of `through` (stmts)."""
        g = self._ids(through)
        tgt = self._ids([target]) if not isinstance(target, (int, str)) else {target}
        r = self.reachable(start, avoid=g)
        return not (r & (tgt - g))

    def dominates(self, a, b):
        return self.must_pass([a], b)

    def reaches(self, a, b, avoid=()):
        """Some path from after stmt a to stmt b."""
        g = self._ids(avoid)
        tgt = self._ids([b]) if not isinstance(b, (int, str)) else {b}
        for n in self._ids([a]):
            seen = set()
            todo = [d for d, _ in self.succ[n]]
            while todo:
                x = todo.pop()
                if x in seen or x in g:
                    continue
                seen.add(x)
                if x in tgt:
                    return True
                todo += [d for d, _ in self.succ[x]]
        return False

    def all_paths_after_pass(self, a, through, target=RETURN):
        """Every path from stmt a to `target` passes through one of `through`."""
        g = self._ids(through)
        for n in self._ids([a]):
            seen = set()
            todo = [d for d, _ in self.succ[n]]
            while todo:
                x = todo.pop()
                if x in seen or x in g:
                    continue
                seen.add(x)
                if x == target:
                    return False
                todo += [d for d, _ in self.succ[x]]
        return True

    def is_reachable(self, stmt):
        r = self.reachable()
        return bool(r & self._ids([stmt]))

    def guards(self, stmt):
        """Branch conditions that must hold for `stmt` to execute:
        list of (test_expr, polarity) with polarity True/False, outermost first."""
        out = []
        tgt = self._ids([stmt])
        base = self.reachable()
        if not (base & tgt):
            return out
        heads = [n for n, s in self.stmt.items() if isinstance(s, (ast.If, ast.While)) and n in base]
        heads.sort()
        for h in heads:
            if h in tgt:
                continue
            for lab, pol in (("T", True), ("F", False)):
                r = self.reachable(avoid_edges={(h, lab)})
                if not (r & tgt):
                    # canonical polarity: `not c` being true is `c` being false
                    test = self.stmt[h].test
                    while isinstance(test, ast.UnaryOp) and isinstance(test.op, ast.Not):
                        test = test.operand
                        pol = not pol
                    out.append((test, pol))
        return out

    def witness_path(self, target, avoid=()):
        """One path ENTRY -> target avoiding `avoid`, as list of line numbers."""
        g = self._ids(avoid)
        tgt = self._ids([target]) if not isinstance(target, (int, str)) else {target}
        prev = {ENTRY: None}
        todo = [ENTRY]
        while todo:
            n = todo.pop(0)
            if n in tgt:
                path = []
                while n is not None:
                    if n in self.stmt:
                        path.append(self.stmt[n].lineno)
                    n = prev[n]
                return list(reversed(path))
            for d, _ in self.succ[n]:
                if d not in prev and d not in g:
                    prev[d] = n
                    todo.append(d)
        return None


class _Ctx:
    """Where return/raise/break/continue go from the current position."""

    def __init__(self, parent=None):
        self.parent = parent
        self.breaks = []
        self.continues = []

    def note(self, cfg, node):
        if self.parent is not None:
            self.parent.note(cfg, node)

    def loop(self):
        return _LoopCtx(self)

    def try_(self, st):
        return _TryCtx(self, st)

    def do_return(self, cfg, n):
        self.do_return_edge(cfg, n, None)

    def do_raise(self, cfg, n):
        self.do_raise_edge(cfg, n, None)

    def do_return_edge(self, cfg, n, lab):
        if self.parent is not None:
            self.parent.do_return_edge(cfg, n, lab)
        else:
            cfg._edge(n, RETURN, lab)

    def do_raise_edge(self, cfg, n, lab):
        if self.parent is not None:
            self.parent.do_raise_edge(cfg, n, lab)
        else:
            cfg._edge(n, RAISE, lab)


class _LoopCtx(_Ctx):
    def __init__(self, parent):
        super().__init__(parent)


class _TryCtx(_Ctx):
    def __init__(self, parent, st):
        super().__init__(parent)
        self.st = st
        self.body_nodes = []
        self.raised = []
        self.pending_return = []
        self.pending_raise = []
        self.in_body = True

    def note(self, cfg, node):
        if self.in_body:
            self.body_nodes.append(node)
        if self.parent is not None:
            self.parent.note(cfg, node)

    def do_return_edge(self, cfg, n, lab):
        if self.st.finalbody:
            self.pending_return.append((n, lab))
        else:
            self.parent.do_return_edge(cfg, n, lab)

    def do_raise_edge(self, cfg, n, lab):
        if self.in_body and self.st.handlers:
            self.raised.append((n, lab))
            # a bare/typed handler may not match: conservatively also allow escape
            if not any(h.type is None for h in self.st.handlers):
                if self.st.finalbody:
                    self.pending_raise.append((n, lab))
                else:
                    self.parent.do_raise_edge(cfg, n, lab)
        elif self.st.finalbody:
            self.pending_raise.append((n, lab))
        else:
            self.parent.do_raise_edge(cfg, n, lab)

    def handler_ctx(self):
        self.in_body = False
        return self

    def outer_for_else(self):
        self.in_body = False
        return self


def build(fn_node):
    return CFG(fn_node)


def reaching_defs(g, defs, name, use_stmt):
    """Definitions (kind, value, stmt) of local `name` that may reach `use_stmt`
    (CFG path from the definition to the use avoiding every other definition).
    Parameters count as a definition at ENTRY."""
    ds = defs.of(name)
    stmts = [st for kind, val, st in ds if st is not None]
    out = []
    for kind, val, st in ds:
        if st is None:  # parameter
            others = stmts
            tgt = g._ids([use_stmt])
            r = g.reachable(ENTRY, avoid=g._ids(others) - tgt)
            # a definition inside the use statement itself does not block the use
            if r & tgt:
                out.append((kind, val, st))
            continue
        others = [s for s in stmts if s is not st]
        if st is use_stmt or g.reaches(st, use_stmt, avoid=[o for o in others if o is not use_stmt]):
            out.append((kind, val, st))
    return out


def default_feasible(g, finfo, stmt):
    """False if `stmt` can only execute when a parameter with a constant default
    takes a non-default truth value (specialisation on default keyword values)."""
    import ast as _ast
    dflt = finfo.defaults()
    for test, pol in g.guards(stmt):
        t = test
        neg = False
        while isinstance(t, _ast.UnaryOp) and isinstance(t.op, _ast.Not):
            t = t.operand
            neg = not neg
        if isinstance(t, _ast.Name) and t.id in dflt and isinstance(dflt[t.id], _ast.Constant):
            val = bool(dflt[t.id].value)
            if neg:
                val = not val
            if val != pol:
                return False
    return True
