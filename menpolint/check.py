"""CLI:  python -m menpolint.check Cxx [--tier quick|thorough] [--replay path]

exit 0: every rule instance holds (known findings are printed as KNOWN-FINDING)
exit 1: VIOLATION property=Cxx replay=<path>   (finding not listed as known)
exit 2: ANALYSIS-ERROR (anchor missing, floor not met, witness rotted, crash)
"""
import argparse
import importlib
import json
import os
import sys
import time
import traceback

from .loader import Project, AnalysisError, REPO
from . import report
from .report import Result, EVIDENCE_DIR, load_known, match_known


def prop_module(pid):
    return importlib.import_module("menpolint.props.%s" % pid.lower())


_ANCHORS = None


def _anchors():
    global _ANCHORS
    if _ANCHORS is None:
        path = os.path.join(os.path.dirname(os.path.abspath(__file__)), "anchors.json")
        try:
            with open(path) as f:
                _ANCHORS = json.load(f)
        except Exception:
            _ANCHORS = {}
    return _ANCHORS


def anchor_filter(prop, result):
    """A violation reported in a function most of whose anchor locals (the local names the rules' patterns
    rely on, recorded from the clean tree) have vanished is a lost anchor: ANALYSIS-ERROR, not a violation."""
    from .astutil import Defs
    import ast as _ast
    table = _anchors().get(prop, {})
    keep = []
    for f in result.findings:
        names = table.get(f.construct)
        node = getattr(f, "func_node", None)
        if not names or node is None:
            keep.append(f)
            continue
        locs = set(Defs(node).defs)
        for sub in _ast.walk(node):
            if isinstance(sub, (_ast.FunctionDef, _ast.AsyncFunctionDef)) and sub is not node:
                locs |= set(Defs(sub).defs)
        missing = [n for n in names if n not in locs]
        # (plain renames never get here: the loader recognises them through the canonical form and shows the rules the
        # confirmed spelling; what is left are rewrites that changed most of the function's vocabulary together with its shape)
        if (len(names) >= 2 and len(missing) == len(names)) or (len(missing) >= 3 and len(missing) * 3 >= len(names) * 2):
            result.error("%s: %s is no longer recognised: %d of the %d local names the rule's patterns rely on (%s) no longer exist in it "
                         "(renamed or refactored); the rule needs re-confirmation, no verdict" % (f.rule, f.construct.split(".")[-1], len(missing), len(names), ", ".join(missing[:6])))
        else:
            keep.append(f)
    result.findings[:] = keep
    return result


_SCOPE = None


def _scope():
    global _SCOPE
    if _SCOPE is None:
        path = os.path.join(os.path.dirname(os.path.abspath(__file__)), "scope.json")
        try:
            with open(path) as f:
                _SCOPE = json.load(f)
        except Exception:
            _SCOPE = {}
    return _SCOPE


def params_read(fn_node):
    """parameters of a function that are read somewhere in its body (nested functions included)"""
    import ast as _ast
    a = fn_node.args
    params = [x.arg for x in a.posonlyargs + a.args + a.kwonlyargs]
    if a.vararg:
        params.append(a.vararg.arg)
    if a.kwarg:
        params.append(a.kwarg.arg)
    used = set()
    for st in fn_node.body:
        for n in _ast.walk(st):
            if isinstance(n, _ast.Name) and isinstance(n.ctx, (_ast.Load, _ast.Del)) and n.id in params:
                used.add(n.id)
            elif isinstance(n, _ast.AugAssign) and isinstance(n.target, _ast.Name) and n.target.id in params:
                used.add(n.target.id)
    return used


def generic_param_rule(prop, project, result):
    """Cxx.G1: every parameter that the functions in this property's scope *read* on the confirmed tree is still read.
    A declared option that nothing reads cannot influence the result: the caller's choice is silently ignored."""
    table = _scope().get(prop)
    if not table:
        return
    r = result.rule("%s.G1" % prop, "options read on the confirmed tree are still read (no silently dropped option)")
    index = {}
    for f in project.all_functions():
        index[f.qualname] = f
    missing_fns = 0
    for q, used_ref in table.items():
        f = index.get(q)
        if f is None:
            missing_fns += 1
            continue
        r.instance(f)
        now = params_read(f.node)
        have = set(f.params) | {x for x in (getattr(f.node.args.vararg, "arg", None), getattr(f.node.args.kwarg, "arg", None)) if x}
        for prm in used_ref:
            if prm not in have:
                continue  # the parameter itself was removed: a signature change, not a dropped read
            if prm in now:
                r.ok()
            else:
                r.violation(f, f.node, "parameter `%s` of %s is declared but no longer read anywhere in the function: whatever the caller passes is silently ignored" % (prm, f.short))
    if missing_fns and missing_fns * 2 > len(table):
        result.error("%s.G1: %d of %d functions in the recorded scope no longer exist" % (prop, missing_fns, len(table)))


def generic_argname_rule(prop, project, result):
    """Cxx.G2: in the functions of this property's scope, a variable passed *positionally* into a parameter of another
    name, while the callee also has a parameter of the variable's own name, is a swapped / shifted argument."""
    import ast as _ast
    from .calls import CallCtx
    from .astutil import calls_in, norm
    table = _scope().get(prop)
    if not table:
        return
    r = result.rule("%s.G2" % prop, "positional arguments land in the parameter of their own name (no swapped / shifted arguments)")
    index = {f.qualname: f for f in project.all_functions()}
    for q in table:
        f = index.get(q)
        if f is None:
            continue
        r.instance(f)
        ctx = CallCtx(project, f, f.cls)
        for k in calls_in(f.node, include_nested=True):
            if not k.args or any(isinstance(a, _ast.Starred) for a in k.args):
                continue
            ts = ctx.resolve_call(k)
            if len(ts) != 1:
                continue
            t = ts[0]
            callee = t.func
            a = callee.node.args
            pos = [x.arg for x in a.posonlyargs + a.args]
            decs = callee.decorators()
            is_method = callee.cls is not None and "staticmethod" not in decs
            args = list(k.args)
            if is_method and pos:
                if t.how == "explicit-base":
                    args = args[1:]
                pos = pos[1:]
            allp = set(pos) | {x.arg for x in a.kwonlyargs}
            for i, arg in enumerate(args):
                if i >= len(pos) or not isinstance(arg, _ast.Name):
                    continue
                if arg.id != pos[i] and arg.id in allp:
                    r.violation(f, k, "`%s` passes the variable `%s` positionally into parameter `%s` of %s, which also has a parameter called `%s`: the arguments are swapped or shifted"
                                % (norm(k)[:70], arg.id, pos[i], callee.short, arg.id))
                else:
                    r.ok()


def forwarded_options(project, f):
    """{(callee short name, parameter)}: parameters of f that are handed, under their own name, to the same-named parameter of a
    resolved callee (a local that is nothing but a copy of the parameter counts)"""
    import ast as _ast
    from .calls import CallCtx
    from .astutil import calls_in, bind_call, Defs, expand
    out = set()
    called = set()
    derived = set()
    opaque = set()
    ctx = CallCtx(project, f, f.cls)
    d = Defs(f.node)
    params = set(f.params)
    for k in calls_in(f.node, include_nested=True):
        ts = ctx.resolve_call(k)
        if len(ts) != 1:
            continue
        g = ts[0].func
        called.add(g.short)
        try:
            bound = bind_call(k, g, skip_self=(g.cls is not None and "staticmethod" not in g.decorators() and ts[0].how != "explicit-base") or None)
        except Exception:
            continue
        for q, v in bound.items():
            if q in params and isinstance(v, _ast.AST):
                v2 = expand(v, d)
                if isinstance(v2, _ast.Name) and v2.id == q:
                    out.add((g.short, q))
                elif any(isinstance(n, _ast.Name) and n.id == q for n in _ast.walk(v2)) or any(isinstance(n, _ast.Name) and n.id == q for n in _ast.walk(v)):
                    derived.add((g.short, q))
        if any(kw.arg is None for kw in k.keywords) or any(isinstance(x, _ast.Starred) for x in k.args):
            opaque.add(g.short)
    forwarded_options.derived = derived
    forwarded_options.opaque = opaque
    return out, called


def generic_forward_rule(prop, project, result):
    """Cxx.G4: an option that a function of the scope handed on, under its own name, to a callee on the confirmed tree is still
    handed on to that callee (wherever the function still calls it).  An option that is read but no longer forwarded on one
    call path is honoured on some paths and silently replaced by the callee's default on others."""
    table = _scope().get("#forward", {}).get(prop)
    if not table:
        return
    r = result.rule("%s.G4" % prop, "options forwarded to a callee on the confirmed tree are still forwarded to it")
    index = {f.qualname: f for f in project.all_functions()}
    short_index = {}
    for f in project.all_functions():
        short_index.setdefault(f.short, []).append(f)
    for q, pairs in table.items():
        f = index.get(q)
        if f is None:
            continue
        r.instance(f)
        now, called = forwarded_options(project, f)
        derived, opaque = forwarded_options.derived, forwarded_options.opaque
        for callee, prm in pairs:
            if (callee, prm) in now or (callee, prm) in derived or callee in opaque:
                r.ok()
                continue
            if prm not in f.params or callee not in called:
                continue  # signature changed / the call moved elsewhere: not this rule's business
            if not any(prm in g.params for g in short_index.get(callee, [])):
                continue
            r.violation(f, f.node, "%s still calls %s but no longer hands its `%s` on to it: on this path the callee's default is used whatever the caller asked for" % (f.short, callee, prm))


def class_state(cls_info):
    """attribute name -> set of method names that store it on self"""
    import ast as _ast
    out = {}
    for name, fi in list(cls_info.methods.items()) + [(k + "#setter", v) for k, v in cls_info.setters.items()]:
        if not fi.params:
            continue
        me = fi.params[0]
        for n in _ast.walk(fi.node):
            tg = []
            if isinstance(n, _ast.Assign):
                for t in n.targets:
                    tg += list(t.elts) if isinstance(t, (_ast.Tuple, _ast.List)) else [t]
            elif isinstance(n, (_ast.AugAssign, _ast.AnnAssign)):
                tg = [n.target]
            for t in tg:
                if isinstance(t, _ast.Attribute) and isinstance(t.value, _ast.Name) and t.value.id == me:
                    out.setdefault(t.attr, set()).add(name)
    return out


def generic_state_rule(prop, project, result):
    """Cxx.G5: no method outside the constructors gives an object an attribute its class did not have on the confirmed tree
    (a lazily filled cache: it survives copy(), transforms and masking and nothing invalidates it)."""
    table = _scope().get("#state", {})
    scope = _scope().get(prop) or {}
    if not table or not scope:
        return
    r = result.rule("%s.G5" % prop, "no hidden state: methods other than constructors store only attributes the class already had")
    classes = {q.rsplit(".", 1)[0] for q in scope}
    for c in project.classes.values():
        if c.qualname not in classes or c.qualname not in table:
            continue
        r.instance(c)
        known = set(table[c.qualname])
        for b in c.mro[1:]:
            known |= set(table.get(getattr(b, "qualname", ""), []))
        state = class_state(c)
        vanished = [a for a in table[c.qualname] if a not in state]
        fresh = [a for a in state if a not in known]
        for attr, methods in sorted(state.items()):
            if attr in known:
                r.ok()
                continue
            if vanished and len(fresh) <= len(vanished):
                continue  # an attribute was renamed, not added
            if any(attr in getattr(b, "setters", {}) for b in c.mro):
                continue  # a property with a setter: the store is a call, judged by the rules of that setter
            lazy = sorted(m for m in methods if m not in ("__init__", "__setstate__", "__new__") and not m.startswith("init_"))
            if lazy:
                fi = c.methods.get(lazy[0]) or c.setters.get(lazy[0].split("#")[0])
                r.violation(fi if fi is not None else c, fi.node if fi is not None else c.node, "%s.%s stores a new attribute `self.%s` that the class did not have: state written outside the constructor is carried along by "
                            "copy(), survives transforms / masking / retargeting and is never invalidated, so later answers describe the object as it was" % (c.name, lazy[0], attr))


def aliasing_profile(project, f, fresh_helpers=(), lenient=False):
    """(whole-buffer stores, calls with copy=False, explicit copies) of a function; explicit copies made by helper functions
    that did not exist on the confirmed tree count for their caller (an extracted helper must not hide a copy)"""
    import ast as _ast
    from .astutil import Defs, norm
    d = Defs(f.node)
    inplace, nocopy, copies = [], [], []

    def whole(sl):
        if isinstance(sl, _ast.Constant) and sl.value is Ellipsis:
            return True
        if isinstance(sl, _ast.Slice) and sl.lower is None and sl.upper is None and sl.step is None:
            return True
        if isinstance(sl, _ast.Tuple) and sl.elts and all(whole(x) for x in sl.elts):
            return True
        return False

    def default_float_buffer(v):
        if not isinstance(v, _ast.Name):
            return False
        x = d.single(v.id)
        if isinstance(x, _ast.Call) and isinstance(x.func, _ast.Attribute) and x.func.attr in ("zeros", "empty", "ones", "full") and isinstance(x.func.value, _ast.Name) and x.func.value.id == "np":
            return not any(kw.arg == "dtype" for kw in x.keywords) and len(x.args) < (3 if x.func.attr == "full" else 2)
        return False

    for n in _ast.walk(f.node):
        tg = []
        if isinstance(n, _ast.Assign):
            tg = n.targets
        elif isinstance(n, _ast.AnnAssign):
            tg = [n.target]
        for t in tg:
            if isinstance(t, _ast.Subscript) and whole(t.slice) and not default_float_buffer(t.value):
                inplace.append(n)
        if isinstance(n, _ast.Call):
            for kw in n.keywords:
                if kw.arg == "copy" and isinstance(kw.value, _ast.Constant) and kw.value.value is False:
                    nocopy.append(n)
            fn = n.func
            if isinstance(fn, _ast.Attribute) and fn.attr in ("copy", "deepcopy") and not (isinstance(fn.value, _ast.Name) and fn.value.id == "np" and not n.args):
                copies.append(n)
            elif isinstance(fn, _ast.Attribute) and isinstance(fn.value, _ast.Name) and fn.value.id == "np" and fn.attr in ("copy",) and n.args \
                    and (isinstance(n.args[0], _ast.Name) or (isinstance(n.args[0], _ast.Attribute) and n.args[0].attr not in ("shape", "n_dims", "size"))) \
                    and not any(kw.arg == "copy" and isinstance(kw.value, _ast.Constant) and kw.value.value is False for kw in n.keywords):
                copies.append(n)
            elif isinstance(fn, _ast.Name) and fn.id == "deepcopy":
                copies.append(n)
            elif lenient and isinstance(fn, _ast.Attribute) and isinstance(fn.value, _ast.Name) and fn.value.id == "np" and fn.attr == "array" and n.args \
                    and not any(kw.arg == "copy" and isinstance(kw.value, _ast.Constant) and kw.value.value is False for kw in n.keywords):
                copies.append(n)  # counted on the tree under analysis only: np.array(x) is another spelling of x.copy()
    extra = 0
    if fresh_helpers:
        from .calls import CallCtx
        from .astutil import calls_in
        ctx = CallCtx(project, f, f.cls)
        seen = set()
        for k in calls_in(f.node, include_nested=True):
            for t in ctx.resolve_call(k):
                if t.func.qualname in fresh_helpers and t.func.qualname not in seen:
                    seen.add(t.func.qualname)
                    extra += len(aliasing_profile(project, t.func, lenient=lenient)[2])
    return inplace, nocopy, copies, extra


def generic_alias_rules(prop, project, result):
    """Cxx.G6: no function of the scope gains a store that overwrites a whole existing buffer (`x[...] = v`, `x[:] = v`): the value is
    cast to the dtype of the old buffer and written through every alias of it -- rebinding does neither.
    Cxx.G7: no function of the scope makes fewer explicit copies, or passes copy=False more often, than on the confirmed tree."""
    table = _scope().get("#alias", {})
    scope = _scope().get(prop) or {}
    if not table or not scope:
        return
    r6 = result.rule("%s.G6" % prop, "no new whole-buffer overwrite (x[...] = v casts to the old dtype and writes through every alias)")
    r7 = result.rule("%s.G7" % prop, "no function makes fewer explicit copies or passes copy=False more often than on the confirmed tree")
    index = {f.qualname: f for f in project.all_functions()}
    known_fns = set(table.get("#functions", []))
    fresh = {q for q in index if q not in known_fns}
    for q in scope:
        f = index.get(q)
        ref = table.get(q)
        if f is None or ref is None:
            continue
        r6.instance(f)
        r7.instance(f)
        inplace, nocopy, copies, extra = aliasing_profile(project, f, fresh, lenient=True)
        if len(inplace) > ref[0]:
            n = inplace[-1]
            r6.violation(f, n, "%s now overwrites a whole existing buffer in place (`%s`): the new values are cast to the dtype the buffer already had and every other "
                         "holder of that buffer sees them; the confirmed code bound a new array instead" % (f.short, __import__("ast").unparse(n)[:80]))
        else:
            r6.ok()
        if len(nocopy) > ref[1]:
            n = nocopy[-1]
            r7.violation(f, n, "%s passes copy=False at `%s` where the confirmed code let the callee take its own copy: the result now shares storage with the argument" % (f.short, __import__("ast").unparse(n)[:80]))
        elif len(copies) + extra < ref[2]:
            r7.violation(f, f.node, "%s makes %d explicit copies, the confirmed code %d: an array or container that was duplicated is now shared with its source" % (f.short, len(copies) + extra, ref[2]))
        else:
            r7.ok()


_RISKY_FLAGS = {("assume_unique", True), ("assume_sorted", True), ("check_finite", False), ("overwrite_a", True), ("overwrite_b", True), ("overwrite_x", True),
                ("overwrite_input", True), ("validate", False), ("bounds_error", False)}
_NARROW = {"uint8", "uint16", "int8", "int16", "float16", "float32", "half", "single", "short", "ubyte", "ushort"}
_BROAD = {"Exception", "BaseException", "ValueError", "TypeError", "KeyError", "IndexError", "AttributeError", "ArithmeticError", "LookupError", "RuntimeError"}


def shortcut_profile(f):
    """(keywords that switch off a library routine's own checks, mentions of narrow numeric types, broad exception handlers)"""
    import ast as _ast
    flags, narrow, handlers = [], [], []
    for n in _ast.walk(f.node):
        if isinstance(n, _ast.Call):
            for kw in n.keywords:
                if isinstance(kw.value, _ast.Constant) and (kw.arg, kw.value.value) in _RISKY_FLAGS and isinstance(kw.value.value, bool):
                    flags.append(n)
        if isinstance(n, _ast.Attribute) and n.attr in _NARROW and isinstance(n.value, _ast.Name) and n.value.id in ("np", "numpy"):
            narrow.append(n)
        elif isinstance(n, _ast.Constant) and isinstance(n.value, str) and n.value in _NARROW:
            narrow.append(n)
        if isinstance(n, _ast.ExceptHandler):
            names = []
            if n.type is None:
                names = ["<bare>"]
            else:
                for t in (n.type.elts if isinstance(n.type, _ast.Tuple) else [n.type]):
                    names.append(t.attr if isinstance(t, _ast.Attribute) else getattr(t, "id", "?"))
            if any(x in _BROAD or x == "<bare>" for x in names):
                handlers.append(n)
    return flags, narrow, handlers


def generic_shortcut_rule(prop, project, result):
    """Cxx.G10: no function of the scope gains (a) a keyword that switches off a library routine's own precondition check
    (assume_unique=True, check_finite=False, overwrite_a=True ...), (b) a narrow numeric type (uint16, float32 ...) it did not
    mention, (c) a handler for a broad exception class around code that had none: each trades a stated precondition, range or
    error contract of the confirmed code for one that holds only on the inputs the author had in mind."""
    table = _scope().get("#shortcut", {})
    scope = _scope().get(prop) or {}
    if not table or not scope:
        return
    r = result.rule("%s.G10" % prop, "no new unchecked shortcuts: precondition-waiving keywords, narrow numeric types, broad exception handlers")
    index = {f.qualname: f for f in project.all_functions()}
    import ast as _ast
    for q in scope:
        f = index.get(q)
        ref = table.get(q)
        if f is None or ref is None:
            continue
        r.instance(f)
        flags, narrow, handlers = shortcut_profile(f)
        bad = False
        if len(flags) > ref[0]:
            bad = True
            r.violation(f, flags[-1], "%s now calls `%s`: the keyword waives a check the library routine makes by default, and the precondition it assumes is not established here for every input"
                        % (f.short, _ast.unparse(flags[-1])[:90]))
        if len(narrow) > ref[1]:
            bad = True
            r.violation(f, narrow[-1], "%s now uses the narrow numeric type `%s`, which the confirmed code did not: values outside its range or precision wrap or are rounded silently"
                        % (f.short, _ast.unparse(narrow[-1])))
        if len(handlers) > ref[2]:
            bad = True
            r.violation(f, handlers[-1], "%s now intercepts a broad exception class (`%s`): the specific errors the confirmed code let through (and callers rely on) are swallowed or re-labelled"
                        % (f.short, _ast.unparse(handlers[-1]).splitlines()[0][:80]))
        if not bad:
            r.ok()


_BUILTIN_NOISE = {"len", "isinstance", "range", "print", "int", "float", "str", "list", "tuple", "dict", "set", "type", "getattr", "hasattr", "enumerate", "zip", "super",
                  "format", "warn", "min", "max", "abs", "sorted", "any", "all", "iter", "next", "repr", "bool", "map", "filter", "sum", "round", "id", "callable"}


def _callee_key(call):
    import ast as _ast
    fn = call.func
    if isinstance(fn, _ast.Attribute):
        return fn.attr
    if isinstance(fn, _ast.Name):
        return fn.id
    return None


def control_profile(f):
    """(callees executed on every normal path from entry to a return,
        {(parameter, callee): polarity} for calls and raises that run only under a test of a bare parameter)"""
    import ast as _ast
    from . import cfg as cfgmod
    from .astutil import walk_own, stmt_of
    g = cfgmod.build(f.node)
    params = set(f.params)
    sites = {}
    repeated = set()  # element expressions of comprehensions run zero or more times, like a loop body
    for n in walk_own(f.node):
        if isinstance(n, (_ast.ListComp, _ast.SetComp, _ast.GeneratorExp, _ast.DictComp)):
            parts = ([n.key, n.value] if isinstance(n, _ast.DictComp) else [n.elt]) + [i for gn in n.generators for i in gn.ifs] + [gn.iter for gn in n.generators[1:]]
            for part in parts:
                repeated |= {id(x) for x in _ast.walk(part)}
        elif isinstance(n, (_ast.IfExp,)):
            for part in (n.body, n.orelse):
                repeated |= {id(x) for x in _ast.walk(part)}
        elif isinstance(n, _ast.BoolOp):
            for part in n.values[1:]:
                repeated |= {id(x) for x in _ast.walk(part)}
    optional_sites = {}
    for n in walk_own(f.node):
        if isinstance(n, _ast.Call):
            k = _callee_key(n)
            if k and k not in _BUILTIN_NOISE:
                if id(n) in repeated:
                    optional_sites.setdefault(k, []).append(stmt_of(n))
                    continue
                sites.setdefault(k, []).append(stmt_of(n))
        elif isinstance(n, _ast.Raise):
            sites.setdefault("raise", []).append(n)
        elif isinstance(n, (_ast.Assign, _ast.AugAssign)) and f.params:
            for t in (n.targets if isinstance(n, _ast.Assign) else [n.target]):
                for e in (t.elts if isinstance(t, (_ast.Tuple, _ast.List)) else [t]):
                    if isinstance(e, _ast.Attribute) and isinstance(e.value, _ast.Name) and e.value.id == f.params[0]:
                        sites.setdefault("store:" + e.attr, []).append(n)
    must = set()
    for k, sts in sites.items():
        if k == "raise":
            continue
        try:
            if g.must_pass(sts, cfgmod.RETURN):
                must.add(k)
        except Exception:
            pass
    pol = {}
    for k, sts in sites.items():
        for st in sts:
            try:
                gs = list(g.guards(st))
            except Exception:
                continue
            for t, p_ in gs:
                while isinstance(t, _ast.UnaryOp) and isinstance(t.op, _ast.Not):
                    t, p_ = t.operand, not p_
                key = None
                if isinstance(t, _ast.Name) and t.id in params:
                    key = t.id
                elif isinstance(t, _ast.Compare) and len(t.ops) == 1 and isinstance(t.left, _ast.Name) and t.left.id in params and isinstance(t.comparators[0], _ast.Constant) \
                        and t.comparators[0].value is None and isinstance(t.ops[0], (_ast.Is, _ast.IsNot)):
                    key = t.left.id + " is None"
                    if isinstance(t.ops[0], _ast.IsNot):
                        p_ = not p_
                if key is not None:
                    pol.setdefault((key, k), set()).add(bool(p_))
    return must, {kk: next(iter(v)) for kk, v in pol.items() if len(v) == 1}, set(sites) | set(optional_sites)


def generic_control_rules(prop, project, result):
    """Cxx.G8: a call (or raise) that ran only when a bare parameter was true still runs under the same polarity of that parameter.
    Cxx.G9: a call that every normal path of a function went through on the confirmed tree is still on every normal path
    (a new early return / a new condition around a state update, a verification or a landmark transfer skips it on some path)."""
    table = _scope().get("#control", {})
    scope = _scope().get(prop) or {}
    if not table or not scope:
        return
    r8 = result.rule("%s.G8" % prop, "calls guarded by an option still run under the same polarity of that option")
    r9 = result.rule("%s.G9" % prop, "calls and state updates on every normal path of a function on the confirmed tree are still on every normal path")
    index = {f.qualname: f for f in project.all_functions()}
    defined = {f.name for f in project.all_functions()} | {c.name for c in project.classes.values()}
    for q in scope:
        f = index.get(q)
        ref = table.get(q)
        if f is None or ref is None:
            continue
        must, pol, present = control_profile(f)
        r8.instance(f)
        r9.instance(f)
        for key, want in ref.get("pol", {}).items():
            prm, callee = key.split("|", 1)
            got = pol.get((prm, callee))
            if got is None or got == want:
                r8.ok()
                continue
            r8.violation(f, f.node, "in %s `%s` %s only when `%s` is %s; on the confirmed tree it was when it is %s: the option now does the opposite of what it says"
                         % (f.short, callee, "is raised" if callee == "raise" else "is called", prm, "true" if got else "false", "true" if want else "false"))
        for callee in ref.get("must", []):
            if callee not in defined and not callee.startswith("store:"):
                continue  # a library routine: another spelling of it on some path is not this rule's business
            if callee in must or callee not in present:
                r9.ok()
                continue
            what = "updates `self.%s`" % callee[6:] if callee.startswith("store:") else "calls `%s`" % callee
            r9.violation(f, f.node, "%s no longer %s on every path that returns normally: some path (a new early return or a new condition) now skips it, the confirmed code never did"
                         % (f.short, what))


CACHE_DECORATORS = {"lru_cache", "cache", "cached", "memoize", "memoized", "cached_property"}


def generic_memo_rule(prop, project, result):
    """Cxx.G3: no function of the property's scope is wrapped in a result cache unless what it returns is plainly immutable.
    menpo's functions hand out arrays, transforms, images: a cached one hands every caller the *same* mutable object, and a
    cache keyed on arguments ignores everything else the answer depends on (working directory, object state)."""
    import ast as _ast
    table = _scope().get(prop)
    if not table:
        return
    r = result.rule("%s.G3" % prop, "no result cache on functions that return mutable objects or read state (a memoised factory hands every caller the same object)")
    index = {f.qualname: f for f in project.all_functions()}
    for q in table:
        f = index.get(q)
        if f is None:
            continue
        r.instance(f)
        decs = [d.split(".")[-1].split("(")[0] for d in f.decorators()]
        bad = [d for d in decs if d in CACHE_DECORATORS]
        if not bad:
            r.ok()
            continue
        immut = True
        for n in _ast.walk(f.node):
            if isinstance(n, _ast.Return) and n.value is not None:
                v = n.value
                if not all(isinstance(x, (_ast.Constant, _ast.Tuple, _ast.BinOp, _ast.UnaryOp, _ast.Compare, _ast.BoolOp, _ast.operator, _ast.unaryop, _ast.cmpop, _ast.boolop, _ast.expr_context, _ast.Name, _ast.Load))
                           for x in _ast.walk(v)):
                    immut = False
        if f.cls is not None and "staticmethod" not in decs:
            immut = False
        r.check(immut, f, f.node, "%s is memoised (@%s) although it %s: every call with equal arguments is answered with the same object, so a caller that modifies the result "
                "in place (or a change of the state the answer depends on) corrupts all later answers" % (f.short, bad[0], "is a method reading object state" if f.cls is not None else "builds and returns an object"))


def run_rules(mod, project, tier="quick", result=None, generic=True):
    result = result or Result(mod.PROP, tier)
    rules = list(mod.RULES)
    if tier == "thorough":
        rules += list(getattr(mod, "THOROUGH_RULES", []))
    for fn in rules:
        try:
            fn(project, result)
        except AnalysisError as e:
            result.error("%s: %s" % (fn.__name__, e))
        except RecursionError:
            result.error("%s: recursion limit in analysis" % fn.__name__)
        except Exception as e:  # a crash of the analysis is never a verdict
            tb = traceback.extract_tb(sys.exc_info()[2])[-1]
            result.error("%s: internal error %s: %s (%s:%d)" % (fn.__name__, type(e).__name__, e, os.path.basename(tb.filename), tb.lineno))
    # rules of sibling properties over code this property's statement also quantifies over (shared code paths): the same rule
    # function, run on the same tree; findings are reported for this property under the sibling's rule id
    for rid in getattr(mod, "ALSO", []):
        try:
            sib_mod = prop_module(rid.split(".")[0])
            tag = rid.split(".")[1].lower()
            fn = [f for f in sib_mod.RULES if tag in f.__name__.split("_")[1:]]
            if not fn:
                result.error("shared rule %s not found" % rid)
                continue
            tmp = Result(sib_mod.PROP, tier)
            fn[0](project, tmp)
            for rr in tmp.rules:
                if rr.id == rid:
                    rr.result = result
                    rr.title = "[shared with %s] %s" % (sib_mod.PROP, rr.title)
                    result.rules.append(rr)
            for fd in tmp.findings:
                if fd.rule == rid:
                    fd.prop = mod.PROP
                    result.findings.append(fd)
        except AnalysisError as e:
            result.error("shared %s: %s" % (rid, e))
        except Exception as e:
            result.error("shared %s: internal error %s: %s" % (rid, type(e).__name__, e))
    if generic:
        try:
            generic_param_rule(mod.PROP, project, result)
            generic_argname_rule(mod.PROP, project, result)
            generic_memo_rule(mod.PROP, project, result)
            generic_forward_rule(mod.PROP, project, result)
            generic_state_rule(mod.PROP, project, result)
            generic_alias_rules(mod.PROP, project, result)
            generic_control_rules(mod.PROP, project, result)
            generic_shortcut_rule(mod.PROP, project, result)
        except Exception as e:
            result.error("generic rules: internal error %s: %s" % (type(e).__name__, e))
    anchor_filter(mod.PROP, result)
    return result


# ---------------------------------------------------------------- witnesses
_BASE = None


def _witness_job(args):
    pid, idx, base_keys = args
    global _BASE
    from . import variants

    mod = prop_module(pid)
    w = mod.WITNESSES[idx]
    out = {"id": w.id, "kind": w.kind, "rule": w.rule, "status": None, "detail": ""}
    try:
        if _BASE is None:
            _BASE = Project()
        var = variants.apply(_BASE, w)
        res = run_rules(mod, var, "quick")
        new = [f for f in res.findings if f.key not in base_keys]
        if w.kind == "W":
            hits = [f for f in new if f.rule == w.rule and (w.construct is None or w.construct in f.construct)]
            if hits:
                out["status"] = "fired"
                out["detail"] = hits[0].text()
            else:
                out["status"] = "MISSED"
                out["detail"] = "expected %s on %s; got findings=%s errors=%s" % (
                    w.rule, w.construct, [f.key for f in new][:4], res.errors[:3])
            out["others"] = sorted({f.rule for f in new if f.rule != w.rule})
        else:
            if new or res.errors:
                out["status"] = "TWIN-FIRED"
                out["detail"] = "silent twin raised findings=%s errors=%s" % ([f.key for f in new][:4], res.errors[:3])
            else:
                out["status"] = "silent"
    except AnalysisError as e:
        out["status"] = "ANCHOR"
        out["detail"] = str(e)
    except Exception as e:
        out["status"] = "CRASH"
        out["detail"] = "%s: %s" % (type(e).__name__, e)
    return out


def run_witnesses(pid, mod, base_result, jobs=16):
    ws = getattr(mod, "WITNESSES", [])
    if not ws:
        return []
    base_keys = {f.key for f in base_result.findings}
    args = [(pid, i, base_keys) for i in range(len(ws))]
    if jobs > 1 and len(ws) > 1:
        import multiprocessing as mp

        ctx = mp.get_context("fork")
        with ctx.Pool(min(jobs, len(ws))) as pool:
            outs = pool.map(_witness_job, args)
    else:
        outs = [_witness_job(a) for a in args]
    return outs


# ----------------------------------------------------------------- evidence
def write_evidence(mod, result, tier, seed, known_hits, new_findings, witness_outs):
    os.makedirs(EVIDENCE_DIR, exist_ok=True)
    obligations = sum(r.obligations for r in result.rules)
    discharged = sum(r.discharged for r in result.rules)
    instances = sum(len(r.instances) for r in result.rules)
    distinct = len({(r.id, i) for r in result.rules for i in r.instances})
    samples = []
    for r in result.rules:
        for s in r.samples[:2]:
            samples.append({"rule": r.id, "obligation": s})
        if not r.samples and r.instances:
            samples.append({"rule": r.id, "instance": r.instances[0]})
    if not samples:
        samples = [{"note": "no rule instance analysed"}]
    cov = {
        "explanation": mod.EXPLANATION,
        "not_decided": getattr(mod, "NOT_DECIDED", ""),
        "evaluations": max(instances, 1),
        "distinct_nontrivial": max(distinct, 0),
        "rule": "one evaluation = one rule instance (function, class, class pair, call site or path) analysed on the "
                "current /repo working tree; distinct = distinct (rule, construct) pairs; every instance is a real "
                "construct of menpo, none is synthetic",
        "obligations": obligations,
        "discharged": discharged,
        "samples": samples[:24],
        "rules": [r.as_dict() for r in result.rules],
        "analysis_errors": result.errors,
        "known_findings_reported": [f.as_dict() for f in known_hits],
        "new_violations": [f.as_dict() for f in new_findings],
        "checker_cmd": "/venv/bin/python -m menpolint.check %s --tier %s" % (mod.PROP, tier),
        "trusted_base": [
            "CPython ast module",
            "menpolint resolution of imports / MRO / calls",
            "per-rule accepted-idiom tables in menpolint/props/%s.py" % mod.PROP.lower(),
        ],
        "exhaustive": False,
        "modules_parsed": getattr(result, "n_modules", None),
        "classes_resolved": getattr(result, "n_classes", None),
    }
    if witness_outs is not None:
        cov["witness_matrix"] = witness_outs
    ev = {
        "property_id": mod.PROP,
        "tier": tier,
        "seed": seed,
        "level": "other",
        "coverage": cov,
        "assumptions": list(getattr(mod, "ASSUMPTIONS", [])) + [
            "static analysis only: nothing in menpo is imported or executed; a green result states that the listed "
            "necessary structural conditions hold on every analysed path/class/call site, not that the numerical "
            "behaviour is correct",
            "calls that cannot be resolved are treated as having no effect on the rule (listed per rule where relevant)",
        ],
        "wall_s": round(time.time() - result.t0, 3),
        "violations": len(new_findings),
    }
    path = os.path.join(EVIDENCE_DIR, "%s.json" % mod.PROP)
    tmp = path + ".tmp"
    with open(tmp, "w") as f:
        json.dump(ev, f, indent=1, sort_keys=False, default=str)
    os.replace(tmp, path)
    return path


def write_replay(f):
    d = os.path.join(EVIDENCE_DIR, "replay")
    os.makedirs(d, exist_ok=True)
    p = os.path.join(d, "%s-%s.json" % (f.prop, f.digest()))
    with open(p, "w") as fh:
        json.dump(f.as_dict(), fh, indent=1)
    return p


# --------------------------------------------------------------------- main
def main(argv=None):
    ap = argparse.ArgumentParser()
    ap.add_argument("prop")
    ap.add_argument("--tier", default=os.environ.get("VERIF_TIER", "quick"))
    ap.add_argument("--replay")
    ap.add_argument("--jobs", type=int, default=16)
    ap.add_argument("--no-evidence", action="store_true")
    a = ap.parse_args(argv)
    pid = a.prop.upper()
    tier = a.tier if a.tier in ("quick", "thorough") else "quick"
    try:
        seed = int(os.environ.get("VERIF_SEED", "0"))
    except ValueError:
        seed = 0
    try:
        mod = prop_module(pid)
    except Exception as e:
        print("ANALYSIS-ERROR property=%s cannot load rules: %s" % (pid, e))
        return 2
    result = Result(pid, tier)
    try:
        project = Project()
        result.n_modules = len(project.modules)
        result.n_classes = len(project.classes)
        if result.n_modules < 90 or result.n_classes < 85:
            result.error("only %d modules / %d classes parsed under %s (floor 90 / 85)" % (result.n_modules, result.n_classes, REPO))
        run_rules(mod, project, tier, result)
    except AnalysisError as e:
        result.error("loader: %s" % e)
    except Exception as e:
        result.error("loader: internal error %s: %s" % (type(e).__name__, e))

    known = load_known()
    known_hits, new = [], []
    seen = set()
    for f in result.findings:
        if f.key in seen:
            continue
        seen.add(f.key)
        k = match_known(f, known)
        if k is not None:
            f.known = k
            known_hits.append(f)
        else:
            new.append(f)

    if a.replay:
        try:
            with open(a.replay) as fh:
                want = json.load(fh)
        except Exception as e:
            print("ANALYSIS-ERROR property=%s cannot read replay file: %s" % (pid, e))
            return 2
        hit = [f for f in result.findings if f.key == want.get("key")]
        if hit:
            print(hit[0].text())
            print("VIOLATION property=%s replay=%s" % (pid, a.replay))
            return 1
        print("replay: finding %s no longer reported on the current tree" % want.get("key"))
        return 0 if not result.errors else 2

    witness_outs = None
    if tier == "thorough" and not result.errors:
        witness_outs = run_witnesses(pid, mod, result, a.jobs)
        for o in witness_outs:
            if o["status"] in ("MISSED", "TWIN-FIRED", "ANCHOR", "CRASH"):
                result.error("witness %s (%s): %s %s" % (o["id"], o["kind"], o["status"], o["detail"]))

    if not a.no_evidence:
        write_evidence(mod, result, tier, seed, known_hits, new, witness_outs)

    n_inst = sum(len(r.instances) for r in result.rules)
    n_obl = sum(r.obligations for r in result.rules)
    print("%s tier=%s rules=%d instances=%d obligations=%d findings=%d (known %d) errors=%d wall=%.2fs" % (
        pid, tier, len(result.rules), n_inst, n_obl, len(result.findings), len(known_hits), len(result.errors),
        time.time() - result.t0))
    for r in result.rules:
        print("  %-8s inst=%-3d obl=%-4d ok=%-4d %s" % (r.id, len(r.instances), r.obligations, r.discharged, r.title))
    if witness_outs is not None:
        fired = sum(1 for o in witness_outs if o["status"] == "fired")
        silent = sum(1 for o in witness_outs if o["status"] == "silent")
        print("  witness matrix: %d fired, %d silent twins, %d total" % (fired, silent, len(witness_outs)))
    for f in known_hits:
        print("KNOWN-FINDING: property=%s %s" % (pid, f.text()))
    for e in result.errors:
        print("ANALYSIS-ERROR property=%s %s" % (pid, e))
    for f in new:
        print(f.text())
        print("VIOLATION property=%s replay=%s" % (pid, write_replay(f)))
    if new:
        return 1
    if result.errors:
        return 2
    return 0


if __name__ == "__main__":
    try:
        rc = main()
    except SystemExit:
        raise
    except BrokenPipeError:
        rc = 2
        try:
            sys.stdout = open(os.devnull, "w")
        except Exception:
            pass
    except BaseException as e:  # never let a traceback look like a violation
        try:
            print("ANALYSIS-ERROR internal: %s: %s" % (type(e).__name__, e))
        except Exception:
            pass
        rc = 2
    try:
        sys.stdout.flush()
    except Exception:
        pass
    os._exit(rc) if rc is None else sys.exit(rc)
