"""Call resolution on the class table (no type checker available).

resolve_call(call, ctx) -> list of Target(func, recv_cls, how)

ctx = CallCtx(project, finfo, recv_cls): the function being analysed and the
concrete class `self` is assumed to have (virtual dispatch is resolved per
concrete class, so a rule that quantifies over classes asks once per class).
"""
import ast

from .loader import ClassInfo, FuncInfo, dotted
from .astutil import walk_own, Defs


class Target:
    __slots__ = ("func", "recv_cls", "how", "ctor")

    def __init__(self, func, recv_cls, how, ctor=False):
        self.func = func
        self.recv_cls = recv_cls
        self.how = how
        self.ctor = ctor  # the call constructs an instance of recv_cls (func is __init__)

    def __repr__(self):
        return "<Target %s on %s via %s>" % (self.func.short if self.func else None, self.recv_cls.name if self.recv_cls else None, self.how)


class CallCtx:
    def __init__(self, project, finfo, recv_cls=None):
        self.p = project
        self.f = finfo
        self.cls = recv_cls if recv_cls is not None else finfo.cls
        self.module = finfo.module
        self.defs = Defs(finfo.node)
        a = finfo.node.args
        pos = a.posonlyargs + a.args
        self.self_name = None
        self.cls_name = None
        if finfo.cls is not None and pos:
            decs = finfo.decorators()
            if "classmethod" in decs:
                self.cls_name = pos[0].arg
            elif "staticmethod" not in decs:
                self.self_name = pos[0].arg
        self._types = None

    # ------------------------------------------------------------- types
    def class_of_expr(self, e, _depth=0):
        """ClassInfo an expression evaluates to an instance of, or None."""
        p = self.p
        if _depth > 6 or e is None:
            return None
        if isinstance(e, ast.Name):
            if e.id == self.self_name:
                return self.cls
            ds = self.defs.of(e.id)
            cands = set()
            for kind, val, st in ds:
                if kind == "assign" and isinstance(val, ast.AST):
                    c = self.class_of_expr(val, _depth + 1)
                    cands.add(c)
                else:
                    cands.add(None)
            if len(cands) == 1:
                return cands.pop()
            return None
        if isinstance(e, ast.Call):
            c = self.class_constructed(e, _depth)
            if c is not None:
                return c
            f = e.func
            if isinstance(f, ast.Attribute):
                rc = self.class_of_expr(f.value, _depth + 1)
                if rc is not None:
                    if f.attr == "copy":
                        return rc
                    m = p.lookup(rc, f.attr)
                    if m is not None:
                        return self._returned_class(m, rc, _depth + 1)
            return None
        if isinstance(e, ast.IfExp):
            a = self.class_of_expr(e.body, _depth + 1)
            b = self.class_of_expr(e.orelse, _depth + 1)
            return a if a is b else None
        return None

    def _returned_class(self, m, rc, depth):
        """Class of the value a method returns, if every return is self / self.copy() / a constructor."""
        if depth > 6:
            return None
        sub = CallCtx(self.p, m, rc)
        out = set()
        for n in walk_own(m.node):
            if isinstance(n, ast.Return) and n.value is not None:
                out.add(sub.class_of_expr(n.value, depth + 1))
        if len(out) == 1:
            return out.pop()
        return None

    def class_constructed(self, call, _depth=0):
        """If `call` constructs an instance of a menpo class return it."""
        f = call.func
        p = self.p
        # cls(...) in a classmethod
        if isinstance(f, ast.Name) and f.id == self.cls_name and self.cls_name:
            return self.cls
        # type(self)(...) / self.__class__(...)
        if isinstance(f, ast.Call) and isinstance(f.func, ast.Name) and f.func.id == "type" and f.args:
            return self.class_of_expr(f.args[0], _depth + 1)
        if isinstance(f, ast.Attribute) and f.attr == "__class__":
            return self.class_of_expr(f.value, _depth + 1)
        if isinstance(f, (ast.Name, ast.Attribute)):
            if isinstance(f, ast.Name) and self.defs.is_local(f.id) and f.id not in (self.cls_name,):
                # local alias of a class?
                v = self.defs.single(f.id)
                if isinstance(v, (ast.Name, ast.Attribute)):
                    r = p.resolve_expr(self.module, v)
                    return r if isinstance(r, ClassInfo) else None
                return None
            r = self._resolve_static(f)
            if isinstance(r, ClassInfo):
                return r
            # X.init_something(...) classmethod constructors
            if isinstance(f, ast.Attribute):
                base = self._resolve_static(f.value) if isinstance(f.value, (ast.Name, ast.Attribute)) else None
                if isinstance(base, ClassInfo):
                    m = p.lookup(base, f.attr)
                    if m is not None and "classmethod" in m.decorators() and f.attr.startswith("init_"):
                        return base
        return None

    def _resolve_static(self, node):
        if isinstance(node, ast.Name) and self.defs.is_local(node.id):
            return None
        d = dotted(node)
        if d is None:
            return None
        root = d.split(".")[0]
        if root in (self.self_name, self.cls_name):
            return None
        # function-local imports
        if getattr(self, "_local_imports", None) is None:
            self._local_imports = [n for n in walk_own(self.f.node) if isinstance(n, ast.ImportFrom)]
        for n in self._local_imports:
            if True:
                for a in n.names:
                    if (a.asname or a.name) == root:
                        target = self.module._abs(n.level, n.module)
                        if target in self.p.modules:
                            r = self.p.resolve_name(self.p.modules[target], a.name)
                            if r is not None and "." not in d:
                                return r
        return self.p.resolve_expr(self.module, node)

    # ------------------------------------------------------------- calls
    def resolve_call(self, call):
        """-> list[Target]; empty if unresolved or external."""
        p = self.p
        f = call.func
        out = []
        # constructors
        c = self.class_constructed(call)
        if c is not None:
            # via classmethod init_* ?
            if isinstance(f, ast.Attribute) and f.attr.startswith("init_"):
                m = p.lookup(c, f.attr)
                if m is not None:
                    return [Target(m, c, "classmethod")]
            init = p.lookup(c, "__init__")
            if init is not None:
                return [Target(init, c, "ctor", ctor=True)]
            return []
        if isinstance(f, ast.Name):
            if self.defs.is_local(f.id):
                # nested def or alias
                for kind, val, st in self.defs.of(f.id):
                    if kind == "def":
                        fi = getattr(val, "_finfo", None) or FuncInfo(self.module, None, val)
                        out.append(Target(fi, None, "nested"))
                    elif kind == "assign" and isinstance(val, (ast.Name, ast.Attribute)):
                        r = self._resolve_static(val)
                        if isinstance(r, FuncInfo):
                            out.append(Target(r, None, "alias"))
                    elif kind == "assign" and isinstance(val, ast.Call) and dotted(val.func) in ("partial", "functools.partial") and val.args:
                        r = self._resolve_static(val.args[0]) if isinstance(val.args[0], (ast.Name, ast.Attribute)) else None
                        if isinstance(r, FuncInfo):
                            out.append(Target(r, None, "partial"))
                return out
            r = self._resolve_static(f)
            if isinstance(r, FuncInfo):
                return [Target(r, None, "function")]
            return []
        if isinstance(f, ast.Attribute):
            # super().m / super(K, self).m
            v = f.value
            if isinstance(v, ast.Call) and isinstance(v.func, ast.Name) and v.func.id == "super":
                start = self.f.cls
                if v.args:
                    r = self._resolve_static(v.args[0])
                    if isinstance(r, ClassInfo):
                        start = r
                if start is not None and self.cls is not None and start in self.cls.mro:
                    mro = self.cls.mro
                    for k in mro[mro.index(start) + 1:]:
                        if f.attr in k.methods:
                            return [Target(k.methods[f.attr], self.cls, "super")]
                return []
            # Base.m(self, ...)
            if isinstance(v, (ast.Name, ast.Attribute)):
                r = self._resolve_static(v)
                if isinstance(r, ClassInfo):
                    m = p.lookup(r, f.attr)
                    if m is not None:
                        decs = m.decorators()
                        if "classmethod" in decs or "staticmethod" in decs:
                            return [Target(m, r, "static")]
                        # explicit self passing
                        recv = self.cls if (call.args and isinstance(call.args[0], ast.Name) and call.args[0].id == self.self_name) else r
                        return [Target(m, recv, "explicit-base")]
                    return []
                if isinstance(r, tuple) and r[0] == "mod":
                    return []
                if isinstance(r, FuncInfo):
                    return []
                if isinstance(r, tuple) and r[0] == "ext":
                    return []
            rc = self.class_of_expr(v)
            if rc is not None:
                m = p.lookup(rc, f.attr)
                if m is not None:
                    return [Target(m, rc, "method")]
                return []
        return out

    def explicit_self(self, call, target):
        return target.how == "explicit-base"


def by_name_methods(project, name):
    """All menpo method definitions called `name` (for unknown receivers)."""
    out = []
    for c in project.classes.values():
        if name in c.methods:
            out.append(c.methods[name])
    return out


def reachable_funcs(project, finfo, recv_cls=None, max_depth=12, follow_unknown_by_name=False):
    """Transitive closure of resolved calls from finfo (with `self` of class recv_cls).
    Returns dict (FuncInfo, cls) -> depth."""
    seen = {}
    todo = [(finfo, recv_cls if recv_cls is not None else finfo.cls, 0)]
    while todo:
        f, c, d = todo.pop()
        key = (f, c)
        if key in seen or d > max_depth:
            continue
        seen[key] = d
        ctx = CallCtx(project, f, c)
        for n in walk_own(f.node, include_nested=True):
            if isinstance(n, ast.Call):
                ts = ctx.resolve_call(n)
                if not ts and follow_unknown_by_name and isinstance(n.func, ast.Attribute):
                    ms = by_name_methods(project, n.func.attr)
                    ts = [Target(m, m.cls, "by-name") for m in ms]
                for t in ts:
                    todo.append((t.func, t.recv_cls, d + 1))
            elif isinstance(n, ast.Attribute) and isinstance(n.ctx, ast.Load) and c is not None:
                # property reads on self count as calls
                if isinstance(n.value, ast.Name) and n.value.id == ctx.self_name:
                    m = project.lookup(c, n.attr)
                    if m is not None and m.is_property():
                        todo.append((m, c, d + 1))
            elif isinstance(n, ast.Attribute) and isinstance(n.ctx, ast.Store) and c is not None:
                if isinstance(n.value, ast.Name) and n.value.id == ctx.self_name:
                    m = project.lookup_setter(c, n.attr)
                    if m is not None:
                        todo.append((m, c, d + 1))
    return seen
