"""Bottom-up mutation summaries.

For a function F analysed with `self` of concrete class C the summary lists
  effects : places reachable from a *parameter* (incl. self) that F may write
            in place -- (param, path, kind, node, via)
              kind 'mutate'      in-place write into the object at param.path
                                 (subscript store, aug-assign on an array,
                                 mutating method, np.copyto/out= ...)
              kind 'set:<attr>'  attribute (re)binding on the object at param.path
              kind 'del'         item / attribute deletion
  returns : which parameter-rooted objects the return value may alias
            (empty = fresh)

Writes through objects that are fresh in F (results of .copy(), constructors,
arithmetic, unresolved calls) are not effects.  Unresolved calls are treated as
effect-free and as returning fresh values (optimistic; listed as an assumption
in every evidence file that uses this analysis).
"""
import ast

from .loader import FuncInfo, ClassInfo, dotted
from .astutil import walk_own, bind_call
from .calls import CallCtx, by_name_methods, Target

ELEM = "[]"

# methods that mutate their receiver when the receiver is a builtin / ndarray
MUTATORS = {
    "append", "extend", "insert", "pop", "remove", "sort", "reverse", "clear", "update",
    "setdefault", "popitem", "fill", "itemset", "put", "partition", "add", "discard",
    "setflags", "byteswap", "resize", "move_to_end", "appendleft", "popleft", "sort_indices",
    "eliminate_zeros", "sum_duplicates", "setdiag",
}
# methods returning a view / alias of the receiver
VIEW_METHODS = {"ravel", "reshape", "view", "squeeze", "transpose", "swapaxes", "diagonal", "__getitem__"}
ELEM_METHODS = {"values", "items", "keys", "get", "__iter__", "pop", "setdefault"}
# numpy functions returning a view / the very argument
VIEW_FUNCS = {
    "asarray", "asanyarray", "ascontiguousarray", "atleast_1d", "atleast_2d", "atleast_3d", "squeeze",
    "ravel", "reshape", "transpose", "rollaxis", "moveaxis", "swapaxes", "require", "broadcast_to",
    "diagonal", "expand_dims",
}
# numpy functions that write into their first argument
ARG0_MUTATORS = {"copyto", "fill_diagonal", "put", "place", "putmask", "put_along_axis", "shuffle"}
OUT_KEYWORDS = {"out", "output", "dst"}
ITER_FUNCS = {"iter", "enumerate", "zip", "reversed", "sorted", "list", "tuple", "chain", "islice", "filter", "map", "next"}
ARRAY_EVIDENCE_ATTRS = {"shape", "dot", "T", "reshape", "ndim", "ravel", "dtype", "astype", "flags", "size"}


class Effect:
    __slots__ = ("param", "path", "kind", "node", "via", "func")

    def __init__(self, param, path, kind, node, via, func):
        self.param = param
        self.path = tuple(path)
        self.kind = kind
        self.node = node
        self.via = via
        self.func = func  # FuncInfo in which `node` lives

    def key(self):
        return (self.param, self.path, self.kind)

    def where(self):
        p = ".".join((self.param,) + self.path)
        return p

    def describe(self):
        s = "%s of %s" % (self.kind, self.where())
        if self.via:
            s += " via " + self.via
        return s

    def __repr__(self):
        return "<Effect %s>" % self.describe()


class Summary:
    def __init__(self):
        self.effects = []
        self.returns = set()
        self.unresolved = []

    def add(self, e):
        for x in self.effects:
            if x.key() == e.key():
                return
        self.effects.append(e)

    def on(self, param, prefix=()):
        """effects on `param` whose path starts with prefix"""
        prefix = tuple(prefix)
        return [e for e in self.effects if e.param == param and e.path[: len(prefix)] == prefix]

    def sig(self):
        return (frozenset(e.key() for e in self.effects), frozenset(self.returns))


class Effects:
    def __init__(self, project, benign=()):
        self.p = project
        self.cache = {}
        self.assume = {}
        self.stack = set()
        self.hit_cycle = False
        self.benign = set(benign)  # qualnames of functions whose effects are ignored

    # ------------------------------------------------------------------
    def summary(self, finfo, recv_cls=None):
        if recv_cls is None:
            recv_cls = finfo.cls
        key = (finfo, recv_cls)
        if key in self.cache:
            return self.cache[key]
        if self.stack:
            return self._compute(finfo, recv_cls)
        # top level: iterate to a fixpoint over recursion cycles
        prev = None
        for _ in range(5):
            self.hit_cycle = False
            local_cache = dict(self.cache)
            s = self._compute(finfo, recv_cls)
            if not self.hit_cycle or (prev is not None and prev == s.sig()):
                self.cache[key] = s
                return s
            prev = s.sig()
            # keep results of this round as assumptions, drop tentative cache
            for k, v in self.cache.items():
                self.assume[k] = v
            self.cache = local_cache
        self.cache[key] = s
        return s

    def _compute(self, finfo, recv_cls):
        key = (finfo, recv_cls)
        if key in self.cache:
            return self.cache[key]
        if key in self.stack:
            self.hit_cycle = True
            return self.assume.get(key, Summary())
        if finfo.qualname in self.benign:
            s = Summary()
            self.cache[key] = s
            return s
        self.stack.add(key)
        try:
            s = _Analysis(self, finfo, recv_cls).run()
        finally:
            self.stack.discard(key)
        self.cache[key] = s
        return s


class _Analysis:
    def __init__(self, eng, finfo, recv_cls):
        self.eng = eng
        self.p = eng.p
        self.f = finfo
        self.cls = recv_cls
        self.ctx = CallCtx(self.p, finfo, recv_cls)
        self.out = Summary()
        self.array_names = self._array_evidence(finfo.node)

    def _array_evidence(self, fn):
        names = set()
        for n in walk_own(fn, include_nested=True):
            if isinstance(n, ast.Subscript) and isinstance(n.value, ast.Name):
                names.add(n.value.id)
            elif isinstance(n, ast.Attribute) and isinstance(n.value, ast.Name) and n.attr in ARRAY_EVIDENCE_ATTRS:
                names.add(n.value.id)
            elif isinstance(n, ast.Call):
                d = dotted(n.func) or ""
                if d.startswith("np.") or d.startswith("numpy."):
                    for a in n.args:
                        if isinstance(a, ast.Name):
                            names.add(a.id)
        return names

    def run(self):
        env = {}
        a = self.f.node.args
        for x in a.posonlyargs + a.args + a.kwonlyargs:
            env[x.arg] = {(x.arg, ())}
        if a.vararg:
            env[a.vararg.arg] = {(a.vararg.arg, ())}
        if a.kwarg:
            env[a.kwarg.arg] = {(a.kwarg.arg, ())}
        self.exec_block(self.f.node.body, env)
        return self.out

    # -------------------------------------------------------------- eval
    def eval(self, e, env):
        """-> set of roots the value of e may alias (empty: fresh)."""
        if e is None:
            return set()
        if isinstance(e, ast.Name):
            return set(env.get(e.id, ()))
        if isinstance(e, ast.Attribute):
            base = self.eval(e.value, env)
            return {(p, path + (e.attr,)) for p, path in base}
        if isinstance(e, ast.Subscript):
            base = self.eval(e.value, env)
            if not base:
                self.eval(e.slice, env)
                return set()
            if self._is_fancy(e.slice, env):
                return set()
            return {(p, path + (ELEM,)) if self._is_container_index(e) else (p, path) for p, path in base}
        if isinstance(e, ast.Starred):
            return self.eval(e.value, env)
        if isinstance(e, ast.IfExp):
            return self.eval(e.body, env) | self.eval(e.orelse, env)
        if isinstance(e, ast.BoolOp):
            out = set()
            for v in e.values:
                out |= self.eval(v, env)
            return out
        if isinstance(e, ast.NamedExpr):
            r = self.eval(e.value, env)
            if isinstance(e.target, ast.Name):
                env[e.target.id] = set(r)
            return r
        if isinstance(e, (ast.Tuple, ast.List, ast.Set)):
            # a fresh container: writes into it are not effects.  Element aliasing through
            # displays is not tracked (element-wise unpacking `a, b = x, y` is handled in Assign).
            for v in e.elts:
                self.eval(v, env)
            return set()
        if isinstance(e, ast.Dict):
            for v in e.values:
                self.eval(v, env)
            return set()
        if isinstance(e, ast.Call):
            return self.eval_call(e, env)
        if isinstance(e, (ast.ListComp, ast.SetComp, ast.GeneratorExp, ast.DictComp)):
            env2 = dict(env)
            for g in e.generators:
                it = self.eval(g.iter, env2)
                self.bind(g.target, self._elems(it), env2)
                for c in g.ifs:
                    self.eval(c, env2)
            if isinstance(e, ast.DictComp):
                self.eval(e.key, env2)
                self.eval(e.value, env2)
            else:
                self.eval(e.elt, env2)
            return set()
        if isinstance(e, ast.Lambda):
            env2 = dict(env)
            for x in e.args.args + e.args.kwonlyargs:
                env2[x.arg] = set()
            self.eval(e.body, env2)
            return set()
        # arithmetic, comparisons, constants, f-strings ... : fresh; still visit for nested calls
        for c in ast.iter_child_nodes(e):
            if isinstance(c, ast.expr):
                self.eval(c, env)
        return set()

    def _elems(self, roots):
        return {(p, path + (ELEM,)) for p, path in roots}

    def _is_container_index(self, sub):
        # cannot distinguish list/dict element from array view; a view keeps the same root,
        # an element extends it -- both stay under the same prefix, so keep the root unchanged
        return False

    def _is_fancy(self, sl, env):
        """list / array index => copy.  Conservative: only literal lists and comparisons."""
        if isinstance(sl, ast.List):
            return True
        if isinstance(sl, ast.Compare):
            return True
        if isinstance(sl, ast.Tuple):
            return any(isinstance(x, (ast.List, ast.Compare)) for x in sl.elts)
        return False

    def eval_call(self, call, env):
        f = call.func
        d = dotted(f) or ""
        argroots = [self.eval(a, env) for a in call.args]
        kwroots = {k.arg: self.eval(k.value, env) for k in call.keywords}
        # ---- effects of the call
        ret = self.call_effects(call, env, argroots, kwroots)
        if ret is not None:
            return ret
        # ---- aliasing of the result for unresolved / external calls
        last = f.attr if isinstance(f, ast.Attribute) else (f.id if isinstance(f, ast.Name) else None)
        if isinstance(f, ast.Attribute):
            recv = self.eval(f.value, env)
            root0 = d.split(".")[0] if d else ""
            if root0 in ("np", "numpy", "sp", "scipy") or self._is_module(f.value):
                if last in VIEW_FUNCS and argroots:
                    return set(argroots[0])
                if last in ("array",) and argroots:
                    cp = None
                    for k in call.keywords:
                        if k.arg == "copy":
                            cp = k.value
                    if isinstance(cp, ast.Constant) and cp.value is False:
                        return set(argroots[0])
                    if cp is not None and not isinstance(cp, ast.Constant):
                        return set(argroots[0])  # copy flag decided by caller: may alias
                return set()
            if last in VIEW_METHODS:
                return set(recv)
            if last in ELEM_METHODS:
                return self._elems(recv)
            return set()
        if isinstance(f, ast.Name):
            if f.id in ITER_FUNCS:
                out = set()
                for r in argroots:
                    out |= r
                return out if f.id in ("iter", "reversed", "next") else self._elems(out) if f.id in ("enumerate", "zip", "chain", "islice", "filter") else set() if f.id in ("list", "tuple", "sorted", "map") else out
            if f.id in ("getattr",) and argroots:
                return {(p, path + ("?",)) for p, path in argroots[0]}
        return set()

    def _is_module(self, node):
        r = None
        if isinstance(node, (ast.Name, ast.Attribute)):
            dn = dotted(node)
            if dn and dn.split(".")[0] in self.ctx.defs.defs and dn.split(".")[0] not in ("np",):
                return False
            r = self.p.resolve_expr(self.ctx.module, node)
        return isinstance(r, tuple) and r[0] in ("mod", "ext")

    # ----------------------------------------------------------- effects
    def effect(self, roots, kind, node, via=None, extra=()):
        for p, path in roots:
            self.out.add(Effect(p, tuple(path) + tuple(extra), kind, node, via, self.f))

    def call_effects(self, call, env, argroots, kwroots):
        """Record effects of a call; return alias roots of its result if the callee
        was resolved inside menpo, else None."""
        f = call.func
        d = dotted(f) or ""
        last = f.attr if isinstance(f, ast.Attribute) else (f.id if isinstance(f, ast.Name) else None)
        # out= style keywords on anything
        for k in call.keywords:
            if k.arg in OUT_KEYWORDS and kwroots.get(k.arg):
                self.effect(kwroots[k.arg], "mutate", call, "keyword %s=" % k.arg)
        targets = self.ctx.resolve_call(call)
        if targets:
            ret = set()
            for t in targets:
                ret |= self.apply_summary(call, t, env, argroots, kwroots)
            return ret
        if isinstance(f, ast.Attribute):
            root0 = d.split(".")[0] if d else ""
            is_mod = root0 in ("np", "numpy", "scipy", "sp") or self._is_module(f.value)
            if is_mod:
                if last in ARG0_MUTATORS and argroots and argroots[0]:
                    self.effect(argroots[0], "mutate", call, d)
                if last == "at" and argroots and argroots[0]:  # ufunc.at
                    self.effect(argroots[0], "mutate", call, d)
                return None
            recv = self.eval(f.value, env)
            if last == "at" and d.startswith(("np.", "numpy.")) and argroots and argroots[0]:
                self.effect(argroots[0], "mutate", call, d)
                return None
            if recv:
                defs = by_name_methods(self.p, last)
                if defs:
                    # unknown receiver, menpo method name: effect only if every definition has it
                    sums = [self.eng._compute(m, m.cls) for m in defs]
                    common = None
                    for s in sums:
                        ks = {(e.path, e.kind) for e in s.on(self._selfname(s, defs[sums.index(s)]))}
                        common = ks if common is None else (common & ks)
                    if common and last not in MUTATORS:
                        for path, kind in sorted(common):
                            self.effect(recv, kind, call, "%s (all %d definitions)" % (last, len(defs)), extra=path)
                        return None
                if last in MUTATORS:
                    if last == "resize" and defs:
                        return None  # menpo's Image.resize returns a new image
                    if last == "update" and self._update_is_benign(call):
                        return None
                    self.effect(recv, "mutate", call, "." + last + "()")
            return None
        return None

    def _update_is_benign(self, call):
        return False

    def _selfname(self, summ, m):
        a = m.node.args
        pos = a.posonlyargs + a.args
        return pos[0].arg if pos else "self"

    def apply_summary(self, call, t, env, argroots, kwroots):
        callee = t.func
        s = self.eng._compute(callee, t.recv_cls)
        f = call.func
        a = callee.node.args
        pos = [x.arg for x in a.posonlyargs + a.args]
        decs = callee.decorators()
        is_method = callee.cls is not None and "staticmethod" not in decs
        bound = {}
        args = list(call.args)
        roots_of = {id(x): r for x, r in zip(call.args, argroots)}
        if is_method and pos:
            selfp = pos[0]
            if t.ctor or "classmethod" in decs:
                bound[selfp] = set()
                params = pos[1:]
            elif t.how == "explicit-base":
                bound[selfp] = argroots[0] if argroots else set()
                args = args[1:]
                params = pos[1:]
            elif t.how == "super":
                bound[selfp] = set(env.get(self.ctx.self_name, ())) if self.ctx.self_name else set()
                params = pos[1:]
            elif t.how in ("method",) and isinstance(f, ast.Attribute):
                bound[selfp] = self.eval(f.value, env)
                params = pos[1:]
            else:
                params = pos[1:]
        else:
            params = pos
        i = 0
        for arg in args:
            if isinstance(arg, ast.Starred):
                break
            if i < len(params):
                bound[params[i]] = roots_of.get(id(arg), set())
            elif a.vararg is not None:
                bound.setdefault(a.vararg.arg, set()).update(roots_of.get(id(arg), set()))
            i += 1
        for k in call.keywords:
            if k.arg is None:
                continue
            if k.arg in pos or k.arg in [x.arg for x in a.kwonlyargs]:
                bound[k.arg] = kwroots.get(k.arg, set())
            elif a.kwarg is not None:
                bound.setdefault(a.kwarg.arg, set()).update(kwroots.get(k.arg, set()))
        for e in s.effects:
            r = bound.get(e.param)
            if r:
                via = callee.short + ((" <- " + e.via) if e.via else "")
                self.effect(r, e.kind, call, via, extra=e.path)
        ret = set()
        for p, path in s.returns:
            for rp, rpath in bound.get(p, ()):
                ret.add((rp, rpath + path))
        if t.ctor:
            return set()
        return ret

    # -------------------------------------------------------------- exec
    def bind(self, target, roots, env):
        if isinstance(target, ast.Name):
            env[target.id] = set(roots)
        elif isinstance(target, (ast.Tuple, ast.List)):
            for e in target.elts:
                self.bind(e.value if isinstance(e, ast.Starred) else e, roots, env)
        elif isinstance(target, ast.Attribute):
            base = self.eval(target.value, env)
            self.effect(base, "set:" + target.attr, target)
        elif isinstance(target, ast.Subscript):
            base = self.eval(target.value, env)
            self.eval(target.slice, env)
            self.effect(base, "mutate", target, "item store")

    def exec_block(self, body, env):
        """returns True when the block always leaves (return/raise/break/continue)"""
        for st in body:
            self.exec_stmt(st, env)
            if isinstance(st, (ast.Return, ast.Raise, ast.Break, ast.Continue)):
                return True
            if isinstance(st, ast.If) and getattr(st, "_both_leave", False):
                return True
        return False

    def merge(self, env, *others):
        for o in others:
            for k, v in o.items():
                env.setdefault(k, set())
                env[k] = set(env[k]) | set(v)

    def exec_stmt(self, st, env):
        if isinstance(st, ast.Assign):
            r = self.eval(st.value, env)
            for t in st.targets:
                if isinstance(t, (ast.Tuple, ast.List)) and isinstance(st.value, (ast.Tuple, ast.List)) and len(t.elts) == len(st.value.elts):
                    for te, ve in zip(t.elts, st.value.elts):
                        self.bind(te, self.eval(ve, env), env)
                else:
                    self.bind(t, r, env)
        elif isinstance(st, ast.AnnAssign):
            if st.value is not None:
                self.bind(st.target, self.eval(st.value, env), env)
        elif isinstance(st, ast.AugAssign):
            self.eval(st.value, env)
            t = st.target
            if isinstance(t, ast.Name):
                r = env.get(t.id, set())
                if r and t.id in self.array_names:
                    self.effect(r, "mutate", st, "augmented assignment")
                elif r:
                    env[t.id] = set()
            elif isinstance(t, ast.Attribute):
                base = self.eval(t.value, env)
                self.effect(base, "set:" + t.attr, st, "augmented assignment")
            elif isinstance(t, ast.Subscript):
                base = self.eval(t.value, env)
                self.eval(t.slice, env)
                self.effect(base, "mutate", st, "augmented item store")
        elif isinstance(st, ast.Delete):
            for t in st.targets:
                if isinstance(t, ast.Subscript):
                    self.effect(self.eval(t.value, env), "del", st, "del item")
                elif isinstance(t, ast.Attribute):
                    self.effect(self.eval(t.value, env), "del", st, "del attribute")
                elif isinstance(t, ast.Name):
                    env[t.id] = set()
        elif isinstance(st, ast.Expr):
            self.eval(st.value, env)
        elif isinstance(st, ast.Return):
            if st.value is not None:
                self.out.returns |= self.eval(st.value, env)
        elif isinstance(st, ast.If):
            self.eval(st.test, env)
            e1, e2 = dict(env), dict(env)
            t1 = self.exec_block(st.body, e1)
            t2 = self.exec_block(st.orelse, e2)
            st._both_leave = bool(t1 and t2)
            env.clear()
            live = [e for e, t in ((e1, t1), (e2, t2)) if not t]
            self.merge(env, *(live or [e1, e2]))
        elif isinstance(st, (ast.For, ast.AsyncFor)):
            it = self.eval(st.iter, env)
            # for a, b in zip(A, B): a walks over A and b over B (element-wise, never mixed)
            zipped = None
            if isinstance(st.iter, ast.Call) and isinstance(st.iter.func, ast.Name) and st.iter.func.id == "zip" and isinstance(st.target, (ast.Tuple, ast.List)) \
                    and len(st.target.elts) == len(st.iter.args) and not st.iter.keywords and not any(isinstance(a_, ast.Starred) for a_ in st.iter.args):
                zipped = [self._elems(self.eval(a_, env)) for a_ in st.iter.args]
            for _ in range(2):
                e1 = dict(env)
                if zipped is not None:
                    for t_, r_ in zip(st.target.elts, zipped):
                        self.bind(t_, r_, e1)
                    self.exec_block(st.body, e1)
                    self.merge(env, e1)
                    continue
                self.bind(st.target, self._elems(it) if not self._iter_is_elems(st.iter) else it, e1)
                self.exec_block(st.body, e1)
                self.merge(env, e1)
            self.exec_block(st.orelse, env)
        elif isinstance(st, ast.While):
            for _ in range(2):
                self.eval(st.test, env)
                e1 = dict(env)
                self.exec_block(st.body, e1)
                self.merge(env, e1)
            self.exec_block(st.orelse, env)
        elif isinstance(st, (ast.With, ast.AsyncWith)):
            for it in st.items:
                r = self.eval(it.context_expr, env)
                if it.optional_vars is not None:
                    self.bind(it.optional_vars, r, env)
            self.exec_block(st.body, env)
        elif isinstance(st, ast.Try):
            e0 = dict(env)
            self.exec_block(st.body, env)
            self.exec_block(st.orelse, env)
            for h in st.handlers:
                eh = dict(e0)
                self.merge(eh, env)
                if h.name:
                    eh[h.name] = set()
                self.exec_block(h.body, eh)
                self.merge(env, eh)
            self.exec_block(st.finalbody, env)
        elif isinstance(st, (ast.FunctionDef, ast.AsyncFunctionDef)):
            env2 = dict(env)
            a = st.args
            for x in a.posonlyargs + a.args + a.kwonlyargs:
                env2[x.arg] = set()
            if a.vararg:
                env2[a.vararg.arg] = set()
            if a.kwarg:
                env2[a.kwarg.arg] = set()
            saved = self.out.returns
            self.out.returns = set()
            self.exec_block(st.body, env2)
            self.out.returns = saved
            env[st.name] = set()
        elif isinstance(st, ast.Raise):
            if st.exc is not None:
                self.eval(st.exc, env)
        elif isinstance(st, ast.Assert):
            self.eval(st.test, env)
        elif isinstance(st, ast.Match):
            self.eval(st.subject, env)
            envs = []
            for c in st.cases:
                e1 = dict(env)
                self.exec_block(c.body, e1)
                envs.append(e1)
            self.merge(env, *envs)
        # Import, Pass, Break, Continue, Global, Nonlocal, ClassDef: nothing

    def _iter_is_elems(self, it):
        # enumerate/zip already produced element roots in eval_call
        return isinstance(it, ast.Call) and isinstance(it.func, ast.Name) and it.func.id in ("enumerate", "zip", "chain", "islice", "filter")


def get_effects(project):
    """one shared (memoising) engine per Project"""
    e = getattr(project, "_effects_engine", None)
    if e is None:
        e = Effects(project)
        project._effects_engine = e
    return e
