"""Project loader: parses every non-test module under <root>/menpo, resolves
imports (absolute / relative / star / re-export chains), builds the class table
with C3 MRO and a per-class member table.

Nothing from menpo is imported or executed; the tree is the working tree of
`root` at call time (or in-memory overrides for the witness matrix).
"""
import ast
import os

REPO = os.environ.get("MENPOLINT_REPO", "/repo")
PKG = "menpo"


class AnalysisError(Exception):
    """An anchor is missing / a construct is not recognised: exit 2, never 1."""


class _Canon(ast.NodeTransformer):
    """Canonical polarity of branches: `if not c: A else: B` is analysed as `if c: B else: A`
    (and `if not c: A` as `if c: pass else: A`), so that how a branch is spelled never matters to a rule."""

    def visit_If(self, node):
        self.generic_visit(node)
        test, body, orelse = node.test, node.body, node.orelse
        flipped = False
        while isinstance(test, ast.UnaryOp) and isinstance(test.op, ast.Not):
            test = test.operand
            body, orelse = orelse, body
            flipped = not flipped
        if test is node.test:
            return node
        if not body:
            p = ast.Pass()
            ast.copy_location(p, node)
            body = [p]
        new = ast.If(test=test, body=body, orelse=orelse)
        ast.copy_location(new, node)
        new.end_lineno = getattr(node, "end_lineno", None)
        return new

    def visit_IfExp(self, node):
        self.generic_visit(node)
        if isinstance(node.test, ast.UnaryOp) and isinstance(node.test.op, ast.Not):
            new = ast.IfExp(test=node.test.operand, body=node.orelse, orelse=node.body)
            return ast.copy_location(new, node)
        return node


def function_keys(modname, tree):
    """(key, FunctionDef) for every module-level function and every method; a property's getter / setter / deleter and
    repeated definitions of one name get distinct keys"""
    out = []
    seen = {}

    def key_of(prefix, n):
        kind = ""
        for d in n.decorator_list:
            if isinstance(d, ast.Attribute) and d.attr in ("setter", "deleter", "getter"):
                kind = "#" + d.attr
        k = "%s.%s%s" % (prefix, n.name, kind)
        seen[k] = seen.get(k, 0) + 1
        return k if seen[k] == 1 else "%s#%d" % (k, seen[k])
    for n in tree.body:
        if isinstance(n, (ast.FunctionDef, ast.AsyncFunctionDef)):
            out.append((key_of(modname, n), n))
        elif isinstance(n, ast.ClassDef):
            for m in n.body:
                if isinstance(m, (ast.FunctionDef, ast.AsyncFunctionDef)):
                    out.append((key_of(modname + "." + n.name, m), m))
    return out


_CONFIRMED = None


def confirmed_table():
    global _CONFIRMED
    if _CONFIRMED is None:
        _CONFIRMED = {}
        if not os.environ.get("MENPOLINT_NO_CONFIRMED"):
            path = os.path.join(os.path.dirname(os.path.abspath(__file__)), "confirmed.json")
            try:
                import json
                with open(path) as f:
                    _CONFIRMED = json.load(f).get("functions", {})
            except Exception:
                _CONFIRMED = {}
    return _CONFIRMED


def signature_index(trees):
    """callable name -> positional parameter names, from the *current* tree: module-level functions by bare name, classes by
    name (their own __init__, without self), ('Class', 'method') for explicit base calls.  Ambiguous names are dropped."""
    idx = {}

    def put(k, params):
        if k in idx and idx[k] != params:
            idx[k] = None
        else:
            idx[k] = params

    def params_of(fn, skip_self):
        a = fn.args
        if a.vararg is not None or a.posonlyargs:
            return None
        ps = [x.arg for x in a.args]
        return ps[1:] if skip_self else ps

    def defaults_of(fn):
        a = fn.args
        out = {}
        for p_, d_ in zip([x.arg for x in a.args][len(a.args) - len(a.defaults):], a.defaults):
            if isinstance(d_, ast.Constant):
                out[p_] = repr(d_.value)
        for p_, d_ in zip([x.arg for x in a.kwonlyargs], a.kw_defaults):
            if d_ is not None and isinstance(d_, ast.Constant):
                out[p_] = repr(d_.value)
        return out
    for tree in trees:
        for n in tree.body:
            if isinstance(n, (ast.FunctionDef, ast.AsyncFunctionDef)):
                put(n.name, params_of(n, False))
                put(("#defaults", n.name), defaults_of(n))
            elif isinstance(n, ast.ClassDef):
                for m_ in n.body:
                    if isinstance(m_, (ast.FunctionDef, ast.AsyncFunctionDef)):
                        decs = [dotted(d.func if isinstance(d, ast.Call) else d) for d in m_.decorator_list]
                        if m_.name == "__init__":
                            put(n.name, params_of(m_, True))
                            put(("#defaults", n.name), defaults_of(m_))
                        if "staticmethod" not in decs and "property" not in decs:
                            put((n.name, m_.name), params_of(m_, True))
                            put(("#defaults", n.name, m_.name), defaults_of(m_))
    return {k: v for k, v in idx.items() if v is not None}


def substitute_equivalent(modname, tree, sigs=None):
    """Replace every function whose canonical form equals the one recorded for the confirmed tree by the confirmed
    spelling (see canon.py).  Returns the list of (key, lineno) substituted.  The current source decides: a function
    that is not provably the same computation is left exactly as it is."""
    table = confirmed_table()
    if not table:
        return []
    from . import canon
    keyed = function_keys(modname, tree)
    new_mod_helpers = {n.name: n for k, n in keyed if k not in table and k.count(".") == modname.count(".") + 1 and n.name.startswith("_")}
    done = []
    containers = {id(n): tree.body for n in tree.body}
    for c in tree.body:
        if isinstance(c, ast.ClassDef):
            for m in c.body:
                containers[id(m)] = c.body
    for key, node in keyed:
        ent = table.get(key)
        if ent is None or ent.get("canon") is None:
            continue
        if ast.unparse(node) == ent["src"]:
            continue
        body = containers[id(node)]
        meth_helpers = {}
        if body is not tree.body:
            prefix = key.rsplit(".", 1)[0]
            meth_helpers = {n.name: n for k, n in keyed if k not in table and k.rsplit(".", 1)[0] == prefix and n.name.startswith("_") and n is not node}
        try:
            c = canon.digest(canon.canonical(node, new_mod_helpers, meth_helpers, sigs))
        except Exception:
            continue
        if c != ent["canon"]:
            continue
        new = ast.parse(ent["src"]).body[0]
        ast.increment_lineno(new, node.lineno - getattr(new, "lineno", 1))
        body[body.index(node)] = new
        done.append((key, node.lineno))
    return done


class Module:
    def __init__(self, name, path, relpath, src, is_pkg):
        self.name = name
        self.path = path
        self.relpath = relpath
        self.src = src
        self.is_pkg = is_pkg
        self.raw_tree = ast.parse(src, filename=path)  # as written (used for in-memory edits)
        self.tree = None
        self.substituted = []

    def finish(self, sigs=None):
        """second phase (all modules are parsed): recognise rewritten functions, canonical polarity, indexes"""
        tree = ast.parse(self.src, filename=self.path)
        self.substituted = substitute_equivalent(self.name, tree, sigs)
        self.tree = _Canon().visit(tree)
        for n in ast.walk(self.tree):
            for c in ast.iter_child_nodes(n):
                c._parent = n
        self.tree._parent = None
        self.tree._module = self
        # local top-level definitions
        self.classes = {}
        self.functions = {}
        self.assigns = {}  # name -> value expr (module level simple assigns)
        self.imports = {}  # local name -> ('mod', dotted) | ('from', dotted_module, name)
        self.star_imports = []  # dotted module names
        self._collect()

    def package(self):
        return self.name if self.is_pkg else self.name.rpartition(".")[0]

    def _abs(self, level, module):
        if level == 0:
            return module
        base = self.package().split(".")
        if level > 1:
            base = base[: len(base) - (level - 1)]
        return ".".join(base + ([module] if module else []))

    def _collect(self):
        def visit(body):
            for n in body:
                if isinstance(n, ast.ClassDef):
                    self.classes[n.name] = n
                elif isinstance(n, (ast.FunctionDef, ast.AsyncFunctionDef)):
                    self.functions[n.name] = n
                elif isinstance(n, ast.Assign):
                    for t in n.targets:
                        if isinstance(t, ast.Name):
                            self.assigns[t.id] = n.value
                elif isinstance(n, ast.AnnAssign) and isinstance(n.target, ast.Name) and n.value is not None:
                    self.assigns[n.target.id] = n.value
                elif isinstance(n, ast.Import):
                    for a in n.names:
                        if a.asname:
                            self.imports[a.asname] = ("mod", a.name)
                        else:
                            self.imports[a.name.split(".")[0]] = ("mod", a.name.split(".")[0])
                elif isinstance(n, ast.ImportFrom):
                    target = self._abs(n.level, n.module)
                    for a in n.names:
                        if a.name == "*":
                            self.star_imports.append(target)
                        else:
                            self.imports[a.asname or a.name] = ("from", target, a.name)
                elif isinstance(n, (ast.If, ast.Try)):
                    # conditional imports / definitions at module level
                    for sub in ast.iter_child_nodes(n):
                        if isinstance(sub, ast.stmt):
                            visit([sub])
                        elif isinstance(sub, ast.ExceptHandler):
                            visit(sub.body)

        visit(self.tree.body)


class FuncInfo:
    """A function or method definition."""

    def __init__(self, module, cls, node):
        self.module = module
        self.cls = cls  # ClassInfo or None
        self.node = node
        self.name = node.name
        node._finfo = self

    @property
    def qualname(self):
        if self.cls is not None:
            return "%s.%s.%s" % (self.module.name, self.cls.name, self.name)
        return "%s.%s" % (self.module.name, self.name)

    @property
    def short(self):
        if self.cls is not None:
            return "%s.%s" % (self.cls.name, self.name)
        return self.name

    @property
    def params(self):
        a = self.node.args
        return [x.arg for x in a.posonlyargs + a.args + a.kwonlyargs]

    def defaults(self):
        """param name -> default expr (only those with defaults)."""
        a = self.node.args
        pos = a.posonlyargs + a.args
        out = {}
        for p, d in zip(pos[len(pos) - len(a.defaults):], a.defaults):
            out[p.arg] = d
        for p, d in zip(a.kwonlyargs, a.kw_defaults):
            if d is not None:
                out[p.arg] = d
        return out

    def decorators(self):
        out = []
        for d in self.node.decorator_list:
            f = d.func if isinstance(d, ast.Call) else d
            out.append(dotted(f) or "?")
        return out

    def is_property(self):
        return "property" in self.decorators()

    def is_setter(self):
        return any(d.endswith(".setter") for d in self.decorators())

    def loc(self):
        return "%s:%d" % (self.module.relpath, self.node.lineno)

    def __repr__(self):
        return "<Func %s>" % self.qualname


class ClassInfo:
    def __init__(self, module, node):
        self.module = module
        self.node = node
        self.name = node.name
        self.qualname = module.name + "." + node.name
        self.bases = []  # ClassInfo or ('ext', dotted)
        self.mro = None
        self.methods = {}  # name -> FuncInfo (plain defs incl. property getters)
        self.setters = {}  # name -> FuncInfo
        self.class_attrs = {}  # name -> value expr
        node._cinfo = self
        for n in node.body:
            if isinstance(n, (ast.FunctionDef, ast.AsyncFunctionDef)):
                fi = FuncInfo(module, self, n)
                if fi.is_setter():
                    self.setters[n.name] = fi
                else:
                    self.methods[n.name] = fi
            elif isinstance(n, ast.Assign):
                for t in n.targets:
                    if isinstance(t, ast.Name):
                        self.class_attrs[t.id] = n.value

    def is_subclass_of(self, other):
        return other in self.mro

    def loc(self):
        return "%s:%d" % (self.module.relpath, self.node.lineno)

    def __repr__(self):
        return "<Class %s>" % self.qualname


def dotted(node):
    """a.b.c -> 'a.b.c' for Name/Attribute chains, else None."""
    parts = []
    while isinstance(node, ast.Attribute):
        parts.append(node.attr)
        node = node.value
    if isinstance(node, ast.Name):
        parts.append(node.id)
        return ".".join(reversed(parts))
    return None


def _c3(cls, seen=()):
    if cls.mro is not None:
        return cls.mro
    if cls in seen:
        raise AnalysisError("cyclic inheritance at %s" % cls.qualname)
    seqs = []
    for b in cls.bases:
        if isinstance(b, ClassInfo):
            seqs.append(list(_c3(b, seen + (cls,))))
    seqs.append([b for b in cls.bases if isinstance(b, ClassInfo)])
    res = [cls]
    seqs = [s for s in seqs if s]
    while seqs:
        for s in seqs:
            cand = s[0]
            if not any(cand in t[1:] for t in seqs):
                break
        else:
            raise AnalysisError("inconsistent MRO for %s" % cls.qualname)
        res.append(cand)
        seqs = [[x for x in s if x is not cand] for s in seqs]
        seqs = [s for s in seqs if s]
    cls.mro = res
    return res


class Project:
    def __init__(self, root=None, overrides=None, base=None):
        """overrides: relpath -> source text (in-memory variant of one file).
        base: another Project whose parsed modules are reused where not overridden."""
        self.root = root or REPO
        self.overrides = overrides or {}
        self.modules = {}
        self.by_relpath = {}
        self._load(base)
        self.classes = {}  # qualname -> ClassInfo
        self.functions = {}  # qualname -> FuncInfo (module level)
        self._index()

    # ------------------------------------------------------------------ load
    def _load(self, base):
        pkgroot = os.path.join(self.root, PKG)
        if not os.path.isdir(pkgroot):
            raise AnalysisError("no package at %s" % pkgroot)
        for dirpath, dirnames, filenames in os.walk(pkgroot):
            dirnames[:] = sorted(d for d in dirnames if d not in ("test", "tests", "__pycache__"))
            for fn in sorted(filenames):
                if not fn.endswith(".py"):
                    continue
                path = os.path.join(dirpath, fn)
                rel = os.path.relpath(path, self.root)
                parts = rel[:-3].split(os.sep)
                is_pkg = parts[-1] == "__init__"
                if is_pkg:
                    parts = parts[:-1]
                name = ".".join(parts)
                if rel in self.overrides:
                    src = self.overrides[rel]
                else:
                    with open(path, encoding="utf-8") as f:
                        src = f.read()
                try:
                    m = Module(name, path, rel, src, is_pkg)
                except SyntaxError as e:
                    raise AnalysisError("cannot parse %s: %s" % (rel, e))
                self.modules[name] = m
                self.by_relpath[rel] = m
        for rel in self.overrides:
            if rel not in self.by_relpath:
                raise AnalysisError("override for unknown file %s" % rel)
        self.sigs = signature_index([m.raw_tree for m in self.modules.values()])
        for m in self.modules.values():
            m.finish(self.sigs)

    def _index(self):
        for m in self.modules.values():
            for n in m.classes.values():
                ci = ClassInfo(m, n)
                self.classes[ci.qualname] = ci
            for n in m.functions.values():
                fi = FuncInfo(m, None, n)
                self.functions[fi.qualname] = fi
        for ci in self.classes.values():
            for b in ci.node.bases:
                r = self.resolve_expr(ci.module, b)
                if isinstance(r, ClassInfo):
                    ci.bases.append(r)
                else:
                    ci.bases.append(("ext", dotted(b) or ast.unparse(b)))
        for ci in self.classes.values():
            _c3(ci)
        self.subclasses = {c: [] for c in self.classes.values()}
        for ci in self.classes.values():
            for a in ci.mro[1:]:
                self.subclasses[a].append(ci)

    # --------------------------------------------------------------- resolve
    def resolve_name(self, module, name, _seen=None):
        """Resolve a top-level name in `module` to ClassInfo / FuncInfo /
        ('mod', dotted) / ('ext', dotted) / ('value', module, expr) / None."""
        _seen = _seen or set()
        key = (module.name, name)
        if key in _seen:
            return None
        _seen.add(key)
        if name in module.classes:
            return self.classes[module.name + "." + name]
        if name in module.functions:
            return self.functions[module.name + "." + name]
        if name in module.assigns:
            v = module.assigns[name]
            if isinstance(v, (ast.Name, ast.Attribute)):
                r = self.resolve_expr(module, v, _seen)
                if r is not None:
                    return r
            return ("value", module, v)
        if name in module.imports:
            imp = module.imports[name]
            if imp[0] == "mod":
                if imp[1] in self.modules:
                    return ("mod", imp[1])
                return ("ext", imp[1])
            _, target, orig = imp
            sub = target + "." + orig
            if target in self.modules:
                r = self.resolve_name(self.modules[target], orig, _seen)
                if r is not None:
                    return r
                if sub in self.modules:
                    return ("mod", sub)
                return None
            if target.split(".")[0] == PKG:
                return None
            return ("ext", sub)
        for target in module.star_imports:
            if target in self.modules:
                r = self.resolve_name(self.modules[target], name, _seen)
                if r is not None:
                    return r
        return None

    def resolve_expr(self, module, node, _seen=None):
        """Resolve Name / dotted Attribute at module scope."""
        if isinstance(node, ast.Name):
            return self.resolve_name(module, node.id, _seen)
        if isinstance(node, ast.Attribute):
            base = self.resolve_expr(module, node.value, _seen)
            if base is None:
                return None
            if isinstance(base, tuple) and base[0] == "mod":
                sub = base[1] + "." + node.attr
                r = self.resolve_name(self.modules[base[1]], node.attr, _seen)
                if r is not None:
                    return r
                if sub in self.modules:
                    return ("mod", sub)
                return None
            if isinstance(base, tuple) and base[0] == "ext":
                return ("ext", base[1] + "." + node.attr)
            if isinstance(base, ClassInfo):
                m = self.lookup(base, node.attr)
                if m is not None:
                    return m
            return None
        return None

    # ----------------------------------------------------------------- query
    def cls(self, short):
        """Class by short name (must be unique) or qualname."""
        if short in self.classes:
            return self.classes[short]
        hits = [c for c in self.classes.values() if c.name == short]
        if len(hits) != 1:
            raise AnalysisError("class %s: %d definitions found" % (short, len(hits)))
        return hits[0]

    def has_cls(self, short):
        return len([c for c in self.classes.values() if c.name == short]) == 1

    def func(self, qual):
        """Module-level function by qualname 'menpo.x.y.f' or unique short name."""
        if qual in self.functions:
            return self.functions[qual]
        hits = [f for f in self.functions.values() if f.name == qual]
        if len(hits) != 1:
            raise AnalysisError("function %s: %d definitions found" % (qual, len(hits)))
        return hits[0]

    def lookup(self, cls, name):
        """MRO lookup of a method/property getter -> FuncInfo or None."""
        for c in cls.mro:
            if name in c.methods:
                return c.methods[name]
            if name in c.class_attrs:
                return None
        return None

    def lookup_setter(self, cls, name):
        for c in cls.mro:
            if name in c.setters:
                return c.setters[name]
        return None

    def lookup_attr(self, cls, name):
        """MRO lookup including class attributes -> FuncInfo | ('attr', cls, expr) | None."""
        for c in cls.mro:
            if name in c.methods:
                return c.methods[name]
            if name in c.class_attrs:
                return ("attr", c, c.class_attrs[name])
        return None

    def method(self, cls_short, name):
        """Resolved method, AnalysisError if the anchor vanished."""
        c = self.cls(cls_short)
        f = self.lookup(c, name)
        if f is None:
            raise AnalysisError("anchor missing: %s.%s" % (cls_short, name))
        return f

    def own_method(self, cls_short, name):
        c = self.cls(cls_short)
        f = c.methods.get(name)
        if f is None:
            raise AnalysisError("anchor missing: %s.%s (own definition)" % (cls_short, name))
        return f

    def descendants(self, cls, include_self=True):
        out = [cls] if include_self else []
        out += self.subclasses[cls]
        return out

    def all_functions(self):
        for f in self.functions.values():
            yield f
        for c in self.classes.values():
            for f in c.methods.values():
                yield f
            for f in c.setters.values():
                yield f

    def variant(self, relpath, new_src):
        ov = dict(self.overrides)
        ov[relpath] = new_src
        return Project(self.root, ov)

    def module_of_file(self, relpath):
        if relpath not in self.by_relpath:
            raise AnalysisError("anchor missing: file %s" % relpath)
        return self.by_relpath[relpath]
