"""Constant folder for the index-based labellers (C15.R1).

A small abstract interpreter over the AST of a labeller: integers, integer
arrays (folded with the *installed numpy*, never with menpo), lists, tuples and
ordered mappings are concrete; the input point cloud and every shape built
from it are symbolic:

  PCloud(n)           the input; n is fixed by validate_input(pcloud, n)
  Points(sel)         rows `sel` of the input coordinates
  ShapeV              a shape built from Points with edges / mapping / trilist

Anything outside the recognised vocabulary raises FoldError: the labeller is
then *undecided*, never a violation.
"""
import ast
from collections import OrderedDict

import numpy as np

from .loader import FuncInfo, ClassInfo, dotted
from .astutil import norm

NP_FUNCS = {"arange", "array", "asarray", "hstack", "vstack", "roll", "concatenate"}


class FoldError(Exception):
    pass


class PCloud:
    def __init__(self):
        self.n = None
        self.validated_at = None
        self.events = []


class Points:
    def __init__(self, sel, src):
        self.sel = np.asarray(sel, dtype=int)
        self.src = src


class ShapeV:
    def __init__(self, kind, points, edges=None, mapping=None, trilist=None):
        self.kind = kind
        self.points = points
        self.edges = edges
        self.mapping = mapping
        self.trilist = trilist

    @property
    def n_points(self):
        return len(self.points.sel)


class _Return(Exception):
    def __init__(self, value):
        self.value = value


class FuncRef:
    def __init__(self, finfo):
        self.f = finfo


class ClassRef:
    def __init__(self, cinfo):
        self.c = cinfo


class Marker:
    def __init__(self, name):
        self.name = name


def is_labeller(finfo):
    return any(d.split(".")[-1] == "labeller_func" for d in finfo.decorators())


class Folder:
    def __init__(self, project):
        self.p = project
        self.depth = 0
        self.steps = 0

    # ---------------------------------------------------------------- API
    def run_labeller(self, finfo):
        pc = PCloud()
        shape, mapping = self.call_labeller(finfo, pc, True)
        return pc, shape, mapping

    def call_labeller(self, finfo, x, return_mapping):
        res = self.call(finfo, [x], {})
        if not (isinstance(res, tuple) and len(res) == 2):
            raise FoldError("labeller %s did not return (shape, mapping)" % finfo.short)
        return res if return_mapping else res[0]

    # --------------------------------------------------------------- calls
    def call(self, finfo, args, kwargs):
        self.depth += 1
        if self.depth > 12:
            raise FoldError("call depth")
        try:
            a = finfo.node.args
            params = [x.arg for x in a.posonlyargs + a.args]
            env = {}
            dflt = finfo.defaults()
            for i, prm in enumerate(params):
                if i < len(args):
                    env[prm] = args[i]
                elif prm in kwargs:
                    env[prm] = kwargs[prm]
                elif prm in dflt:
                    env[prm] = self.eval(dflt[prm], {}, finfo)
                else:
                    raise FoldError("missing argument %s of %s" % (prm, finfo.short))
            try:
                self.block(finfo.node.body, env, finfo)
            except _Return as r:
                return r.value
            return None
        finally:
            self.depth -= 1

    def block(self, body, env, f):
        for st in body:
            self.stmt(st, env, f)

    def stmt(self, st, env, f):
        self.steps += 1
        if self.steps > 200000:
            raise FoldError("step limit")
        if isinstance(st, ast.Expr):
            if isinstance(st.value, ast.Constant):
                return
            self.eval(st.value, env, f)
        elif isinstance(st, ast.Assign):
            v = self.eval(st.value, env, f)
            for t in st.targets:
                self.assign(t, v, env, f)
        elif isinstance(st, ast.AugAssign):
            cur = self.eval(st.target, env, f)
            v = self.eval(st.value, env, f)
            if isinstance(st.op, ast.Add):
                if isinstance(cur, list) and isinstance(v, list):
                    new = cur + v
                elif isinstance(cur, (int, np.ndarray)) and isinstance(v, (int, np.ndarray)):
                    new = cur + v
                else:
                    raise FoldError("+= on %s" % type(cur).__name__)
            else:
                raise FoldError("augmented op")
            self.assign(st.target, new, env, f)
        elif isinstance(st, ast.Return):
            raise _Return(self.eval(st.value, env, f) if st.value is not None else None)
        elif isinstance(st, ast.If):
            t = self.eval(st.test, env, f)
            if not isinstance(t, (bool, int, np.bool_)) and t is not None:
                raise FoldError("non-constant test `%s`" % norm(st.test)[:40])
            self.block(st.body if t else st.orelse, env, f)
        elif isinstance(st, ast.For):
            it = self.eval(st.iter, env, f)
            if isinstance(it, (list, tuple, np.ndarray)):
                seq = list(it)
            elif isinstance(it, (dict,)):
                seq = list(it)
            else:
                raise FoldError("for over %s" % type(it).__name__)
            for x in seq:
                self.assign(st.target, x, env, f)
                self.block(st.body, env, f)
        elif isinstance(st, (ast.Import, ast.ImportFrom, ast.Pass)):
            return
        elif isinstance(st, ast.Raise):
            raise FoldError("reaches a raise: `%s`" % norm(st)[:60])
        else:
            raise FoldError("statement %s" % type(st).__name__)

    def assign(self, t, v, env, f):
        if isinstance(t, ast.Name):
            env[t.id] = v
        elif isinstance(t, (ast.Tuple, ast.List)):
            vals = list(v) if isinstance(v, (tuple, list, np.ndarray)) else None
            if vals is None or len(vals) != len(t.elts):
                raise FoldError("cannot unpack")
            for e, x in zip(t.elts, vals):
                self.assign(e, x, env, f)
        elif isinstance(t, ast.Subscript):
            base = self.eval(t.value, env, f)
            key = self.eval(t.slice, env, f)
            if isinstance(base, dict):
                base[key] = v
            elif isinstance(base, list) and isinstance(key, int):
                base[key] = v
            else:
                raise FoldError("item store on %s" % type(base).__name__)
        else:
            raise FoldError("assignment target")

    # ---------------------------------------------------------------- eval
    def lookup(self, name, env, f):
        if name in env:
            return env[name]
        # function-local imports and module names
        r = None
        for n in ast.walk(f.node):
            if isinstance(n, ast.ImportFrom):
                for a in n.names:
                    if (a.asname or a.name) == name:
                        target = f.module._abs(n.level, n.module)
                        if target in self.p.modules:
                            r = self.p.resolve_name(self.p.modules[target], a.name)
        if r is None:
            r = self.p.resolve_name(f.module, name)
        if isinstance(r, FuncInfo):
            return FuncRef(r)
        if isinstance(r, ClassInfo):
            return ClassRef(r)
        if isinstance(r, tuple) and r[0] == "ext":
            if r[1] == "numpy":
                return Marker("numpy")
            if r[1] in ("collections.OrderedDict",):
                return Marker("OrderedDict")
            raise FoldError("external name %s" % r[1])
        if name in ("list", "zip", "range", "len", "tuple", "int", "True", "False", "None"):
            return Marker("builtin:" + name)
        raise FoldError("unknown name %s" % name)

    def eval(self, e, env, f):
        if isinstance(e, ast.Constant):
            return e.value
        if isinstance(e, ast.Name):
            return self.lookup(e.id, env, f)
        if isinstance(e, (ast.Tuple, ast.List)):
            vals = []
            for x in e.elts:
                if isinstance(x, ast.Starred):
                    vals += list(self.eval(x.value, env, f))
                else:
                    vals.append(self.eval(x, env, f))
            return tuple(vals) if isinstance(e, ast.Tuple) else vals
        if isinstance(e, ast.Dict):
            return OrderedDict((self.eval(k, env, f), self.eval(v, env, f)) for k, v in zip(e.keys, e.values))
        if isinstance(e, ast.UnaryOp):
            v = self.eval(e.operand, env, f)
            if isinstance(e.op, ast.USub) and isinstance(v, (int, np.ndarray)):
                return -v
            if isinstance(e.op, ast.Not):
                return not v
            raise FoldError("unary op")
        if isinstance(e, ast.BinOp):
            a, b = self.eval(e.left, env, f), self.eval(e.right, env, f)
            conc = (int, np.integer, np.ndarray)
            if isinstance(e.op, ast.Add):
                if isinstance(a, list) and isinstance(b, list):
                    return a + b
                if isinstance(a, tuple) and isinstance(b, tuple):
                    return a + b
                if isinstance(a, conc) and isinstance(b, conc):
                    return a + b
            elif isinstance(e.op, ast.Sub) and isinstance(a, conc) and isinstance(b, conc):
                return a - b
            elif isinstance(e.op, ast.Mult) and isinstance(a, conc) and isinstance(b, conc):
                return a * b
            raise FoldError("binary op on %s, %s" % (type(a).__name__, type(b).__name__))
        if isinstance(e, ast.Compare) and len(e.ops) == 1:
            a, b = self.eval(e.left, env, f), self.eval(e.comparators[0], env, f)
            op = e.ops[0]
            if isinstance(op, ast.Is):
                return a is b
            if isinstance(op, ast.IsNot):
                return a is not b
            if isinstance(a, (int, str, bool)) and isinstance(b, (int, str, bool)):
                if isinstance(op, ast.Eq):
                    return a == b
                if isinstance(op, ast.NotEq):
                    return a != b
                if isinstance(op, ast.Lt):
                    return a < b
                if isinstance(op, ast.Gt):
                    return a > b
            raise FoldError("comparison")
        if isinstance(e, ast.IfExp):
            return self.eval(e.body if self.eval(e.test, env, f) else e.orelse, env, f)
        if isinstance(e, ast.Slice):
            g = lambda x: None if x is None else self.eval(x, env, f)
            return slice(g(e.lower), g(e.upper), g(e.step))
        if isinstance(e, ast.Subscript):
            base = self.eval(e.value, env, f)
            key = self.eval(e.slice, env, f)
            return self.getitem(base, key)
        if isinstance(e, ast.Attribute):
            base = self.eval(e.value, env, f)
            return self.getattr(base, e.attr, e)
        if isinstance(e, ast.Call):
            return self.eval_call(e, env, f)
        raise FoldError("expression %s" % type(e).__name__)

    def getitem(self, base, key):
        if isinstance(base, Points):
            if isinstance(key, (np.ndarray, slice, list)):
                return Points(base.sel[key], base.src)
            if isinstance(key, (int, np.integer)):
                return Points(base.sel[[key]], base.src)
            raise FoldError("points index")
        if isinstance(base, (np.ndarray, list, tuple)):
            if isinstance(key, (int, np.integer, slice)):
                return base[key]
            if isinstance(base, np.ndarray) and isinstance(key, (np.ndarray, list, tuple)):
                return base[key]
            raise FoldError("index")
        if isinstance(base, dict):
            if key not in base:
                raise FoldError("missing key %r" % (key,))
            return base[key]
        raise FoldError("subscript on %s" % type(base).__name__)

    def getattr(self, base, attr, node):
        if isinstance(base, Marker) and base.name == "numpy":
            if attr in NP_FUNCS:
                return Marker("np." + attr)
            raise FoldError("numpy.%s outside the folder's vocabulary" % attr)
        if isinstance(base, PCloud):
            if attr == "points":
                if base.n is None:
                    base.events.append(("points-before-validation", node))
                    raise FoldError("pcloud.points is read before validate_input fixed the size")
                return Points(np.arange(base.n), base)
            if attr == "n_points":
                if base.n is None:
                    raise FoldError("n_points before validation")
                return base.n
            raise FoldError("pcloud.%s" % attr)
        if isinstance(base, ShapeV):
            if attr == "points":
                return base.points
            if attr == "n_points":
                return base.n_points
            if attr == "edges":
                if base.edges is None:
                    raise FoldError("edges of a non-graph")
                und = sorted({(min(int(a), int(b)), max(int(a), int(b))) for a, b in base.edges})
                return np.array(und, dtype=int).reshape(-1, 2)
            if attr in ("from_vector",):
                return Marker("method:from_vector:%d" % id(base)), base
            raise FoldError("shape.%s" % attr)
        if isinstance(base, np.ndarray) and attr == "tolist":
            return ("bound", base, "tolist")
        if isinstance(base, list) and attr == "append":
            return ("bound", base, "append")
        if isinstance(base, dict) and attr in ("items", "keys", "values"):
            return ("bound", base, attr)
        if isinstance(base, ClassRef):
            return ("classattr", base, attr)
        raise FoldError("attribute %s on %s" % (attr, type(base).__name__))

    def eval_call(self, e, env, f):
        fn = self.eval(e.func, env, f)
        args = []
        for a in e.args:
            if isinstance(a, ast.Starred):
                args += list(self.eval(a.value, env, f))
            else:
                args.append(self.eval(a, env, f))
        kwargs = {k.arg: self.eval(k.value, env, f) for k in e.keywords if k.arg is not None}
        if isinstance(fn, Marker):
            nm = fn.name
            if nm.startswith("np."):
                for x in list(args) + list(kwargs.values()):
                    if isinstance(x, (Points, ShapeV, PCloud)):
                        raise FoldError("numpy call on a symbolic value")
                return getattr(np, nm[3:])(*args, **kwargs)
            if nm == "OrderedDict":
                return OrderedDict(*args)
            if nm.startswith("builtin:"):
                b = nm[8:]
                if b == "list":
                    return list(*args)
                if b == "tuple":
                    return tuple(*args)
                if b == "zip":
                    return list(zip(*args))
                if b == "range":
                    return list(range(*[int(x) for x in args]))
                if b == "len":
                    return len(args[0])
                if b == "int":
                    return int(args[0])
            raise FoldError("call of %s" % nm)
        if isinstance(fn, tuple) and fn and fn[0] == "bound":
            _, obj, m = fn
            if m == "tolist":
                return obj.tolist()
            if m == "append":
                obj.append(args[0])
                return None
            if m == "items":
                return list(obj.items())
            if m == "keys":
                return list(obj.keys())
            if m == "values":
                return list(obj.values())
        if isinstance(fn, tuple) and len(fn) == 2 and isinstance(fn[0], Marker) and fn[0].name.startswith("method:from_vector"):
            shape = fn[1]
            pts = args[0]
            if not isinstance(pts, Points):
                raise FoldError("from_vector on non-points")
            if len(pts.sel) != shape.n_points:
                raise FoldError("from_vector with a different number of points")
            return ShapeV(shape.kind, pts, shape.edges, shape.mapping, shape.trilist)
        if isinstance(fn, FuncRef):
            g = fn.f
            if g.name == "validate_input" and len(args) == 2 and isinstance(args[0], PCloud):
                pc = args[0]
                if not isinstance(args[1], int):
                    raise FoldError("validate_input with a non-constant size")
                if pc.n is not None and pc.n != args[1]:
                    raise FoldError("validated against two sizes (%d, %d)" % (pc.n, args[1]))
                pc.n = args[1]
                pc.validated_at = e
                return None
            if is_labeller(g):
                return self.call_labeller(g, args[0], bool(kwargs.get("return_mapping", args[1] if len(args) > 1 else False)))
            return self.call(g, args, kwargs)
        if isinstance(fn, ClassRef):
            c = fn.c
            if c.name == "TriMesh":
                pts = args[0] if args else kwargs.get("points")
                tl = kwargs.get("trilist", args[1] if len(args) > 1 else None)
                if not isinstance(pts, Points) or tl is None:
                    raise FoldError("TriMesh(...) arguments")
                return ShapeV("trimesh", pts, trilist=np.asarray(tl))
            raise FoldError("constructor %s" % c.name)
        if isinstance(fn, tuple) and fn and fn[0] == "classattr":
            _, cref, attr = fn
            if cref.c.name == "LabelledPointUndirectedGraph" and attr == "init_from_indices_mapping" and len(args) == 3:
                pts, conn, mapping = args
                if not isinstance(pts, Points) or not isinstance(mapping, dict):
                    raise FoldError("init_from_indices_mapping arguments")
                conn = np.asarray(conn)
                if conn.ndim != 2 or conn.shape[1] != 2:
                    raise FoldError("connectivity is not an (n, 2) array")
                return ShapeV("lgraph", pts, edges=[(int(a), int(b)) for a, b in conn], mapping=mapping)
            raise FoldError("%s.%s" % (cref.c.name, attr))
        raise FoldError("call of `%s`" % norm(e.func)[:40])
