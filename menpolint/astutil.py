"""Small AST helpers shared by every rule."""
import ast

from .loader import dotted, AnalysisError, FuncInfo

FUNC_TYPES = (ast.FunctionDef, ast.AsyncFunctionDef, ast.Lambda)


def walk_own(node, include_nested=False):
    """Walk the body of a function in source (pre-)order without descending into nested
    defs/classes (lambdas and comprehensions are descended into)."""
    todo = list(reversed(list(ast.iter_child_nodes(node))))
    while todo:
        n = todo.pop()
        yield n
        if not include_nested and isinstance(n, (ast.FunctionDef, ast.AsyncFunctionDef, ast.ClassDef)):
            continue
        todo.extend(reversed(list(ast.iter_child_nodes(n))))


def own_stmts(fn_node):
    """All statements of a function (recursively), nested defs excluded, in source order."""
    out = [n for n in walk_own(fn_node) if isinstance(n, ast.stmt)]
    out.sort(key=lambda s: (s.lineno, s.col_offset))
    return out


def calls_in(node, include_nested=False):
    out = [n for n in walk_own(node, include_nested) if isinstance(n, ast.Call)]
    out.sort(key=lambda s: (s.lineno, s.col_offset))
    return out


def call_name(call):
    return dotted(call.func)


class _CanonUnparser(ast._Unparser):
    """ast.unparse with keyword arguments in alphabetical order (**kwargs last), so that the
    order in which keywords are written never matters to a rule"""

    def visit_Call(self, node):
        kws = node.keywords
        if len(kws) > 1:
            named = sorted((k for k in kws if k.arg is not None), key=lambda k: k.arg)
            star = [k for k in kws if k.arg is None]
            if [k.arg for k in named + star] != [k.arg for k in kws]:
                node = ast.Call(func=node.func, args=node.args, keywords=named + star)
        # a.dot(b) and np.dot(a, b) are one spelling
        f = node.func
        if isinstance(f, ast.Attribute) and f.attr == "dot" and len(node.args) == 1 and not node.keywords \
                and not (isinstance(f.value, ast.Name) and f.value.id in ("np", "numpy")):
            node = ast.Call(func=ast.Attribute(value=ast.Name(id="np", ctx=ast.Load()), attr="dot", ctx=ast.Load()), args=[f.value, node.args[0]], keywords=[])
        return super().visit_Call(node)


# ----------------------------------------------------------------------------------------------
# Anchor locals.  Many rules compare the normalised text of a construct with a pattern that mentions
# local variable names of the function as it is written today.  Which local names each rule relies on,
# per analysed function, is *recorded* from a run on the clean tree (tools/gen_anchors.py ->
# menpolint/anchors.json).  When a rule later reports a violation in a function most of whose anchor
# locals have vanished (renamed / moved into a helper), the rule has lost its anchor: check.py turns
# that report into an ANALYSIS-ERROR, never a violation.
PATTERN_LOG = None  # set to a list by tools/gen_anchors.py to record (root function node, pattern)


def _root_of(node):
    n = node
    last_fn = node if isinstance(node, (ast.FunctionDef, ast.AsyncFunctionDef)) else None
    while n is not None:
        if isinstance(n, (ast.FunctionDef, ast.AsyncFunctionDef)):
            last_fn = n
        n = getattr(n, "_parent", None)
    return last_fn


def pattern_names(pattern):
    """identifiers of a pattern that stand for plain names (not attributes / keywords)"""
    try:
        tree = ast.parse(pattern.strip())
        return {n.id for n in ast.walk(tree) if isinstance(n, ast.Name)}
    except SyntaxError:
        import re
        return {m.group(1) for m in re.finditer(r"(?<![\\w.])([A-Za-z_][A-Za-z0-9_]*)", pattern)}


class NormStr(str):
    """normalised source text that remembers the function it came from (only used to record anchors)"""
    __slots__ = ("_root",)

    def __new__(cls, text, root=None):
        o = super().__new__(cls, text)
        o._root = root
        return o

    def _log(self, other):
        if PATTERN_LOG is not None and self._root is not None and isinstance(other, str) and not isinstance(other, NormStr):
            PATTERN_LOG.append((self._root, other))

    def __eq__(self, other):
        self._log(other)
        return str.__eq__(self, other)

    def __ne__(self, other):
        self._log(other)
        return str.__ne__(self, other)

    __hash__ = str.__hash__

    def __contains__(self, snippet):
        self._log(snippet)
        return str.__contains__(self, snippet)

    def startswith(self, prefix, *a):
        if isinstance(prefix, str):
            self._log(prefix)
        return str.startswith(self, prefix, *a)

    def endswith(self, suffix, *a):
        if isinstance(suffix, str):
            self._log(suffix)
        return str.endswith(self, suffix, *a)


def norm(node):
    """Normalised source of a node (whitespace/comments gone, keyword arguments sorted)."""
    try:
        text = _CanonUnparser().visit(node)
    except Exception:
        try:
            text = ast.unparse(node)
        except Exception:
            text = "<%s>" % type(node).__name__
    return NormStr(text, _root_of(node) if isinstance(node, ast.AST) else None)


def P(pattern):
    """canonical spelling of a pattern written as source text (same normalisation as norm())"""
    try:
        tree = ast.parse(pattern)
    except SyntaxError:
        return pattern
    if len(tree.body) == 1 and isinstance(tree.body[0], ast.Expr):
        return str(norm(tree.body[0].value))
    return "\n".join(str(norm(st)) for st in tree.body)


def norm_block(stmts, sep="\n"):
    """normalised text of a statement list (keeps the link to the enclosing function for anchor recording)"""
    stmts = list(stmts)
    text = sep.join(str(norm(x)) for x in stmts)
    return NormStr(text, _root_of(stmts[0]) if stmts else None)


def raising_ifs(fn_node):
    """(condition node, polarity under which a `raise` is reached directly, if node) for every `if` of fn_node
    that raises in one of its arms (branch polarity is canonical: tests carry no leading `not`)"""
    out = []
    for n in walk_own(fn_node):
        if isinstance(n, ast.If):
            if any(isinstance(x, ast.Raise) for x in n.body):
                out.append((n.test, True, n))
            if any(isinstance(x, ast.Raise) for x in n.orelse):
                out.append((n.test, False, n))
    return out


def stmt_of(node):
    """Enclosing statement of an expression node."""
    n = node
    while n is not None and not isinstance(n, ast.stmt):
        n = getattr(n, "_parent", None)
    return n


def func_of(node):
    n = getattr(node, "_parent", None)
    while n is not None and not isinstance(n, (ast.FunctionDef, ast.AsyncFunctionDef)):
        n = getattr(n, "_parent", None)
    return n


def kwarg(call, name):
    for k in call.keywords:
        if k.arg == name:
            return k.value
    return None


def has_starargs(call):
    return any(isinstance(a, ast.Starred) for a in call.args) or any(k.arg is None for k in call.keywords)


def bind_call(call, fi, skip_self=None):
    """Bind the arguments of `call` to the parameters of FuncInfo `fi`.
    Returns dict param -> expr (missing ones absent); '**' -> expr for **kwargs forwarding.
    skip_self: True when the call is `obj.m(...)` on a method (first param bound to receiver)."""
    a = fi.node.args
    pos = [x.arg for x in a.posonlyargs + a.args]
    if skip_self is None:
        skip_self = fi.cls is not None and "staticmethod" not in fi.decorators()
    if skip_self and pos:
        pos = pos[1:]
    out = {}
    i = 0
    for arg in call.args:
        if isinstance(arg, ast.Starred):
            out["*"] = arg.value
            break
        if i < len(pos):
            out[pos[i]] = arg
        elif a.vararg is not None:
            out.setdefault("*" + a.vararg.arg, []).append(arg)
        i += 1
    allnames = set(pos) | {x.arg for x in a.kwonlyargs}
    for k in call.keywords:
        if k.arg is None:
            out["**"] = k.value
        elif k.arg in allnames:
            out[k.arg] = k.value
        elif a.kwarg is not None:
            out.setdefault("**" + a.kwarg.arg, {})[k.arg] = k.value
        else:
            out.setdefault("?unbound", {})[k.arg] = k.value
    return out


class Defs:
    """Flow-insensitive local definitions of a function: name -> [(kind, value, stmt)].
    kind: 'assign' (value is the rhs), 'unpack' (value=(rhs, index)), 'aug' (value=(op, rhs)),
    'for' (value = iterable), 'with', 'param', 'comp' (value = iterable)."""

    def __init__(self, fn_node):
        self.fn = fn_node
        self.defs = {}
        a = fn_node.args
        self.params = [x.arg for x in a.posonlyargs + a.args + a.kwonlyargs]
        if a.vararg:
            self.params.append(a.vararg.arg)
        if a.kwarg:
            self.params.append(a.kwarg.arg)
        for p in self.params:
            self.defs.setdefault(p, []).append(("param", None, None))
        for n in walk_own(fn_node):
            if isinstance(n, ast.Assign):
                for t in n.targets:
                    self._target(t, n.value, n)
            elif isinstance(n, ast.AnnAssign) and n.value is not None:
                self._target(n.target, n.value, n)
            elif isinstance(n, ast.AugAssign):
                if isinstance(n.target, ast.Name):
                    self.defs.setdefault(n.target.id, []).append(("aug", (n.op, n.value), n))
            elif isinstance(n, (ast.For, ast.AsyncFor)):
                self._target(n.target, n.iter, n, kind="for")
            elif isinstance(n, ast.comprehension):
                self._target(n.target, n.iter, stmt_of(n), kind="comp")
            elif isinstance(n, (ast.With, ast.AsyncWith)):
                for it in n.items:
                    if it.optional_vars is not None:
                        self._target(it.optional_vars, it.context_expr, n, kind="with")
            elif isinstance(n, ast.NamedExpr):
                self._target(n.target, n.value, stmt_of(n))
            elif isinstance(n, (ast.FunctionDef, ast.AsyncFunctionDef)):
                self.defs.setdefault(n.name, []).append(("def", n, n))
            elif isinstance(n, ast.ExceptHandler) and n.name:
                self.defs.setdefault(n.name, []).append(("except", n.type, n))

    def _target(self, t, value, stmt, kind="assign"):
        if isinstance(t, ast.Name):
            self.defs.setdefault(t.id, []).append((kind, value, stmt))
        elif isinstance(t, (ast.Tuple, ast.List)):
            for i, e in enumerate(t.elts):
                if isinstance(e, ast.Starred):
                    e = e.value
                if isinstance(value, (ast.Tuple, ast.List)) and len(value.elts) == len(t.elts) and kind == "assign":
                    self._target(e, value.elts[i], stmt, kind)
                else:
                    self._target(e, (value, i), stmt, "unpack" if kind == "assign" else kind + "-unpack")

    def of(self, name):
        return self.defs.get(name, [])

    def is_local(self, name):
        return name in self.defs

    def single(self, name):
        """The unique plain assignment value of a local, else None."""
        if PATTERN_LOG is not None and name in self.defs:
            PATTERN_LOG.append((self.fn, name))
        d = [x for x in self.of(name)]
        if len(d) == 1 and d[0][0] == "assign":
            return d[0][1]
        return None


def leaves(expr, defs, _seen=None, through_calls=True):
    """Provenance leaves of an expression: set of strings
    'param:x', 'self.a.b', 'name:x' (non-local name), 'const:<repr>', 'call:<dotted>'.
    Locals are expanded through all their definitions (flow-insensitive)."""
    out = set()
    _seen = _seen if _seen is not None else set()

    def go(e):
        if e is None:
            return
        if isinstance(e, tuple):  # ('unpack' payload) (value, idx)
            go(e[0])
            return
        if isinstance(e, ast.Constant):
            out.add("const:%r" % (e.value,))
            return
        if isinstance(e, ast.Name):
            nm = e.id
            ds = defs.of(nm) if defs is not None else []
            if not ds:
                out.add("name:" + nm)
                return
            if nm in _seen:
                return
            _seen.add(nm)
            for kind, val, st in ds:
                if kind == "param":
                    out.add("param:" + nm)
                elif kind == "aug":
                    go(val[1])
                elif kind in ("def", "except"):
                    out.add("name:" + nm)
                else:
                    go(val)
            return
        if isinstance(e, ast.Attribute):
            d = dotted(e)
            if d is not None and d.split(".")[0] == "self" and (defs is None or "self" in defs.params):
                out.add(d)
                return
            go(e.value)
            return
        if isinstance(e, ast.Call):
            d = dotted(e.func)
            if d:
                out.add("call:" + d)
            if isinstance(e.func, ast.Attribute):
                go(e.func.value)
            elif not isinstance(e.func, ast.Name):
                go(e.func)
            if through_calls:
                for a in e.args:
                    go(a.value if isinstance(a, ast.Starred) else a)
                for k in e.keywords:
                    go(k.value)
            return
        if isinstance(e, ast.Lambda):
            go(e.body)
            return
        for c in ast.iter_child_nodes(e):
            if isinstance(c, (ast.expr, ast.comprehension, ast.keyword, ast.slice if hasattr(ast, "slice") else ast.expr)):
                if isinstance(c, ast.comprehension):
                    go(c.iter)
                    for i in c.ifs:
                        go(i)
                elif isinstance(c, ast.keyword):
                    go(c.value)
                else:
                    go(c)

    go(expr)
    return out


def clone(expr):
    """cheap structural copy of an expression (no parent links, which would drag the whole module along)"""
    return ast.parse(ast.unparse(expr), mode="eval").body


def expand(expr, defs, depth=6):
    """Substitute single-assignment locals by their definitions (for structural matching).
    Returns a new AST (copy); leaves multiply-assigned names alone."""
    class T(ast.NodeTransformer):
        def __init__(self):
            self.stack = []

        def visit_Name(self, n):
            if isinstance(n.ctx, ast.Load) and defs is not None and n.id not in self.stack and len(self.stack) < depth:
                v = defs.single(n.id)
                if v is not None and isinstance(v, ast.AST):
                    self.stack.append(n.id)
                    r = self.visit(clone(v))
                    self.stack.pop()
                    return r
            return n

    return T().visit(clone(expr))


def returns_of(fn_node):
    return [n for n in walk_own(fn_node) if isinstance(n, ast.Return)]


def is_self_attr(node, attr=None):
    return (
        isinstance(node, ast.Attribute)
        and isinstance(node.value, ast.Name)
        and node.value.id == "self"
        and (attr is None or node.attr == attr)
    )


def attr_chain(node):
    """['self','a','b'] for self.a.b ; None if not a pure chain."""
    d = dotted(node)
    return d.split(".") if d else None


def const_value(node):
    if isinstance(node, ast.Constant):
        return node.value
    if isinstance(node, ast.UnaryOp) and isinstance(node.op, ast.USub) and isinstance(node.operand, ast.Constant):
        return -node.operand.value
    return None


def find_calls(fn_node, pred):
    return [c for c in calls_in(fn_node) if pred(c)]


def calls_named(fn_node, *names):
    """Calls whose dotted func ends with one of the names (last attribute)."""
    out = []
    for c in calls_in(fn_node):
        d = call_name(c)
        last = c.func.attr if isinstance(c.func, ast.Attribute) else (c.func.id if isinstance(c.func, ast.Name) else None)
        if last in names or d in names:
            out.append(c)
    return out


def need(cond, msg):
    if not cond:
        raise AnalysisError(msg)
