"""Tiny abstract domains: array rank, alias class (SAME/VIEW/FRESH), sign, truth tables."""
import ast
import itertools

from .loader import dotted
from .astutil import Defs, walk_own, const_value

# ranks of well-known attributes (confirmed from their defining stores)
ATTR_RANK = {
    "h_matrix": 2, "_h_matrix": 2, "points": 2, "trilist": 2, "linear_component": 2,
    "translation_component": 1, "rotation_matrix": 2, "colours": 2,
}
RANK_KEEP = {"copy", "astype", "conj", "conjugate", "round", "clip", "view", "__neg__", "T", "transpose"}
SAME, VIEW, FRESH, UNKNOWN = "SAME", "VIEW", "FRESH", "UNKNOWN"


class RankEval:
    """rank(expr) -> int | None (unknown).  Only proven ranks are returned."""

    def __init__(self, project, finfo, recv_cls=None):
        self.p = project
        self.f = finfo
        self.cls = recv_cls if recv_cls is not None else finfo.cls
        self.defs = Defs(finfo.node)
        self.depth = 0

    def rank(self, e, flow_defs=None):
        self.depth += 1
        try:
            if self.depth > 25:
                return None
            return self._rank(e)
        finally:
            self.depth -= 1

    def _attr_rank(self, node):
        # self.X
        if isinstance(node.value, ast.Name) and node.value.id == "self" and self.cls is not None:
            m = self.p.lookup(self.cls, node.attr)
            if m is not None and m.is_property():
                sub = RankEval(self.p, m, self.cls)
                sub.depth = self.depth
                ranks = set()
                for n in walk_own(m.node):
                    if isinstance(n, ast.Return) and n.value is not None:
                        ranks.add(sub.rank(n.value))
                if len(ranks) == 1:
                    return ranks.pop()
                return None
        if node.attr in ATTR_RANK:
            return ATTR_RANK[node.attr]
        if node.attr == "T":
            return self.rank(node.value)
        if node.attr in ("shape",):
            return 1
        if node.attr in ("size", "ndim", "n_dims", "n_points", "n_channels"):
            return 0
        return None

    def _index_rank(self, base_rank, sl):
        """rank after indexing an array of rank base_rank with slice expr sl"""
        if base_rank is None:
            return None
        items = sl.elts if isinstance(sl, ast.Tuple) else [sl]
        drop = 0
        fancy = 0
        for it in items:
            if isinstance(it, ast.Slice):
                continue
            if isinstance(it, ast.Constant) and it.value is Ellipsis:
                continue
            if isinstance(it, ast.Constant) and it.value is None:
                drop -= 1
                continue
            if isinstance(it, (ast.List,)):
                fancy += 1
                continue
            if isinstance(it, ast.Constant) and isinstance(it.value, int):
                drop += 1
                continue
            if isinstance(it, ast.UnaryOp) and isinstance(it.operand, ast.Constant):
                drop += 1
                continue
            r = self.rank(it)
            if r == 0:
                drop += 1
            elif r == 1:
                fancy += 1
            else:
                return None
        if fancy > 1:
            # several fancy indices broadcast together into one axis
            drop += fancy - 1
        out = base_rank - drop
        return out if out >= 0 else None

    def _rank(self, e):
        if isinstance(e, ast.Constant):
            if isinstance(e.value, (int, float, complex, bool)):
                return 0
            return None
        if isinstance(e, (ast.List, ast.Tuple)):
            if not e.elts:
                return 1
            rs = {self.rank(x) for x in e.elts}
            if len(rs) == 1 and None not in rs:
                return rs.pop() + 1
            if all(isinstance(x, ast.Constant) for x in e.elts):
                return 1
            return None
        if isinstance(e, ast.Name):
            vals = [d for d in self.defs.of(e.id)]
            if not vals:
                return None
            rs = set()
            for kind, val, st in vals:
                if kind == "assign":
                    rs.add(self.rank(val))
                elif kind == "aug":
                    continue
                else:
                    rs.add(None)
            if len(rs) == 1:
                return rs.pop()
            return None
        if isinstance(e, ast.Attribute):
            return self._attr_rank(e)
        if isinstance(e, ast.Subscript):
            return self._index_rank(self.rank(e.value), e.slice)
        if isinstance(e, ast.UnaryOp):
            return self.rank(e.operand)
        if isinstance(e, ast.BinOp):
            a, b = self.rank(e.left), self.rank(e.right)
            if isinstance(e.op, ast.MatMult):
                return None
            if a is None or b is None:
                return None
            return max(a, b)
        if isinstance(e, ast.IfExp):
            a, b = self.rank(e.body), self.rank(e.orelse)
            return a if a == b else None
        if isinstance(e, ast.Call):
            f = e.func
            d = dotted(f) or ""
            last = f.attr if isinstance(f, ast.Attribute) else getattr(f, "id", None)
            is_np = d.startswith(("np.", "numpy."))
            if is_np:
                if last in ("asarray", "array", "asanyarray", "ascontiguousarray", "require", "copy", "abs", "sqrt", "negative",
                            "real", "imag", "conj", "float64", "deg2rad", "rad2deg", "squeeze_not") and e.args:
                    return self.rank(e.args[0])
                if last in ("ravel", "hstack", "arange", "concatenate_not", "diag_not", "linspace", "flatnonzero") and e.args:
                    return 1 if last in ("ravel", "arange", "linspace", "flatnonzero") else None
                if last in ("eye", "identity", "outer"):
                    return 2
                if last in ("zeros", "ones", "empty", "full") and e.args:
                    a0 = e.args[0]
                    if isinstance(a0, (ast.Tuple, ast.List)):
                        return len(a0.elts)
                    if self.rank(a0) == 0:
                        return 1
                    return None
                if last in ("dot",) and len(e.args) == 2:
                    a, b = self.rank(e.args[0]), self.rank(e.args[1])
                    if a is None or b is None:
                        return None
                    if a == 0 or b == 0:
                        return max(a, b)
                    return a + b - 2
                if last in ("sum", "mean", "max", "min", "prod", "trace", "argmax", "argmin") and e.args:
                    if not e.keywords and len(e.args) == 1:
                        return 0
                    return None
                if last == "reshape" and len(e.args) >= 2:
                    return self._reshape_rank(e.args[1:])
                if last == "atleast_1d" and e.args:
                    r = self.rank(e.args[0])
                    return None if r is None else max(r, 1)
                if last == "atleast_2d" and e.args:
                    r = self.rank(e.args[0])
                    return None if r is None else max(r, 2)
                return None
            if isinstance(f, ast.Attribute):
                if last in ("ravel", "flatten"):
                    return 1
                if last == "reshape":
                    return self._reshape_rank(e.args)
                if last in ("copy", "astype", "conj", "round", "clip", "view", "transpose"):
                    return self.rank(f.value)
                if last == "diagonal":
                    r = self.rank(f.value)
                    return None if r is None else max(r - 1, 0)
                if last in ("sum", "mean", "max", "min", "prod", "trace", "item") and not e.args and not e.keywords:
                    return 0
                if last == "dot" and len(e.args) == 1:
                    a, b = self.rank(f.value), self.rank(e.args[0])
                    if a is None or b is None:
                        return None
                    if a == 0 or b == 0:
                        return max(a, b)
                    return a + b - 2
            if isinstance(f, ast.Name) and f.id in ("float", "int", "len", "abs", "bool"):
                return 0
            return None
        return None

    def _reshape_rank(self, args):
        if len(args) == 1:
            a = args[0]
            if isinstance(a, (ast.Tuple, ast.List)):
                return len(a.elts)
            if isinstance(a, ast.BinOp) and isinstance(a.op, ast.Add):
                # (n,) + self.shape : unknown length
                return None
            r = self.rank(a)
            if r == 0:
                return 1
            return None
        return len(args)


def alias_class(project, finfo, expr, recv_cls=None, _depth=0):
    """Classify the array an expression evaluates to, relative to attributes of self."""
    cls = recv_cls if recv_cls is not None else finfo.cls
    defs = Defs(finfo.node)

    def go(e, depth):
        if depth > 10 or e is None:
            return UNKNOWN
        if isinstance(e, ast.Name):
            v = defs.single(e.id)
            if v is not None and isinstance(v, ast.AST):
                return go(v, depth + 1)
            return UNKNOWN
        if isinstance(e, ast.Attribute):
            if isinstance(e.value, ast.Name) and e.value.id == "self":
                if cls is not None:
                    m = project.lookup(cls, e.attr)
                    if m is not None and m.is_property():
                        rs = set()
                        for n in walk_own(m.node):
                            if isinstance(n, ast.Return) and n.value is not None:
                                rs.add(alias_class(project, m, n.value, cls, depth + 1))
                        if len(rs) == 1:
                            return rs.pop()
                        if SAME in rs:
                            return SAME
                        return UNKNOWN
                return SAME
            if e.attr == "T":
                b = go(e.value, depth + 1)
                return VIEW if b in (SAME, VIEW) else b
            b = go(e.value, depth + 1)
            # attribute of an object held by self (self.mask.mask): still the stored array
            if b == SAME:
                return SAME
            return UNKNOWN
        if isinstance(e, ast.Subscript):
            b = go(e.value, depth + 1)
            if b in (SAME, VIEW):
                sl = e.slice
                items = sl.elts if isinstance(sl, ast.Tuple) else [sl]
                if any(isinstance(i, (ast.List, ast.Compare)) for i in items):
                    return FRESH
                if all(isinstance(i, (ast.Slice, ast.Constant, ast.UnaryOp)) for i in items):
                    return VIEW
                return UNKNOWN
            return b
        if isinstance(e, ast.Call):
            f = e.func
            d = dotted(f) or ""
            last = f.attr if isinstance(f, ast.Attribute) else getattr(f, "id", None)
            if d.startswith(("np.", "numpy.")):
                if last in ("asarray", "asanyarray", "atleast_1d", "atleast_2d", "require", "ascontiguousarray") and e.args:
                    return go(e.args[0], depth + 1)
                if last in ("ravel", "reshape", "squeeze", "transpose", "diagonal") and e.args:
                    b = go(e.args[0], depth + 1)
                    return VIEW if b in (SAME, VIEW) else b
                if last == "array" and e.args:
                    for k in e.keywords:
                        if k.arg == "copy" and isinstance(k.value, ast.Constant) and k.value.value is False:
                            return go(e.args[0], depth + 1)
                    return FRESH
                return FRESH
            if isinstance(f, ast.Attribute):
                if last in ("ravel", "reshape", "view", "squeeze", "transpose", "diagonal", "swapaxes"):
                    b = go(f.value, depth + 1)
                    return VIEW if b in (SAME, VIEW) else b
                if last in ("copy", "flatten", "astype", "tolist"):
                    return FRESH
                return UNKNOWN
            return UNKNOWN
        if isinstance(e, (ast.BinOp, ast.UnaryOp, ast.Compare, ast.List, ast.Tuple, ast.Constant, ast.ListComp)):
            return FRESH
        if isinstance(e, ast.IfExp):
            a, b = go(e.body, depth + 1), go(e.orelse, depth + 1)
            if SAME in (a, b):
                return SAME
            return a if a == b else UNKNOWN
        return UNKNOWN

    return go(expr, _depth)


# ------------------------------------------------------------------ truth tables
def eval_bool(expr, assignment, atom_key):
    """Evaluate a boolean expression built from not/and/or over atoms.
    atom_key(expr) -> hashable atom id or None;  assignment: atom id -> bool.
    Returns bool, or None if an unknown atom is met."""
    if isinstance(expr, ast.UnaryOp) and isinstance(expr.op, ast.Not):
        v = eval_bool(expr.operand, assignment, atom_key)
        return None if v is None else (not v)
    if isinstance(expr, ast.BoolOp):
        vals = [eval_bool(v, assignment, atom_key) for v in expr.values]
        if isinstance(expr.op, ast.And):
            if any(v is False for v in vals):
                return False
            if any(v is None for v in vals):
                return None
            return True
        if any(v is True for v in vals):
            return True
        if any(v is None for v in vals):
            return None
        return False
    if isinstance(expr, ast.Constant) and isinstance(expr.value, bool):
        return expr.value
    k = atom_key(expr)
    if k is None:
        return None
    return assignment.get(k)


def assignments(atoms):
    atoms = list(atoms)
    for vals in itertools.product([False, True], repeat=len(atoms)):
        yield dict(zip(atoms, vals))


def eval_signed(expr, assignment, atom):
    """Like eval_bool, for atom functions that return (key, polarity): `x is not None` is the atom `x is None` negated."""
    def key(e):
        a = atom(e)
        return None if a is None else a
    if isinstance(expr, ast.UnaryOp) and isinstance(expr.op, ast.Not):
        v = eval_signed(expr.operand, assignment, atom)
        return None if v is None else (not v)
    if isinstance(expr, ast.BoolOp):
        vals = [eval_signed(v, assignment, atom) for v in expr.values]
        if isinstance(expr.op, ast.And):
            return False if any(v is False for v in vals) else (None if any(v is None for v in vals) else True)
        return True if any(v is True for v in vals) else (None if any(v is None for v in vals) else False)
    if isinstance(expr, ast.Constant) and isinstance(expr.value, bool):
        return expr.value
    a = key(expr)
    if a is None:
        return None
    k, pol = a
    v = assignment.get(k)
    return None if v is None else (v if pol else not v)


def path_condition(guards, assignment, atom):
    """truth of a CFG path condition [(test, polarity)...] under an assignment; None if some atom is unknown"""
    out = True
    for t, pol in guards:
        v = eval_signed(t, assignment, atom)
        if v is None:
            return None
        if v != pol:
            out = False
    return out
