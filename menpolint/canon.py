"""Canonical form of a function definition, used to recognise a *behaviour-preserving rewrite* of a function the rules
were confirmed on.

The loader compares, for every function of the current tree, canon(current definition) with the canonical form recorded
for the same qualified name on the confirmed tree (confirmed.json).  If they are equal, the current definition is one of
the spellings below of the confirmed one, every verdict reached on the confirmed spelling carries over, and the rules are
shown the confirmed spelling (so that no rule has to know every way of writing the same thing).  If they differ, the
current definition is analysed as it stands.  The deciding input is always the current source: a function whose meaning
changed can never compare equal.

Every step is semantics-preserving on its own (under the stated assumption for step 5), so canon(f) == canon(g) implies
f and g compute the same thing:

 1 docstrings dropped; arguments of exception constructors in `raise` and of warnings.warn dropped (message wording is not
   behaviour any property speaks about; which exception is raised under which condition is kept)
 2 calls of *new* private helpers (functions that do not exist on the confirmed tree: an extracted block) are inlined by
   parameter binding when the helper is a plain straight-line function with one trailing return
 3 tests in test positions in negation normal form (`not a == b` -> `a != b`, De Morgan), one polarity per if/else chosen by
   a total order on the two candidate tests, `else` after a branch that cannot fall through flattened, a leading guard
   `if t: return` folded into `if not t: <rest>` at function level
 4 copy propagation of single-assignment name-to-name copies
 5 single-assignment, single-use temporaries used by the next statement are inlined when nothing that is evaluated
   between the two evaluation points can observe or influence the difference (see _safe_to_inline)
 6 local variables, comprehension variables and exception names renamed in order of first binding
"""
import ast
import hashlib

PURE_CALL_ROOTS = ("np", "numpy", "math")
PURE_BUILTINS = {"OrderedDict", "defaultdict", "len", "range", "int", "float", "bool", "tuple", "list", "slice", "min", "max", "abs", "sorted", "isinstance", "str", "zip", "enumerate", "sum", "round", "repr", "type", "dict", "set", "frozenset", "reversed", "any", "all", "divmod"}
TERMINATORS = (ast.Return, ast.Raise, ast.Continue, ast.Break)
NEG = {ast.Eq: ast.NotEq, ast.NotEq: ast.Eq, ast.Is: ast.IsNot, ast.IsNot: ast.Is, ast.In: ast.NotIn, ast.NotIn: ast.In}


def clone(node):
    return ast.parse(ast.unparse(node)).body[0]


def dotted(n):
    parts = []
    while isinstance(n, ast.Attribute):
        parts.append(n.attr)
        n = n.value
    if isinstance(n, ast.Name):
        parts.append(n.id)
        return ".".join(reversed(parts))
    return None


def _is_text(e):
    """an expression that is certainly a piece of message text"""
    if isinstance(e, ast.Constant) and isinstance(e.value, str):
        return True
    if isinstance(e, ast.JoinedStr):
        return True
    if isinstance(e, ast.Call) and isinstance(e.func, ast.Attribute) and e.func.attr == "format" and _is_text(e.func.value):
        return True
    if isinstance(e, ast.BinOp) and isinstance(e.op, (ast.Mod, ast.Add)) and (_is_text(e.left) or _is_text(e.right)):
        return True
    return False


def _no_wording(e):
    """the wording of an error / warning message is not behaviour any property speaks about; anything else an exception
    carries (a mask, an index) is kept"""
    return ast.Constant(value="") if _is_text(e) else e


# ------------------------------------------------------------------ step 1
def strip_docs(fn):
    for n in ast.walk(fn):
        if isinstance(n, (ast.FunctionDef, ast.AsyncFunctionDef, ast.ClassDef)):
            if n.body and isinstance(n.body[0], ast.Expr) and isinstance(n.body[0].value, ast.Constant) and isinstance(n.body[0].value.value, str):
                n.body = n.body[1:] or [ast.Pass()]
        if isinstance(n, ast.Raise) and isinstance(n.exc, ast.Call) and isinstance(n.exc.func, (ast.Name, ast.Attribute)):
            n.exc.args = [_no_wording(a) for a in n.exc.args]
        if isinstance(n, ast.Call) and dotted(n.func) in ("warnings.warn", "warn") and n.args:
            n.args = [_no_wording(n.args[0])] + n.args[1:]


# ------------------------------------------------------------------ scopes
class _Scope(ast.NodeVisitor):
    """names bound / loaded in a function's own scope (nested function, lambda and class bodies are separate scopes;
    comprehension targets are separate too)"""

    def __init__(self, fn):
        self.stores = {}
        self.loads = {}
        self.nested_names = set()
        self.comp_names = set()
        self.declared = set()
        self.imports = set()
        self.order = []
        a = fn.args
        self.params = [x.arg for x in a.posonlyargs + a.args + a.kwonlyargs] + ([a.vararg.arg] if a.vararg else []) + ([a.kwarg.arg] if a.kwarg else [])
        for d in a.defaults + [k for k in a.kw_defaults if k is not None]:
            pass
        for st in fn.body:
            self.visit(st)

    def _store(self, name, node):
        self.stores.setdefault(name, []).append(node)
        if name not in self.order:
            self.order.append(name)

    def visit_Name(self, n):
        if isinstance(n.ctx, ast.Store):
            self._store(n.id, n)
        elif isinstance(n.ctx, ast.Del):
            self._store(n.id, n)
        else:
            self.loads.setdefault(n.id, []).append(n)

    def visit_AugAssign(self, n):
        self.visit(n.value)
        if isinstance(n.target, ast.Name):
            self._store(n.target.id, n.target)
            self.loads.setdefault(n.target.id, []).append(n.target)
        else:
            self.visit(n.target)

    def visit_ExceptHandler(self, n):
        if n.type is not None:
            self.visit(n.type)
        if n.name:
            self._store(n.name, n)
        for s in n.body:
            self.visit(s)

    def visit_Global(self, n):
        self.declared.update(n.names)

    visit_Nonlocal = visit_Global

    def visit_Import(self, n):
        for a in n.names:
            nm = (a.asname or a.name).split(".")[0]
            self.imports.add(nm)
            self._store(nm, n)

    visit_ImportFrom = visit_Import

    def _nested(self, n):
        for x in ast.walk(n):
            if isinstance(x, ast.Name):
                self.nested_names.add(x.id)
            elif isinstance(x, ast.arg):
                self.nested_names.add(x.arg)

    def visit_FunctionDef(self, n):
        self._store(n.name, n)
        self._nested(n)

    visit_AsyncFunctionDef = visit_FunctionDef

    def visit_ClassDef(self, n):
        self._store(n.name, n)
        self._nested(n)

    def visit_Lambda(self, n):
        self._nested(n)

    def _comp(self, n):
        # the first iterable is evaluated in the enclosing scope; everything else belongs to the comprehension
        self.visit(n.generators[0].iter)
        targets = set()
        for g in n.generators:
            for x in ast.walk(g.target):
                if isinstance(x, ast.Name):
                    targets.add(x.id)
        first = {id(x) for x in ast.walk(n.generators[0].iter)}
        for x in ast.walk(n):
            if isinstance(x, ast.Name) and x.id not in targets and id(x) not in first:
                if isinstance(x.ctx, ast.Load):
                    self.loads.setdefault(x.id, []).append(x)
                    self.comp_names.add(x.id)  # evaluated possibly many times

    visit_ListComp = visit_SetComp = visit_DictComp = visit_GeneratorExp = _comp

    def locals(self):
        return [n for n in self.order if n not in self.declared and n not in self.params]


# ------------------------------------------------------------------ step 3
def _neg(t):
    """negation of a test, pushed inward"""
    if isinstance(t, ast.UnaryOp) and isinstance(t.op, ast.Not):
        return nnf(t.operand)
    if isinstance(t, ast.BoolOp):
        op = ast.Or() if isinstance(t.op, ast.And) else ast.And()
        return ast.BoolOp(op=op, values=[_neg(v) for v in t.values])
    if isinstance(t, ast.Compare) and len(t.ops) == 1 and type(t.ops[0]) in NEG:
        return ast.Compare(left=t.left, ops=[NEG[type(t.ops[0])]()], comparators=t.comparators)
    if isinstance(t, ast.Constant) and isinstance(t.value, bool):
        return ast.Constant(value=not t.value)
    return ast.UnaryOp(op=ast.Not(), operand=nnf(t))


def nnf(t):
    if isinstance(t, ast.UnaryOp) and isinstance(t.op, ast.Not):
        return _neg(t.operand)
    if isinstance(t, ast.BoolOp):
        vals = []
        for v in t.values:
            v = nnf(v)
            if isinstance(v, ast.BoolOp) and type(v.op) is type(t.op):
                vals.extend(v.values)  # associativity: same evaluation order, same short-circuit
            else:
                vals.append(v)
        return ast.BoolOp(op=t.op, values=vals)
    return t


def _nots(t):
    return sum(1 for x in ast.walk(t) if isinstance(x, ast.UnaryOp) and isinstance(x.op, ast.Not)) + \
        sum(1 for x in ast.walk(t) if isinstance(x, ast.Compare) and any(isinstance(o, (ast.NotEq, ast.IsNot, ast.NotIn)) for o in x.ops))


def _terminates(body):
    if not body:
        return False
    last = body[-1]
    if isinstance(last, TERMINATORS):
        return True
    if isinstance(last, ast.If) and last.orelse:
        return _terminates(last.body) and _terminates(last.orelse)
    return False


def _key(t):
    return (_nots(t), len(ast.unparse(t)), ast.unparse(t))


def _names_only(e):
    return all(isinstance(x, (ast.Name, ast.Tuple, ast.Load, ast.Constant)) for x in ast.walk(e))


def _stores_names(stmts, names):
    for s_ in stmts:
        for x in ast.walk(s_):
            if isinstance(x, ast.Name) and isinstance(x.ctx, (ast.Store, ast.Del)) and x.id in names:
                return True
    return False


def _split_ok(st):
    tg = [x.id for x in st.targets[0].elts]
    for j, e in enumerate(st.value.elts):
        names = {x.id for x in ast.walk(e) if isinstance(x, ast.Name)}
        if names & set(tg[:j]):
            return False
        if any(isinstance(x, (ast.Call,)) and not _pure(x) for x in ast.walk(e)) and j > 0:
            return False  # an impure later element could observe the earlier assignment only through state, keep it simple
    return True


def reduce_to_loop(fn):
    """x = reduce(lambda a, b: E, seq, init)   ->   x = init ; for b in seq: x = E[a := x]      (the definition of reduce);
    without init and with a literal sequence the first element is the start value"""
    did = False
    k = 0
    for body in _blocks(fn):
        i = 0
        while i < len(body):
            st = body[i]
            call = st.value if isinstance(st, (ast.Assign, ast.Return)) and isinstance(st.value, ast.Call) else None
            if call is not None and dotted(call.func) in ("reduce", "functools.reduce") and not call.keywords and 2 <= len(call.args) <= 3 and isinstance(call.args[0], ast.Lambda):
                lam = call.args[0]
                la = lam.args
                if len(la.args) == 2 and not (la.vararg or la.kwarg or la.kwonlyargs or la.defaults):
                    acc_p, item_p = la.args[0].arg, la.args[1].arg
                    seq = call.args[1]
                    if len(call.args) == 3:
                        init = call.args[2]
                    elif isinstance(seq, (ast.List, ast.Tuple)) and seq.elts:
                        init, seq = seq.elts[0], ast.Tuple(elts=seq.elts[1:], ctx=ast.Load())
                    else:
                        i += 1
                        continue
                    k += 1
                    acc, item = "__r%d" % k, "__i%d" % k
                    e = _Rename({acc_p: acc, item_p: item}).visit(clone_expr(lam.body))
                    new = [ast.Assign(targets=[ast.Name(id=acc, ctx=ast.Store())], value=init, lineno=st.lineno),
                           ast.For(target=ast.Name(id=item, ctx=ast.Store()), iter=seq, body=[ast.Assign(targets=[ast.Name(id=acc, ctx=ast.Store())], value=e, lineno=st.lineno)], orelse=[], lineno=st.lineno)]
                    if isinstance(st, ast.Return):
                        new.append(ast.Return(value=ast.Name(id=acc, ctx=ast.Load())))
                    else:
                        st.value = ast.Name(id=acc, ctx=ast.Load())
                        new.append(st)
                    body[i:i + 1] = new
                    did = True
                    i += len(new)
                    continue
            i += 1
    if did:
        ast.fix_missing_locations(fn)
    return did


def ifexp_to_if(fn):
    """x = A if c else B  ->  if c: x = A else: x = B ;  return A if c else B  ->  if c: return A else: return B"""
    changed = False
    for body in _blocks(fn):
        for i, st in enumerate(body):
            if isinstance(st, ast.Return) and isinstance(st.value, ast.IfExp):
                e = st.value
                body[i] = ast.If(test=e.test, body=[ast.Return(value=e.body)], orelse=[ast.Return(value=e.orelse)])
                changed = True
            elif isinstance(st, ast.Assign) and isinstance(st.value, ast.IfExp) and len(st.targets) == 1 and isinstance(st.targets[0], ast.Name):
                e = st.value
                t = st.targets[0].id
                body[i] = ast.If(test=e.test, body=[ast.Assign(targets=[ast.Name(id=t, ctx=ast.Store())], value=e.body, lineno=st.lineno)],
                                 orelse=[ast.Assign(targets=[ast.Name(id=t, ctx=ast.Store())], value=e.orelse, lineno=st.lineno)])
                changed = True
    if changed:
        ast.fix_missing_locations(fn)
    return changed


def push_returns(fn):
    """<if / try whose every branch ends by assigning r> ; return r   ->   the same with `return <value>` in every branch
    (r is a local that is read nowhere else)"""
    changed = False
    sc = _Scope(fn)
    for body in _blocks(fn):
        if len(body) >= 2 and isinstance(body[-1], ast.Return) and isinstance(body[-1].value, ast.Name):
            r = body[-1].value.id
            st = body[-2]
            end_st = (getattr(st, "end_lineno", 0), getattr(st, "end_col_offset", 0))
            later_loads = [l for l in sc.loads.get(r, []) if _pos(l) > end_st]
            if r in sc.nested_names or r in sc.comp_names or len(later_loads) != 1 or _in_loop(fn, st):
                continue

            def leaves_assign(b):
                if not b:
                    return False
                last = b[-1]
                if isinstance(last, ast.Assign) and len(last.targets) == 1 and isinstance(last.targets[0], ast.Name) and last.targets[0].id == r:
                    return True
                if isinstance(last, ast.If) and last.orelse:
                    return leaves_assign(last.body) and leaves_assign(last.orelse)
                return False

            def rewrite(b):
                last = b[-1]
                if isinstance(last, ast.Assign):
                    b[-1] = ast.Return(value=last.value)
                else:
                    rewrite(last.body)
                    rewrite(last.orelse)
            if isinstance(st, ast.If) and not st.orelse and leaves_assign(st.body) and isinstance(st.body[-1], ast.Assign):
                # if c: ... ; r = e      ->   if c: ... ; return e          (the `return r` that follows stays for the other path)
                st.body[-1] = ast.Return(value=st.body[-1].value)
                changed = True
                continue
            if isinstance(st, ast.If) and st.orelse and leaves_assign(st.body) and leaves_assign(st.orelse):
                rewrite(st.body)
                rewrite(st.orelse)
                del body[-1]
                changed = True
            elif isinstance(st, ast.Try) and not st.finalbody and not st.orelse and leaves_assign(st.body) and all(leaves_assign(h.body) for h in st.handlers):
                rewrite(st.body)
                for h in st.handlers:
                    rewrite(h.body)
                del body[-1]
                changed = True
    if changed:
        ast.fix_missing_locations(fn)
    return changed


def dict_loops(fn):
    """d = OrderedDict() ; for t in it: d[k] = e    ->    d = OrderedDict([(k, e) for t in it])    (same keys, same order, later
    duplicates win in both)"""
    did = False
    for body in _blocks(fn):
        i = 0
        while i + 1 < len(body):
            a, lp = body[i], body[i + 1]
            if isinstance(a, ast.Assign) and len(a.targets) == 1 and isinstance(a.targets[0], ast.Name) and isinstance(a.value, ast.Call) and not a.value.args and not a.value.keywords \
                    and dotted(a.value.func) in ("OrderedDict", "dict", "collections.OrderedDict") and isinstance(lp, ast.For) and not lp.orelse and len(lp.body) == 1 \
                    and isinstance(lp.body[0], ast.Assign) and len(lp.body[0].targets) == 1 and isinstance(lp.body[0].targets[0], ast.Subscript) \
                    and isinstance(lp.body[0].targets[0].value, ast.Name) and lp.body[0].targets[0].value.id == a.targets[0].id:
                d_ = a.targets[0].id
                k_, e_ = lp.body[0].targets[0].slice, lp.body[0].value
                tnames = {x.id for x in ast.walk(lp.target) if isinstance(x, ast.Name)}
                mentions = any(isinstance(x, ast.Name) and x.id == d_ for part in (k_, e_, lp.iter) for x in ast.walk(part))
                later = [x for st in body[i + 2:] for x in ast.walk(st) if isinstance(x, ast.Name) and x.id in tnames]
                sc = _Scope(fn)
                if not mentions and not later and all(len(sc.stores.get(t_, [])) == 1 for t_ in tnames) and not any(t_ in sc.nested_names or t_ in sc.comp_names for t_ in tnames):
                    comp = ast.ListComp(elt=ast.Tuple(elts=[k_, e_], ctx=ast.Load()), generators=[ast.comprehension(target=lp.target, iter=lp.iter, ifs=[], is_async=0)])
                    body[i:i + 2] = [ast.Assign(targets=[ast.Name(id=d_, ctx=ast.Store())], value=ast.Call(func=a.value.func, args=[comp], keywords=[]), lineno=a.lineno)]
                    ast.fix_missing_locations(fn)
                    did = True
                    continue
            i += 1
    return did


def _is_none_return(st):
    return isinstance(st, ast.Return) and (st.value is None or (isinstance(st.value, ast.Constant) and st.value.value is None))


def canon_block(body, tail=False):
    """canonical statement list (recursive).  `tail`: falling off the end of this list ends the function."""
    out = []
    body = [s for s in body if not isinstance(s, ast.Pass)]
    i = 0
    while i < len(body):
        st = body[i]
        rest = body[i + 1:]
        if isinstance(st, ast.If):
            t = nnf(st.test)
            A = [s for s in st.body if not isinstance(s, ast.Pass)]
            B = [s for s in st.orelse if not isinstance(s, ast.Pass)]
            if A and B:
                if _terminates(A):  # else after a branch that cannot fall through
                    rest, B = B + rest, []
                elif _terminates(B):
                    t, rest, A, B = _neg(t), A + rest, B, []
            if not A and B:
                t, A, B = _neg(t), B, []
            if A and not B and rest and _terminates(A) and _terminates(rest):
                # if t: A(no fall-through) ; rest(no fall-through)   ==   if not t: rest ; A      -- one canonical polarity
                tn = _neg(t)
                if _key(tn) < _key(t):
                    t, A, rest = tn, rest, A
            body = body[:i + 1] + rest
            if not A and not B:
                out.append(ast.Expr(value=t))  # the test is still evaluated
                i += 1
                continue
            last = not rest
            if not B and len(A) == 1 and isinstance(A[0], ast.Return) and A[0].value is not None and rest and isinstance(rest[-1], ast.Return) \
                    and rest[-1].value is not None and ast.unparse(rest[-1].value) == ast.unparse(A[0].value) and _names_only(A[0].value) \
                    and not _stores_names(rest[:-1], {x.id for x in ast.walk(A[0].value) if isinstance(x, ast.Name)}) and not _has_return(rest[:-1]):
                # if t: return R ; rest ; return R   ==   if not t: rest ; return R      (R: plain names that `rest` does not re-bind)
                inner = canon_block(rest[:-1], False)
                if inner:
                    out.append(ast.If(test=_neg(t), body=inner, orelse=[]))
                else:
                    out.append(ast.Expr(value=t))
                out.append(rest[-1])
                return out
            if not B and A and isinstance(A[-1], ast.Return) and A[-1].value is not None and rest and isinstance(rest[0], ast.Return) and rest[0].value is not None \
                    and ast.unparse(rest[0].value) == ast.unparse(A[-1].value) and len(A) > 1:
                # if t: stmts ; return R      followed by      return R     ->  the inner return is redundant
                A = A[:-1]
            if tail and not B and len(A) == 1 and _is_none_return(A[0]) and rest:
                # guard clause:  if t: return ; rest   ==   if not t: rest      (falling off `rest` ends the function)
                inner = canon_block(rest, True)
                if inner:
                    out.append(ast.If(test=_neg(t), body=inner, orelse=[]))
                else:
                    out.append(ast.Expr(value=t))
                return out
            A = canon_block(A, tail and last)
            B = canon_block(B, tail and last)
            if not A and not B:
                out.append(ast.Expr(value=t))
                i += 1
                continue
            if not A:
                t, A, B = _neg(t), B, []
            if A and B:
                tn = _neg(t)
                if _key(tn) < _key(t):
                    t, A, B = tn, B, A
            out.append(ast.If(test=t, body=A, orelse=B))
            i += 1
            continue
        if isinstance(st, (ast.For, ast.AsyncFor)):
            st.body = canon_block(st.body) or [ast.Pass()]
            st.orelse = canon_block(st.orelse)
        elif isinstance(st, ast.While):
            st.test = nnf(st.test)
            st.body = canon_block(st.body) or [ast.Pass()]
            st.orelse = canon_block(st.orelse)
        elif isinstance(st, (ast.With, ast.AsyncWith)):
            st.body = canon_block(st.body) or [ast.Pass()]
        elif isinstance(st, ast.Try):
            st.body = canon_block(st.body) or [ast.Pass()]
            for h in st.handlers:
                h.body = canon_block(h.body) or [ast.Pass()]
            st.orelse = canon_block(st.orelse)
            st.finalbody = canon_block(st.finalbody)
        elif isinstance(st, ast.Assert):
            st.test = nnf(st.test)
            st.msg = None
        elif isinstance(st, (ast.FunctionDef, ast.AsyncFunctionDef)):
            st.body = canon_block(st.body, True) or [ast.Pass()]
        elif isinstance(st, ast.Assign) and len(st.targets) == 1 and isinstance(st.targets[0], ast.Tuple) and isinstance(st.value, ast.Tuple) \
                and len(st.targets[0].elts) == len(st.value.elts) and all(isinstance(x, ast.Name) for x in st.targets[0].elts) \
                and len({x.id for x in st.targets[0].elts}) == len(st.targets[0].elts) and _split_ok(st):
            # a, b = e1, e2  where no later right-hand side reads an earlier target: the same as  a = e1 ; b = e2
            for tg, vl in zip(st.targets[0].elts, st.value.elts):
                out.append(ast.Assign(targets=[ast.Name(id=tg.id, ctx=ast.Store())], value=vl, lineno=getattr(st, "lineno", 1)))
            i += 1
            continue
        if isinstance(st, ast.Assign) and len(st.targets) == 1 and isinstance(st.targets[0], ast.Name) and isinstance(st.value, ast.Name) and st.value.id == st.targets[0].id:
            i += 1
            continue
        out.append(st)
        i += 1
    if tail and out and _is_none_return(out[-1]):
        out = out[:-1]  # a trailing bare return is the same as falling off the end
    return out


class _IfExpTests(ast.NodeTransformer):
    def visit_IfExp(self, n):
        self.generic_visit(n)
        t = nnf(n.test)
        tn = _neg(t)
        if _key(tn) < _key(t):
            return ast.IfExp(test=tn, body=n.orelse, orelse=n.body)
        n.test = t
        return n

    def visit_comprehension(self, n):
        self.generic_visit(n)
        n.ifs = [nnf(t) for t in n.ifs]
        return n


# ------------------------------------------------------------------ purity
def _pure(e):
    for x in ast.walk(e):
        if isinstance(x, ast.Call):
            d = dotted(x.func)
            if d is None:
                # method call on an expression: array methods of the numeric kind only
                if isinstance(x.func, ast.Attribute) and x.func.attr in ("copy", "ravel", "reshape", "astype", "sum", "mean", "dot", "conj", "transpose", "tolist", "nonzero", "all", "any", "min", "max", "view", "flatten", "squeeze", "format", "split", "join", "get", "keys", "values", "items"):
                    continue
                return False
            root = d.split(".")[0]
            if root in PURE_CALL_ROOTS or d in PURE_BUILTINS:
                continue
            if "." in d and d.split(".")[-1] in ("copy", "ravel", "reshape", "astype", "sum", "mean", "dot", "conj", "transpose", "tolist", "nonzero", "all", "any", "min", "max", "view", "flatten", "squeeze", "format", "split", "join", "get", "keys", "values", "items"):
                continue
            return False
        if isinstance(x, (ast.Await, ast.Yield, ast.YieldFrom, ast.NamedExpr)):
            return False
    return True


def _trivial(e):
    if isinstance(e, (ast.Name, ast.Constant)):
        return True
    if isinstance(e, ast.Call) and isinstance(e.func, ast.Name) and e.func.id == "type" and len(e.args) == 1 and isinstance(e.args[0], ast.Name) and not e.keywords:
        return True
    if isinstance(e, ast.Attribute):
        return _trivial(e.value)
    return False


def _eval_before(root, target):
    """sub-expressions of statement/expression `root` evaluated before the Name node `target`; None if `target` sits in a
    position that is evaluated conditionally, repeatedly, or later (short-circuit operand, comprehension, lambda, loop body)"""
    path = []

    def find(n, acc):
        if n is target:
            path.extend(acc)
            return True
        for c in ast.iter_child_nodes(n):
            if find(c, acc + [n]):
                return True
        return False
    if not find(root, []):
        return None
    before = []
    chain = path + [target]
    for parent, child in zip(chain, chain[1:]):
        if isinstance(parent, (ast.ListComp, ast.SetComp, ast.DictComp)):
            if parent.generators and parent.generators[0] is child:
                continue  # the first iterable is evaluated once, first, in the enclosing scope
            return None
        if isinstance(parent, ast.comprehension):
            if parent.iter is child:
                continue
            return None
        if isinstance(parent, (ast.Lambda, ast.GeneratorExp, ast.FunctionDef, ast.AsyncFunctionDef, ast.ClassDef)):
            return None
        if isinstance(parent, ast.BoolOp):
            if parent.values[0] is not child:
                return None
            continue
        if isinstance(parent, ast.IfExp):
            if parent.test is not child:
                return None
            continue
        if isinstance(parent, ast.Compare):
            if parent.left is child:
                continue
            if parent.comparators[0] is child and len(parent.comparators) == 1:
                before.append(parent.left)
                continue
            return None
        if isinstance(parent, ast.Call):
            order = [parent.func] + list(parent.args) + list(parent.keywords)
        elif isinstance(parent, ast.BinOp):
            order = [parent.left, parent.right]
        elif isinstance(parent, ast.Subscript):
            order = [parent.value, parent.slice]
        elif isinstance(parent, ast.Assign):
            order = [parent.value] + list(parent.targets)
        elif isinstance(parent, ast.AugAssign):
            order = [parent.target, parent.value]
        elif isinstance(parent, ast.AnnAssign):
            order = [parent.value, parent.target] if parent.value is not None else [parent.target]
        elif isinstance(parent, (ast.Tuple, ast.List, ast.Set)):
            order = list(parent.elts)
        elif isinstance(parent, ast.Dict):
            order = [x for kv in zip(parent.keys, parent.values) for x in kv if x is not None]
        elif isinstance(parent, ast.Slice):
            order = [x for x in (parent.lower, parent.upper, parent.step) if x is not None]
        elif isinstance(parent, ast.JoinedStr):
            order = list(parent.values)
        elif isinstance(parent, (ast.If,)):
            if parent.test is not child:
                return None
            order = [parent.test]
        elif isinstance(parent, (ast.For, ast.AsyncFor)):
            if parent.iter is not child:
                return None
            order = [parent.iter]
        elif isinstance(parent, (ast.With, ast.AsyncWith)):
            if child not in parent.items:
                return None
            order = list(parent.items)
        elif isinstance(parent, ast.withitem):
            order = [parent.context_expr]
        elif isinstance(parent, (ast.While, ast.Try, ast.ExceptHandler)):
            return None
        elif isinstance(parent, (ast.Return, ast.Expr, ast.Raise, ast.Attribute, ast.UnaryOp, ast.Starred, ast.keyword, ast.FormattedValue, ast.Delete, ast.Assert)):
            order = [c for c in ast.iter_child_nodes(parent) if isinstance(c, (ast.expr, ast.keyword))]
        else:
            return None
        for o in order:
            if o is child:
                break
            before.append(o.value if isinstance(o, ast.keyword) else o)
        else:
            return None  # the position of `child` in its parent is not understood
    return before


def _safe_to_inline(e, between):
    """`e` was evaluated just before the statement; after inlining it is evaluated after `between`.  That is unobservable
    when `between` is nothing but name / constant / attribute look-ups, or when neither side can have an effect
    (assumption: numpy / math / builtin constructors and the listed array methods are free of side effects)."""
    if all(_trivial(b) for b in between):
        return True
    return _pure(e) and all(_pure(b) for b in between)


class _Subst(ast.NodeTransformer):
    def __init__(self, name, expr, only=None):
        self.name, self.expr, self.only = name, expr, only
        self.n = 0

    def visit_Name(self, n):
        if n.id == self.name and isinstance(n.ctx, ast.Load) and (self.only is None or n is self.only):
            self.n += 1
            return clone_expr(self.expr)
        return n


def clone_target(t):
    return ast.parse(ast.unparse(t) + " = 0").body[0].targets[0]


def clone_expr(e):
    return ast.parse(ast.unparse(e), mode="eval").body


def _blocks(fn):
    """every statement list of the function's own scope"""
    out = []

    def rec(body):
        out.append(body)
        for st in body:
            for fld in ("body", "orelse", "finalbody"):
                b = getattr(st, fld, None)
                if isinstance(b, list) and b and isinstance(b[0], ast.stmt) and not isinstance(st, (ast.FunctionDef, ast.AsyncFunctionDef, ast.ClassDef)):
                    rec(b)
            for h in getattr(st, "handlers", []) or []:
                rec(h.body)
    rec(fn.body)
    return out


def fuse_unpack_stores(fn):
    """t1, t2 = E ; X1 = t1 ; X2 = t2      ->      X1, X2 = E        (each t read exactly once, stores in the same order)"""
    did = False
    sc = _Scope(fn)
    for body in _blocks(fn):
        i = 0
        while i < len(body):
            st = body[i]
            if isinstance(st, ast.Assign) and len(st.targets) == 1 and isinstance(st.targets[0], ast.Tuple) and all(isinstance(x, ast.Name) for x in st.targets[0].elts):
                names = [x.id for x in st.targets[0].elts]
                k = len(names)
                one = body[i + 1] if i + 1 < len(body) else None
                if isinstance(one, ast.Assign) and len(one.targets) == 1 and isinstance(one.targets[0], ast.Tuple) and isinstance(one.value, ast.Tuple) and len(one.targets[0].elts) == k \
                        and [getattr(x, "id", None) for x in one.value.elts] == names and len(set(names)) == k \
                        and all(len(sc.stores.get(n_, [])) == 1 and len(sc.loads.get(n_, [])) == 1 and n_ not in sc.nested_names and n_ not in sc.comp_names and n_ not in sc.params for n_ in names) \
                        and all((isinstance(t_, ast.Attribute) and _trivial(t_.value)) or isinstance(t_, ast.Name) for t_ in one.targets[0].elts):
                    body[i:i + 2] = [ast.Assign(targets=[one.targets[0]], value=st.value, lineno=st.lineno)]
                    ast.fix_missing_locations(fn)
                    did = True
                    i += 1
                    continue
                nxt = body[i + 1:i + 1 + k]
                if len(nxt) == k and len(set(names)) == k and all(len(sc.stores.get(n_, [])) == 1 and len(sc.loads.get(n_, [])) == 1 and n_ not in sc.nested_names and n_ not in sc.comp_names and n_ not in sc.params for n_ in names) \
                        and all(isinstance(s_, ast.Assign) and len(s_.targets) == 1 and isinstance(s_.value, ast.Name) and s_.value.id == n_ and not isinstance(s_.targets[0], ast.Tuple) for s_, n_ in zip(nxt, names)) \
                        and all(_trivial(s_.targets[0].value) if isinstance(s_.targets[0], ast.Attribute) else isinstance(s_.targets[0], ast.Name) for s_ in nxt):
                    new_t = ast.Tuple(elts=[clone_target(s_.targets[0]) for s_ in nxt], ctx=ast.Store())
                    body[i:i + 1 + k] = [ast.Assign(targets=[new_t], value=st.value, lineno=st.lineno)]
                    ast.fix_missing_locations(fn)
                    did = True
            i += 1
    return did


def inline_temps(fn):
    changed = True
    rounds = 0
    while changed and rounds < 60:
        rounds += 1
        changed = False
        fn = clone(fn)  # fresh positions
        sc = _Scope(fn)
        loc = set(sc.locals())
        for body in _blocks(fn):
            for i, st in enumerate(body):
                if not (isinstance(st, ast.Assign) and len(st.targets) == 1 and isinstance(st.targets[0], ast.Name)):
                    continue
                t = st.targets[0].id
                if t not in loc or t in sc.nested_names or t in sc.comp_names or t in sc.imports or len(sc.stores.get(t, [])) != 1:
                    continue
                loads = sc.loads.get(t, [])
                e = st.value
                if isinstance(e, (ast.Yield, ast.YieldFrom, ast.Await)):
                    continue
                # copy propagation: name-to-name copy of a single-binding name
                if isinstance(e, ast.Name) and (len(sc.stores.get(e.id, [])) == 0 and e.id in sc.params or (len(sc.stores.get(e.id, [])) == 1 and e.id not in sc.params and e.id in loc)) \
                        and e.id not in sc.nested_names and e.id not in sc.comp_names and loads and _after(fn, st, loads) and _defined_before(fn, sc, e.id, st):
                    for b2 in _blocks(fn):
                        for k, s2 in enumerate(b2):
                            b2[k] = _Subst(t, e).visit(s2)
                    body.remove(st)
                    changed = True
                    break
                # index arithmetic (a number computed from numbers that are bound exactly once): every use may spell it out
                if loads and len(loads) > 1 and len(ast.unparse(e)) <= 200 and _index_arith(e) and _after(fn, st, loads, allow_loop=True) \
                        and _names_fixed(sc, e) and _same_loop(fn, st, loads) and _elements_stable(fn, e):
                    for b2 in _blocks(fn):
                        for k, s2 in enumerate(b2):
                            if s2 is not st:
                                b2[k] = _Subst(t, e).visit(s2)
                    body.remove(st)
                    changed = True
                    break
                # a side-effect-free value that is only ever consumed by arithmetic / pure calls (never stored, returned, indexed
                # for writing or handed to other code): its identity cannot be observed, every use may spell it out
                if loads and 1 < len(loads) <= 4 and len(ast.unparse(e)) <= 200 and _pure(e) and not _reads_state(e) and _after(fn, st, loads, allow_loop=True) \
                        and _names_fixed(sc, e) and _same_loop(fn, st, loads) and _elements_stable(fn, e) and all(_consumed_purely(fn, l) for l in loads):
                    for b2 in _blocks(fn):
                        for k, s2 in enumerate(b2):
                            if s2 is not st:
                                b2[k] = _Subst(t, e).visit(s2)
                    body.remove(st)
                    changed = True
                    break
                # a name for an attribute chain of a fixed object (groups = new._landmark_groups): every use may read the chain
                # itself, provided nothing in the function can re-bind an attribute of that name and the object is not handed
                # to code that could (no call on it, no call receiving it, between the definition and the last use)
                if _attr_chain(e) and loads and _after(fn, st, loads) and _chain_stable(fn, sc, e, st, loads):
                    for b2 in _blocks(fn):
                        for k, s2 in enumerate(b2):
                            if s2 is not st:
                                b2[k] = _Subst(t, e).visit(s2)
                    body.remove(st)
                    changed = True
                    break
                if len(loads) != 1 or i + 1 >= len(body):
                    continue
                nxt = body[i + 1]
                if not any(x is loads[0] for x in ast.walk(nxt)):
                    continue
                between = _eval_before(nxt, loads[0])
                if between is None or not _safe_to_inline(e, between):
                    continue
                body[i + 1] = _Subst(t, e, only=loads[0]).visit(nxt)
                del body[i]
                changed = True
                break
            if changed:
                break
    return fn


IMMUTABLE_ATTRS = {"shape", "dtype", "ndim", "size", "n_dims", "n_points", "n_channels", "real", "imag"}


def _reads_state(e):
    """reads something that an intervening statement could change: an attribute (other than the immutable facts of an array /
    shape), or an element of a mutable object"""
    for x in ast.walk(e):
        if isinstance(x, ast.Attribute) and x.attr not in IMMUTABLE_ATTRS:
            # a method of a pure call (x.copy()) is fine, a data attribute is not
            par_is_call = False
            for y in ast.walk(e):
                if isinstance(y, ast.Call) and y.func is x:
                    par_is_call = True
            if not par_is_call:
                return True
        if isinstance(x, ast.Subscript) and not isinstance(x.value, (ast.Name, ast.Attribute)):
            continue
    return False


def _index_arith(e):
    """a number: names, numeric constants, + - * // %, unary minus, x.shape[k]  (and type(x): the class of an object is as fixed)"""
    if isinstance(e, ast.Name):
        return True
    if isinstance(e, ast.Call) and isinstance(e.func, ast.Name) and e.func.id == "type" and len(e.args) == 1 and isinstance(e.args[0], ast.Name) and not e.keywords:
        return True
    if isinstance(e, ast.Constant):
        return isinstance(e.value, (int, float)) and not isinstance(e.value, bool)
    if isinstance(e, ast.BinOp):
        return isinstance(e.op, (ast.Add, ast.Sub, ast.Mult, ast.FloorDiv, ast.Mod)) and _index_arith(e.left) and _index_arith(e.right)
    if isinstance(e, ast.UnaryOp):
        return isinstance(e.op, ast.USub) and _index_arith(e.operand)
    if isinstance(e, ast.Subscript):
        # the extent of an array along an axis does not change while the name stays bound to it
        if isinstance(e.value, ast.Attribute) and e.value.attr == "shape" and isinstance(e.value.value, ast.Name) and isinstance(e.slice, ast.Constant):
            return True
        # shape[k] of a shape-like name (the caller checks that no element of it is ever written)
        return isinstance(e.value, ast.Name) and isinstance(e.slice, ast.Constant) and isinstance(e.slice.value, int)
    if isinstance(e, ast.Call) and isinstance(e.func, ast.Name) and e.func.id == "slice" and not e.keywords:
        return all(_index_arith(a_) or (isinstance(a_, ast.Constant) and a_.value is None) for a_ in e.args)
    return False


def _consumed_purely(fn, load):
    """the value read at `load` flows straight into an arithmetic operator or a side-effect-free call (possibly through .T /
    read-only indexing / a method receiver) -- it is not stored, returned, put in a container or passed to unknown code"""
    parents = {}
    for n in ast.walk(fn):
        for c in ast.iter_child_nodes(n):
            parents[id(c)] = n
    cur = load
    while True:
        par = parents.get(id(cur))
        if par is None:
            return False
        if isinstance(par, ast.BinOp) or isinstance(par, ast.UnaryOp) or isinstance(par, ast.Compare):
            return True
        if isinstance(par, ast.Call):
            return _pure(ast.Call(func=par.func, args=[], keywords=[])) if (cur in par.args or par.func is cur or any(k.value is cur for k in par.keywords)) else False
        if isinstance(par, ast.Attribute) and isinstance(par.ctx, ast.Load):
            cur = par
            continue
        if isinstance(par, ast.Subscript) and isinstance(par.ctx, ast.Load) and par.value is cur:
            cur = par
            continue
        if isinstance(par, ast.Subscript) and par.slice is cur:
            return True  # used as an index: only read
        if isinstance(par, ast.Tuple) and isinstance(parents.get(id(par)), ast.Subscript) and parents[id(par)].slice is par:
            return True
        if isinstance(par, ast.keyword):
            cur = par
            continue
        return False


def _elements_stable(fn, e):
    """no element of an array that `e` indexes is written anywhere in the function"""
    bases = {x.value.id for x in ast.walk(e) if isinstance(x, ast.Subscript) and isinstance(x.value, ast.Name)}
    if not bases:
        return True
    for n in ast.walk(fn):
        if isinstance(n, ast.Subscript) and isinstance(n.ctx, (ast.Store, ast.Del)) and isinstance(n.value, ast.Name) and n.value.id in bases:
            return False
        if isinstance(n, ast.AugAssign) and isinstance(n.target, ast.Name) and n.target.id in bases:
            return False
        if isinstance(n, ast.Call) and any(k.arg in ("out", "output", "dst") for k in n.keywords):
            return False
    return True


def _names_fixed(sc, e):
    for x in ast.walk(e):
        if isinstance(x, ast.Name) and isinstance(x.ctx, ast.Load):
            n = len(sc.stores.get(x.id, []))
            if x.id in sc.params:
                if n != 0:
                    return False
            elif x.id in sc.stores and n != 1:
                return False
            if x.id in sc.nested_names:
                return False
    return True


def _innermost_loop(fn, node):
    best = None
    for n in ast.walk(fn):
        if isinstance(n, (ast.For, ast.While, ast.AsyncFor)) and any(x is node for x in ast.walk(n)) and n is not node:
            if best is None or any(x is n for x in ast.walk(best)):
                best = n
    return best


def _same_loop(fn, st, loads):
    lp = _innermost_loop(fn, st)
    return all(_innermost_loop(fn, l) is lp or (lp is not None and any(x is l for x in ast.walk(lp))) for l in loads) if lp is not None else all(_innermost_loop(fn, l) is None for l in loads)


def _attr_chain(e):
    n = 0
    while isinstance(e, ast.Attribute):
        e = e.value
        n += 1
    return n >= 1 and isinstance(e, ast.Name)


def _chain_stable(fn, sc, e, st, loads):
    attrs = set()
    x = e
    while isinstance(x, ast.Attribute):
        attrs.add(x.attr)
        x = x.value
    root = x.id
    if root in sc.nested_names or (len(sc.stores.get(root, [])) + (1 if root in sc.params else 0)) != 1:
        return False
    for n in ast.walk(fn):
        if isinstance(n, ast.Attribute) and isinstance(n.ctx, (ast.Store, ast.Del)) and n.attr in attrs:
            return False
        if isinstance(n, ast.Call) and dotted(n.func) in ("setattr", "delattr"):
            return False
    lo = (getattr(st, "end_lineno", st.lineno), getattr(st, "end_col_offset", 0))
    hi = max(_pos(l) for l in loads)
    for n in ast.walk(fn):
        if isinstance(n, ast.Attribute) and isinstance(n.ctx, (ast.Store, ast.Del)) and lo <= _pos(n) <= hi:
            r = n
            while isinstance(r, (ast.Attribute, ast.Subscript)):
                r = r.value
            if isinstance(r, ast.Name) and r.id == root:
                return False  # some attribute of the object is re-bound in between: a computed attribute may depend on it
        if isinstance(n, ast.Call) and lo <= _pos(n) <= hi:
            f = n.func
            r = f
            while isinstance(r, (ast.Attribute, ast.Subscript, ast.Call)):
                r = r.value if not isinstance(r, ast.Call) else r.func
            if isinstance(r, ast.Name) and r.id == root and isinstance(f, ast.Attribute):
                return False  # a method of the object itself is called in between
            for a_ in list(n.args) + [k.value for k in n.keywords]:
                if isinstance(a_, ast.Name) and a_.id == root:
                    return False
    return not _in_loop(fn, st)


def _pos(n):
    return (getattr(n, "lineno", 0), getattr(n, "col_offset", 0))


def _after(fn, st, loads, allow_loop=False):
    """all loads come textually after the defining statement (no loop-carried use before the definition)"""
    end = (getattr(st, "end_lineno", st.lineno), getattr(st, "end_col_offset", 0))
    return all(_pos(l) >= end for l in loads) and (allow_loop or not _in_loop(fn, st))


def _in_loop(fn, st):
    for n in ast.walk(fn):
        if isinstance(n, (ast.For, ast.While, ast.AsyncFor)) and any(x is st for x in ast.walk(n)):
            return True
    return False


def _defined_before(fn, sc, name, st):
    if name in sc.params:
        return True
    d = sc.stores[name][0]
    return _pos(d) < _pos(st) and not _in_loop(fn, st)


def loops_to_comprehensions(fn):
    """xs = [] ; for t in it: xs.append(e)   ->   xs = [e for t in it]     (same elements in the same order; only done when
    the loop variables are not used after the loop, e does not mention xs, and the loop has no else / break / continue)"""
    did = False
    for body in _blocks(fn):
        i = 0
        while i + 1 < len(body):
            a, lp = body[i], body[i + 1]
            if isinstance(a, ast.Assign) and len(a.targets) == 1 and isinstance(a.targets[0], ast.Name) and isinstance(a.value, ast.List) and not a.value.elts \
                    and isinstance(lp, ast.For) and not lp.orelse and len(lp.body) == 1 and (
                        (isinstance(lp.body[0], ast.Expr) and isinstance(lp.body[0].value, ast.Call))
                        or (isinstance(lp.body[0], ast.If) and not lp.body[0].orelse and len(lp.body[0].body) == 1 and isinstance(lp.body[0].body[0], ast.Expr) and isinstance(lp.body[0].body[0].value, ast.Call))):
                xs = a.targets[0].id
                flt = []
                inner_st = lp.body[0]
                if isinstance(inner_st, ast.If):
                    flt = [inner_st.test]
                    inner_st = inner_st.body[0]
                c = inner_st.value
                if isinstance(c.func, ast.Attribute) and c.func.attr == "append" and isinstance(c.func.value, ast.Name) and c.func.value.id == xs and len(c.args) == 1 and not c.keywords:
                    e = c.args[0]
                    tnames = {x.id for x in ast.walk(lp.target) if isinstance(x, ast.Name)}
                    mentions_xs = any(isinstance(x, ast.Name) and x.id == xs for x in ast.walk(e)) or any(isinstance(x, ast.Name) and x.id == xs for x in ast.walk(lp.iter)) \
                        or any(isinstance(x, ast.Name) and x.id == xs for t_ in flt for x in ast.walk(t_))
                    later = [x for st in body[i + 2:] for x in ast.walk(st) if isinstance(x, ast.Name) and x.id in tnames]
                    sc = _Scope(fn)
                    stores_elsewhere = any(len(sc.stores.get(t_, [])) != 1 for t_ in tnames)
                    if not mentions_xs and not later and not stores_elsewhere and not any(t_ in sc.nested_names or t_ in sc.comp_names for t_ in tnames) \
                            and not any(isinstance(x, (ast.Yield, ast.YieldFrom, ast.Await, ast.NamedExpr)) for x in ast.walk(e)):
                        comp = ast.ListComp(elt=e, generators=[ast.comprehension(target=lp.target, iter=lp.iter, ifs=flt, is_async=0)])
                        body[i:i + 2] = [ast.Assign(targets=[ast.Name(id=xs, ctx=ast.Store())], value=comp, lineno=a.lineno)]
                        ast.fix_missing_locations(fn)
                        did = True
                        continue
            i += 1
    return did


# ------------------------------------------------------------------ step 2
def _has_return(stmts):
    return any(isinstance(x, ast.Return) for s_ in stmts for x in ast.walk(s_))


def _tail_form(stmts):
    """Rewrite a statement list so that every `return` is the last statement of a leaf of an if/else tree that ends the
    list (`if c: return a` + rest  ->  `if c: return a else: rest`).  None when a return sits in a loop / try / with or when
    a branch containing a return can also fall through."""
    out = []
    for i, st in enumerate(stmts):
        if isinstance(st, ast.Return):
            return out + [st]  # anything after it is dead
        if not _has_return([st]):
            out.append(st)
            continue
        if isinstance(st, ast.Try) and not st.finalbody and not st.orelse and not stmts[i + 1:]:
            tb = _tail_form(st.body)
            hs = [_tail_form(h.body) for h in st.handlers]
            if tb is None or any(h is None for h in hs) or not _ends_in_return(tb) or not all(_ends_in_return(h) for h in hs):
                return None
            st.body = tb
            for h, hb in zip(st.handlers, hs):
                h.body = hb
            return out + [st]
        if not isinstance(st, ast.If):
            return None
        rest = stmts[i + 1:]
        A = _tail_form(st.body)
        if A is None:
            return None
        a_ret = bool(A) and (isinstance(A[-1], ast.Return) or (isinstance(A[-1], ast.If) and _all_paths_return(A[-1])))
        if st.orelse:
            B = _tail_form(st.orelse)
            if B is None:
                return None
            b_ret = bool(B) and (isinstance(B[-1], ast.Return) or (isinstance(B[-1], ast.If) and _all_paths_return(B[-1])))
            if a_ret and b_ret:
                return out + [ast.If(test=st.test, body=A, orelse=B)]
            if a_ret and not _has_return(B):
                R = _tail_form(rest)
                return None if R is None else out + [ast.If(test=st.test, body=A, orelse=B + R)]
            if b_ret and not _has_return(A):
                R = _tail_form(rest)
                return None if R is None else out + [ast.If(test=st.test, body=A + R, orelse=B)]
            return None
        if not a_ret:
            return None
        R = _tail_form(rest)
        if R is None:
            return None
        return out + [ast.If(test=st.test, body=A, orelse=R)]
    return out


def _ends_in_return(b):
    return bool(b) and (isinstance(b[-1], ast.Return) or (isinstance(b[-1], ast.If) and _all_paths_return(b[-1])))


def _all_paths_return(st):
    def lst(b):
        return bool(b) and (isinstance(b[-1], ast.Return) or (isinstance(b[-1], ast.If) and _all_paths_return(b[-1])))
    return isinstance(st, ast.If) and lst(st.body) and lst(st.orelse)


def _replace_returns(stmts, make):
    """leaves `return e` of a tail-form list -> make(e); a leaf without return -> make(None)"""
    if not stmts:
        return make(None)
    last = stmts[-1]
    if isinstance(last, ast.Return):
        return stmts[:-1] + make(last.value)
    if isinstance(last, ast.If) and _has_return([last]):
        last.body = _replace_returns(last.body, make)
        last.orelse = _replace_returns(last.orelse, make)
        return stmts
    if isinstance(last, ast.Try) and _has_return([last]):
        last.body = _replace_returns(last.body, make)
        for h in last.handlers:
            h.body = _replace_returns(h.body, make)
        return stmts
    return stmts + make(None)


def _eligible_helper(h):
    if h.decorator_list or h.args.vararg or h.args.kwarg or h.args.kwonlyargs or h.args.posonlyargs:
        return False
    for n in ast.walk(h):
        if n is not h and isinstance(n, (ast.FunctionDef, ast.AsyncFunctionDef, ast.ClassDef, ast.Yield, ast.YieldFrom, ast.Global, ast.Nonlocal, ast.Await, ast.Lambda)):
            return False
    return True


class _Rename(ast.NodeTransformer):
    def __init__(self, mapping):
        self.m = mapping

    def visit_Name(self, n):
        if n.id in self.m:
            return ast.copy_location(ast.Name(id=self.m[n.id], ctx=n.ctx), n)
        return n

    def visit_ExceptHandler(self, n):
        if n.name in self.m:
            n.name = self.m[n.name]
        self.generic_visit(n)
        return n

    def visit_arg(self, n):
        return n


def inline_helpers(fn, helpers, method_helpers, counter=None):
    """helpers: name -> FunctionDef (module level, new);  method_helpers: name -> FunctionDef (same class, new)"""
    if not helpers and not method_helpers:
        return fn
    counter = counter or [0]
    self_name = fn.args.args[0].arg if fn.args.args else None
    for _round in range(4):
        done = False
        sc = _Scope(fn)
        caller_locals = set(sc.locals()) | set(sc.params)
        for body in _blocks(fn):
            for i, st in enumerate(body):
                call = None
                if isinstance(st, (ast.Assign, ast.Return, ast.Expr)) and isinstance(st.value, ast.Call):
                    call = st.value
                if call is None:
                    continue
                h = None
                extra = []
                if isinstance(call.func, ast.Name) and call.func.id in helpers and call.func.id not in caller_locals:
                    h = helpers[call.func.id]
                elif isinstance(call.func, ast.Attribute) and isinstance(call.func.value, ast.Name) and call.func.value.id == self_name and call.func.attr in method_helpers:
                    h = method_helpers[call.func.attr]
                    extra = [ast.Name(id=self_name, ctx=ast.Load())]
                if h is None or h is fn or h.name == fn.name or not _eligible_helper(h):
                    continue
                if any(isinstance(a, ast.Starred) for a in call.args) or any(k.arg is None for k in call.keywords):
                    continue
                hc = clone(h)
                strip_docs(hc)
                params = [a.arg for a in hc.args.args]
                args = extra + list(call.args)
                if len(args) > len(params):
                    continue
                bound = {}
                order = []
                for p_, a_ in zip(params, args):
                    bound[p_] = a_
                    order.append(p_)
                ok = True
                for k in call.keywords:
                    if k.arg not in params or k.arg in bound:
                        ok = False
                        break
                    bound[k.arg] = k.value
                    order.append(k.arg)
                defaults = dict(zip(params[len(params) - len(hc.args.defaults):], hc.args.defaults))
                for p_ in params:
                    if p_ not in bound:
                        if p_ in defaults and isinstance(defaults[p_], ast.Constant):
                            bound[p_] = defaults[p_]
                            order.append(p_)
                        else:
                            ok = False
                if not ok:
                    continue
                hs = _Scope(hc)
                free = {n for n in hs.loads if n not in hs.stores and n not in hs.params}
                if free & caller_locals - ({self_name} if extra else set()):
                    continue
                counter[0] += 1
                pre = "__h%d_" % counter[0]
                mapping = {n: pre + n for n in list(hs.params) + hs.locals() if n not in hs.imports}
                if extra:
                    mapping[params[0]] = self_name  # self stays self
                tgt_names = {t_.id for t_ in st.targets if isinstance(t_, ast.Name)} if isinstance(st, ast.Assign) else set()
                direct = set()
                for p_ in order:
                    a_ = bound[p_]
                    if isinstance(a_, ast.Name) and a_.id in caller_locals and (p_ not in hs.stores or a_.id in tgt_names) and list(x.id for x in bound.values() if isinstance(x, ast.Name)).count(a_.id) == 1:
                        # the parameter *is* the caller's variable: never re-bound in the helper, or the caller overwrites it with the result anyway
                        mapping[p_] = a_.id
                        direct.add(p_)
                hc = _Rename(mapping).visit(hc)
                new = []
                for p_ in order:
                    if (extra and p_ == params[0]) or p_ in direct:
                        continue
                    new.append(ast.Assign(targets=[ast.Name(id=mapping[p_], ctx=ast.Store())], value=bound[p_], lineno=st.lineno))
                hb = _tail_form([s for s in hc.body if not isinstance(s, ast.Pass)])
                if hb is None:
                    counter[0] -= 1
                    continue

                def make(e, st=st):
                    val = e if e is not None else ast.Constant(value=None)
                    if isinstance(st, ast.Expr):
                        return [ast.Expr(value=val)] if e is not None else []
                    if isinstance(st, ast.Return):
                        return [ast.Return(value=val)]
                    return [ast.Assign(targets=[clone_target(t_) for t_ in st.targets], value=val, lineno=st.lineno)]
                new.extend(_replace_returns(hb, make))
                body[i:i + 1] = new
                ast.fix_missing_locations(fn)
                done = True
                break
            if done:
                break
        if not done:
            break
        # positions are needed by the later steps: re-parse
        fn = clone(fn)
    return fn


# ------------------------------------------------------------------ step 6
def alpha(fn, depth=0):
    # nested functions are scopes of their own
    for n in ast.walk(fn):
        if n is not fn and isinstance(n, (ast.FunctionDef, ast.AsyncFunctionDef)) and not getattr(n, "_alpha_done", False):
            n._alpha_done = True
            alpha(n, depth + 1)
    rename_comp_vars(fn, depth)
    sc = _Scope(fn)
    keep = sc.nested_names | sc.imports | set(sc.params)
    mapping = {}
    for n in sc.locals():
        if n in keep or n.startswith("_C"):
            continue
        st = sc.stores[n][0]
        if isinstance(st, (ast.FunctionDef, ast.AsyncFunctionDef, ast.ClassDef)):
            continue
        mapping[n] = "_L%s%d" % ("n" * depth, len(mapping))
    fn.body = [_RenameOwn(mapping).visit(s) for s in fn.body]
    return fn


def rename_comp_vars(fn, depth=0):
    """comprehension variables, each comprehension its own numbering (they never leak)"""
    k = [0]

    class C(ast.NodeTransformer):
        def _c(self, n):
            self.generic_visit(n)
            targets = []
            for g in n.generators:
                for x in ast.walk(g.target):
                    if isinstance(x, ast.Name) and x.id not in targets:
                        targets.append(x.id)
            m = {}
            for t in targets:
                m[t] = "_C%s%d" % ("n" * depth, k[0])
                k[0] += 1
            first_iter = n.generators[0].iter
            r = _Rename(m)
            for fld, val in list(ast.iter_fields(n)):
                if fld == "generators":
                    for gi, g in enumerate(val):
                        g.target = r.visit(g.target)
                        if gi > 0:
                            g.iter = r.visit(g.iter)
                        g.ifs = [r.visit(x) for x in g.ifs]
                elif isinstance(val, ast.AST):
                    setattr(n, fld, r.visit(val))
            n.generators[0].iter = first_iter
            return n
        visit_ListComp = visit_SetComp = visit_DictComp = visit_GeneratorExp = _c
    fn.body = [C().visit(s) for s in fn.body]
    return fn


class _RenameOwn(_Rename):
    """rename in the function's own scope only"""

    def visit_FunctionDef(self, n):
        return n

    visit_AsyncFunctionDef = visit_ClassDef = visit_Lambda = visit_FunctionDef


def hoist_imports(fn):
    """function-level imports are moved to the top of the function, sorted, once each (importing a module earlier, or
    unconditionally, does not change what the function computes)"""
    found = {}

    def rec(body, top):
        keep = []
        for st in body:
            if isinstance(st, (ast.Import, ast.ImportFrom)):
                found[ast.unparse(st)] = st
                continue
            for fld in ("body", "orelse", "finalbody"):
                b_ = getattr(st, fld, None)
                if isinstance(b_, list) and b_ and isinstance(b_[0], ast.stmt) and not isinstance(st, (ast.FunctionDef, ast.AsyncFunctionDef, ast.ClassDef)):
                    setattr(st, fld, rec(b_, False) or ([ast.Pass()] if fld == "body" else []))
            for h in getattr(st, "handlers", []) or []:
                h.body = rec(h.body, False) or [ast.Pass()]
            keep.append(st)
        return keep
    fn.body = rec(fn.body, True)
    fn.body = [found[k] for k in sorted(found)] + (fn.body or [ast.Pass()])
    ast.fix_missing_locations(fn)


def split_versions(fn):
    """A variable that is simply re-used for an unrelated value gets a name per value: a plain assignment `v = e` at the top
    level of a block starts a new version of v when the old value can no longer be read afterwards -- always at the top level
    of the function body, and inside a branch when v is not read after the branch ends and the branch is not inside a loop.
    (Two variables with disjoint live ranges and one re-used variable are the same program.)"""
    sc = _Scope(fn)
    cand = {n for n in sc.locals() if n not in sc.nested_names and n not in sc.comp_names and n not in sc.imports and len(sc.stores.get(n, [])) > 1}
    # a parameter that is re-bound is the same thing: the parameter is its first version
    cand |= {n for n in sc.params if n not in sc.nested_names and n not in sc.comp_names and len(sc.stores.get(n, [])) >= 1 and n not in ("self", "cls")}
    if not cand:
        return fn
    counter = {}

    def targets_of(st):
        if isinstance(st, ast.Assign) and len(st.targets) == 1:
            t = st.targets[0]
            if isinstance(t, ast.Name):
                return [t]
            if isinstance(t, ast.Tuple) and all(isinstance(x, ast.Name) for x in t.elts):
                return list(t.elts)
        return []

    def loads_after(name, node_end):
        return [l for l in sc.loads.get(name, []) if _pos(l) > node_end]

    def rename_in(nodes, name, new, skip_value_of=None):
        class R(ast.NodeTransformer):
            def visit_Name(self, n):
                if n.id == name:
                    n.id = new
                return n

            def visit_FunctionDef(self, n):
                return n
            visit_AsyncFunctionDef = visit_ClassDef = visit_Lambda = visit_FunctionDef
        for n_ in nodes:
            R().visit(n_)

    def walk_block(body, top, in_loop, block_end):
        for i, st in enumerate(body):
            for tg in targets_of(st):
                v = tg.id
                base = v.split("#")[0]
                if base not in cand or in_loop:
                    continue
                # first binding of the function keeps its name; later top-level re-definitions start a new version
                earlier_store = base in sc.params or any(_pos(x) < _pos(tg) for x in sc.stores.get(base, []) if x is not tg)
                if not earlier_store:
                    continue
                if not top and loads_after(base, block_end):
                    continue
                counter[base] = counter.get(base, 0) + 1
                new = "%s#%d" % (base, counter[base])
                # the right-hand side still reads the old version; everything after this statement in the block reads the new one
                tg.id = new
                rename_in(body[i + 1:], v, new)
            sub_loop = in_loop or isinstance(st, (ast.For, ast.While, ast.AsyncFor, ast.Try))  # a handler may read what the body assigned
            for fld in ("body", "orelse", "finalbody"):
                b_ = getattr(st, fld, None)
                if isinstance(b_, list) and b_ and isinstance(b_[0], ast.stmt) and not isinstance(st, (ast.FunctionDef, ast.AsyncFunctionDef, ast.ClassDef)):
                    end = (getattr(st, "end_lineno", 10 ** 9), getattr(st, "end_col_offset", 0))
                    walk_block(b_, False, sub_loop, end)
            for h in getattr(st, "handlers", []) or []:
                walk_block(h.body, False, sub_loop, (getattr(st, "end_lineno", 10 ** 9), getattr(st, "end_col_offset", 0)))
    walk_block(fn.body, True, False, (10 ** 9, 0))
    if not counter:
        return fn
    # '#' is not an identifier character: give the versions legal names
    for n in ast.walk(fn):
        if isinstance(n, ast.Name) and "#" in n.id:
            n.id = n.id.replace("#", "__v")
    return clone(fn)


def sort_pure_runs(fn):
    """adjacent assignments of side-effect-free values to distinct names, none of which reads another's target, may be
    written in any order: they are put in one (sorted by value) so that the order in which they were written does not matter"""
    for body in _blocks(fn):
        i = 0
        while i < len(body):
            j = i
            run = []
            while j < len(body):
                st = body[j]
                if isinstance(st, ast.Assign) and len(st.targets) == 1 and isinstance(st.targets[0], ast.Name) and _pure(st.value):
                    names = {x.id for x in ast.walk(st.value) if isinstance(x, ast.Name)}
                    if any(names & {r.targets[0].id} or st.targets[0].id in {x.id for x in ast.walk(r.value) if isinstance(x, ast.Name)} or r.targets[0].id == st.targets[0].id for r in run):
                        break
                    run.append(st)
                    j += 1
                else:
                    break
            if len(run) > 1:
                body[i:j] = sorted(run, key=lambda r: ast.unparse(r.value))
            i = max(j, i + 1)
    return fn


# ------------------------------------------------------------------ driver
class _Spellings(ast.NodeTransformer):
    """equivalent spellings (the same assumptions as menpolint.astutil.norm): a.dot(b) == np.dot(a, b) for arrays; a list or
    a tuple display handed to a numpy function; self.__class__ == type(self); x[slice(a, b)] == x[a:b]"""

    def visit_Call(self, n):
        self.generic_visit(n)
        f = n.func
        if isinstance(f, ast.Attribute) and f.attr == "dot" and len(n.args) == 1 and not n.keywords and not (isinstance(f.value, ast.Name) and f.value.id in ("np", "numpy")):
            return ast.Call(func=ast.Attribute(value=ast.Name(id="np", ctx=ast.Load()), attr="dot", ctx=ast.Load()), args=[f.value, n.args[0]], keywords=[])
        d = dotted(f) or ""
        if d.split(".")[0] in ("np", "numpy"):
            n.args = [ast.Tuple(elts=a.elts, ctx=ast.Load()) if isinstance(a, ast.List) else a for a in n.args]
            for k in n.keywords:
                if isinstance(k.value, ast.List) and k.arg in ("shape", "newshape", "axes", "axis"):
                    k.value = ast.Tuple(elts=k.value.elts, ctx=ast.Load())
        return n

    def visit_Attribute(self, n):
        self.generic_visit(n)
        if n.attr == "__class__" and isinstance(n.value, ast.Name) and isinstance(n.ctx, ast.Load):
            return ast.Call(func=ast.Name(id="type", ctx=ast.Load()), args=[n.value], keywords=[])
        return n

    def visit_Subscript(self, n):
        self.generic_visit(n)

        def unslice(x):
            if isinstance(x, ast.Call) and isinstance(x.func, ast.Name) and x.func.id == "slice" and not x.keywords and 1 <= len(x.args) <= 3:
                a_ = list(x.args)
                if len(a_) == 1:
                    return ast.Slice(lower=None, upper=a_[0], step=None)
                return ast.Slice(lower=a_[0], upper=a_[1], step=a_[2] if len(a_) == 3 else None)
            return x
        if isinstance(n.slice, ast.Tuple):
            n.slice = ast.Tuple(elts=[unslice(x) for x in n.slice.elts], ctx=ast.Load())
        else:
            n.slice = unslice(n.slice)
        return n

    def visit_Assert(self, n):
        return n

    def visit_UnaryOp(self, n):
        self.generic_visit(n)
        # not len(x)  ==  len(x) == 0     (len returns an int)
        if isinstance(n.op, ast.Not) and isinstance(n.operand, ast.Call) and isinstance(n.operand.func, ast.Name) and n.operand.func.id == "len" and len(n.operand.args) == 1:
            return ast.Compare(left=n.operand, ops=[ast.Eq()], comparators=[ast.Constant(value=0)])
        return n

    def visit_BoolOp(self, n):
        self.generic_visit(n)
        # isinstance(x, A) or isinstance(x, B)  ==  isinstance(x, (A, B))     (adjacent, same object)
        if isinstance(n.op, ast.Or):
            out = []
            for v in n.values:
                prev = out[-1] if out else None
                if self._isinst(v) and prev is not None and self._isinst(prev) and ast.unparse(prev.args[0]) == ast.unparse(v.args[0]):
                    a_, b_ = prev.args[1], v.args[1]
                    ea = list(a_.elts) if isinstance(a_, ast.Tuple) else [a_]
                    eb = list(b_.elts) if isinstance(b_, ast.Tuple) else [b_]
                    out[-1] = ast.Call(func=prev.func, args=[prev.args[0], ast.Tuple(elts=ea + eb, ctx=ast.Load())], keywords=[])
                else:
                    out.append(v)
            if len(out) == 1:
                return out[0]
            n.values = out
        return n

    @staticmethod
    def _isinst(v):
        return isinstance(v, ast.Call) and isinstance(v.func, ast.Name) and v.func.id == "isinstance" and len(v.args) == 2 and not v.keywords

    def visit_For(self, n):
        self.generic_visit(n)
        if isinstance(n.iter, ast.List):
            n.iter = ast.Tuple(elts=n.iter.elts, ctx=ast.Load())
        return n


class _SortKeywords(ast.NodeTransformer):
    """keyword arguments whose values are plain names / constants / attribute reads can be written in any order"""

    def visit_Call(self, n):
        self.generic_visit(n)
        if n.keywords and all(k.arg is not None and _trivial(k.value) for k in n.keywords):
            n.keywords = sorted(n.keywords, key=lambda k: k.arg)
        return n


def drop_asserts(fn):
    """assert statements are not behaviour (they vanish under -O); one whose test could have an effect is kept"""
    for body in _blocks(fn):
        body[:] = [s_ for s_ in body if not (isinstance(s_, ast.Assert) and _pure(s_.test))] or [ast.Pass()]


class _BindKeywords(ast.NodeTransformer):
    """f(a, b, k=c) -> f(p1=a, p2=b, k=c) for callees whose signature is known: argument order (hence evaluation order) is
    kept, only the way each argument is bound is spelled out"""

    def __init__(self, sigs, shadow):
        self.sigs, self.shadow = sigs, shadow

    def visit_Call(self, n):
        self.generic_visit(n)
        f = n.func
        ps, args = None, n.args
        skip = 0
        if isinstance(f, ast.Name) and f.id not in self.shadow:
            ps = self.sigs.get(f.id)
        elif isinstance(f, ast.Attribute) and isinstance(f.value, ast.Name) and f.value.id not in self.shadow and (f.value.id, f.attr) in self.sigs \
                and args and isinstance(args[0], ast.Name) and args[0].id in ("self", "cls"):
            ps = self.sigs[(f.value.id, f.attr)]
            skip = 1
        if ps is None:
            return n
        if not args[skip:]:
            return self._finish(n, f)
        rest = args[skip:]
        if any(isinstance(a, ast.Starred) for a in rest) or any(k.arg is None for k in n.keywords) or len(rest) > len(ps):
            return n
        named = {k.arg for k in n.keywords}
        if any(p_ in named for p_ in ps[:len(rest)]):
            return n
        n.keywords = [ast.keyword(arg=p_, value=a) for p_, a in zip(ps, rest)] + n.keywords
        n.args = args[:skip]
        return self._finish(n, f)

    def _finish(self, n, f):
        # an argument that spells out the callee's own constant default changes nothing
        dk = None
        if isinstance(f, ast.Name):
            dk = self.sigs.get(("#defaults", f.id))
        elif isinstance(f, ast.Attribute) and isinstance(f.value, ast.Name):
            dk = self.sigs.get(("#defaults", f.value.id, f.attr))
        if dk:
            n.keywords = [k for k in n.keywords if not (k.arg in dk and isinstance(k.value, ast.Constant) and repr(k.value.value) == dk[k.arg])]
        return n


def canonical(fn_node, helpers=None, method_helpers=None, sigs=None):
    fn = clone(fn_node)
    strip_docs(fn)
    if helpers or method_helpers:
        fn = inline_helpers(fn, helpers or {}, method_helpers or {})
    if sigs:
        sc0 = _Scope(fn)
        fn = _BindKeywords(sigs, set(sc0.params) | (set(sc0.locals()) - sc0.imports)).visit(fn)
        ast.fix_missing_locations(fn)
    hoist_imports(fn)
    drop_asserts(fn)
    fn = _Spellings().visit(fn)
    ast.fix_missing_locations(fn)
    rename_comp_vars(fn)
    reduce_to_loop(fn)
    ifexp_to_if(fn)
    fn = clone(fn)
    push_returns(fn)
    fn.body = canon_block(fn.body, True) or [ast.Pass()]
    ast.fix_missing_locations(fn)
    fn = _IfExpTests().visit(fn)
    ast.fix_missing_locations(fn)
    fn = clone(fn)
    fn = split_versions(fn)
    fn = inline_temps(fn)
    if fuse_unpack_stores(fn):
        fn = clone(fn)
    lc = loops_to_comprehensions(fn)
    dc = dict_loops(fn)
    if lc or dc:
        fn = inline_temps(clone(fn))
    for n in ast.walk(fn):  # the wording of a message may have reached its raise through a temporary
        if isinstance(n, ast.Raise) and isinstance(n.exc, ast.Call):
            n.exc.args = [_no_wording(a_) for a_ in n.exc.args]
    fn = sort_pure_runs(clone(fn))
    fn = _SortKeywords().visit(_Spellings().visit(fn))
    ast.fix_missing_locations(fn)
    fn = clone(fn)
    fn = alpha(fn)
    ast.fix_missing_locations(fn)
    text = ast.unparse(fn)
    return text


def digest(text):
    return hashlib.sha1(text.encode()).hexdigest()[:16]
