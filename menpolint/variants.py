"""In-memory variants of the *current* sources for the both-ways test.

A witness names a function (or class) of one module and a textual edit on the
*normalised* (ast.unparse) form of that definition; the edit must apply exactly
`count` times, otherwise the witness anchor moved (ANALYSIS-ERROR).  The edited
definition is re-parsed, spliced into the module tree and the whole module is
unparsed again, so nothing is ever written to disk.
"""
import ast
import copy

from .loader import AnalysisError, Project


class Witness:
    def __init__(self, wid, relpath, target, old, new, rule=None, construct=None, kind="W", count=1, note=""):
        """kind 'W': `rule` must fire (on a construct containing `construct`);
        kind 'T': silent twin, nothing may fire."""
        self.id = wid
        self.relpath = relpath
        self.target = target  # 'func' | 'Class.method' | 'Class' | '' (whole module)
        self.old = old
        self.new = new
        self.rule = rule
        self.construct = construct
        self.kind = kind
        self.count = count
        self.note = note


def _find(tree, parts):
    body = tree.body
    node = None
    for i, p in enumerate(parts):
        hit = None
        for n in body:
            if isinstance(n, (ast.FunctionDef, ast.AsyncFunctionDef, ast.ClassDef)) and n.name == p:
                hit = n
        if hit is None:
            return None, None
        parent_body = body
        node = hit
        body = hit.body
    return node, parent_body


def apply(project, w):
    """Return a variant Project with witness `w` applied."""
    mod = project.by_relpath.get(w.relpath)
    if mod is None:
        raise AnalysisError("witness %s: file %s missing" % (w.id, w.relpath))
    tree = copy.deepcopy(mod.raw_tree)
    if w.target:
        node, parent_body = _find(tree, w.target.split("."))
        if node is None:
            raise AnalysisError("witness %s: anchor %s not found in %s" % (w.id, w.target, w.relpath))
        text = ast.unparse(node)
        n = text.count(w.old)
        if n != w.count:
            raise AnalysisError(
                "witness %s: edit anchor %r occurs %d times in %s (expected %d)" % (w.id, w.old, n, w.target, w.count)
            )
        new_text = text.replace(w.old, w.new)
        try:
            new_nodes = ast.parse(new_text).body
        except SyntaxError as e:
            raise AnalysisError("witness %s: edited definition does not parse: %s" % (w.id, e))
        idx = parent_body.index(node)
        parent_body[idx:idx + 1] = new_nodes
        src = ast.unparse(tree)
    else:
        text = ast.unparse(tree)
        n = text.count(w.old)
        if n != w.count:
            raise AnalysisError("witness %s: edit anchor %r occurs %d times in module (expected %d)" % (w.id, w.old, n, w.count))
        src = text.replace(w.old, w.new)
    try:
        compile(src, w.relpath, "exec")
    except SyntaxError as e:
        raise AnalysisError("witness %s: variant does not compile: %s" % (w.id, e))
    return project.variant(w.relpath, src)
