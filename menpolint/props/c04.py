"""C04 -- pseudoinverse really inverts; alignment inverses swap source and target.

 R1 resolved pseudoinverse/copy per class (alignment nature first in the MRO)
 R2 alignment inverses exchange source and target and recompute their parameters
 R3 the generic inverse's constructor call binds to the class's __init__ (else the class must override)
 R4 closed forms: negated translation, reciprocal scales, inverted rotation; honest result class
 R5 an inverse built on a new source carries no state bound to the old source; other options are forwarded
 R6 has_true_inverse is a per-class constant, False only for interpolating splines
"""
import ast

from ..loader import AnalysisError, dotted, ClassInfo
from ..astutil import walk_own, calls_in, norm, Defs, leaves, stmt_of, kwarg, need, returns_of, bind_call, expand
from ..calls import CallCtx
from ..variants import Witness
from .common import only_raises, self_attr_stores

PROP = "C04"
EXPLANATION = (
    "For every invertible transform class the resolved pseudoinverse is examined: alignment variants of the homogeneous "
    "family resolve to HomogFamilyAlignment's inverse/copy (alignment base first), which swaps _source/_target on the copy "
    "and recomputes the matrix; TPS/PWA inverses construct their own class with source<-self.target and target<-self.source; "
    "where the generic Homogeneous.pseudoinverse is inherited its constructor call binds to the class's __init__; the "
    "closed forms negate the translation, take reciprocals of scales and invert the rotation matrix and return the "
    "class's own non-alignment type; an inverse fitted on a new source does not reuse state bound to the old source and "
    "forwards every other persisted option; has_true_inverse is a constant per class."
)
NOT_DECIDED = "two-sided inversion on all points of the domain, conditioning"
TECHNIQUE = "MRO resolution + constructor signature binding + argument provenance (static analysis)"

HOMOG_SPECIAL = {"Rotation", "Translation", "UniformScale", "NonUniformScale"}


def homog_classes(p):
    return p.descendants(p.cls("Homogeneous"))


def invertible_classes(p):
    inv = p.cls("Invertible")
    return [c for c in p.descendants(inv, include_self=False) if p.lookup(c, "pseudoinverse") is not None and not only_raises(p.lookup(c, "pseudoinverse").node)]


def rule_r1(p, res):
    r = res.rule("C04.R1", "alignment variants resolve pseudoinverse and copy to the alignment-aware versions")
    hfa = p.cls("HomogFamilyAlignment")
    n = 0
    for c in homog_classes(p):
        if hfa in c.mro:
            n += 1
            r.instance(c)
            for m in ("pseudoinverse", "copy"):
                f = p.lookup(c, m)
                r.check(f is not None and f.cls is hfa, c, c.node, "%s.%s resolves to %s, not to HomogFamilyAlignment.%s: the inverse would keep the "
                        "old source/target (base-class order must put the alignment first)" % (c.name, m, f.cls.name if f else None, m),
                        {"class": c.name, "method": m, "resolved": f.short if f else None})
            ana = p.lookup(c, "as_non_alignment")
            r.check(ana is not None and ana.cls is not hfa, c, c.node, "%s must define as_non_alignment" % c.name)
    if n < 5:
        raise AnalysisError("C04.R1: only %d homogeneous alignment classes found (floor 5)" % n)


def _swap_in_ctor(p, f, cls, r):
    """constructor call of the own class with source<-self.target, target<-self.source"""
    ctx = CallCtx(p, f, cls)
    defs = Defs(f.node)
    ctors = []
    for c in calls_in(f.node):
        k = ctx.class_constructed(c)
        if isinstance(k, ClassInfo) and (k is cls or cls in k.mro or k in cls.mro) and p.cls("Alignment") in k.mro:
            ctors.append((c, k))
    need(ctors, "C04.R2: %s builds no alignment of its own class" % f.short)
    for c, k in ctors:
        init = p.lookup(k, "__init__")
        b = bind_call(c, init, skip_self=True)
        s, t = b.get("source"), b.get("target")
        need(s is not None and t is not None, "C04.R2: cannot bind source/target in `%s`" % norm(c)[:60])
        ls, lt = leaves(s, defs), leaves(t, defs)
        src_ok = any(l.startswith("self.target") or l.startswith("self._target") for l in ls) and not any(l in ("self.source", "self._source") or l.startswith("self.source.points") for l in ls if "trilist" not in l)
        tgt_ok = any(l.startswith("self.source") or l.startswith("self._source") for l in lt) and not any(l.startswith("self.target") or l.startswith("self._target") for l in lt)
        # the source may legitimately reuse the *connectivity* of the old source (PWA): only its points must come from the target
        ls_pts = {l for l in ls if "trilist" not in l}
        src_ok = any(l.startswith(("self.target", "self._target")) for l in ls_pts) and not any(l.startswith(("self.source", "self._source")) for l in ls_pts)
        r.check(src_ok and tgt_ok, f, c, "%s: the inverse must be fitted from self.target to self.source (source <- %s, target <- %s)"
                % (f.short, norm(s)[:40], norm(t)[:40]), {"function": f.short, "source<-": norm(s)[:40], "target<-": norm(t)[:40]})
        for ret in returns_of(f.node):
            r.check(ret.value is c or (isinstance(ret.value, ast.Name) and defs.single(ret.value.id) is c), f, ret, "the rebuilt alignment must be what is returned")
        # a warp that is defined on a triangulation of its source must be inverted on the *same* triangulation
        if p.lookup(cls, "trilist") is not None:
            r.check(any(l in ("self.source.trilist", "self.trilist", "self._source.trilist") for l in ls), f, c,
                    "%s: the inverse warp's source `%s` does not reuse the forward warp's triangle list: the target landmarks would be re-triangulated and interior "
                    "points would not be mapped back" % (f.short, norm(s)[:50]), {"function": f.short, "source_reuses_trilist": True})
    return ctors


def rule_r2(p, res):
    r = res.rule("C04.R2", "alignment inverses exchange source and target and recompute their parameters")
    hfa = p.cls("HomogFamilyAlignment")
    f = p.own_method("HomogFamilyAlignment", "pseudoinverse")
    r.instance(f)
    defs = Defs(f.node)
    rets = returns_of(f.node)
    need(len(rets) == 1 and isinstance(rets[0].value, ast.Name), "C04.R2: HomogFamilyAlignment.pseudoinverse must return a local")
    cp = rets[0].value.id
    v = defs.single(cp)
    r.check(isinstance(v, ast.Call) and norm(v) == "self.copy()", f, rets[0], "the inverse must be built on a copy of self")
    swap = None
    for n in walk_own(f.node):
        if isinstance(n, ast.Assign) and isinstance(n.targets[0], ast.Tuple) and isinstance(n.value, ast.Tuple):
            t = [norm(x) for x in n.targets[0].elts]
            s = [norm(x) for x in n.value.elts]
            if sorted(t) == sorted(["%s._source" % cp, "%s._target" % cp]):
                swap = (n, t, s)
    if swap is None:
        # two-statement form
        st = {a: (s_, v_) for a, s_, v_ in _attr_stores_on(f.node, cp)}
        if "_source" in st and "_target" in st:
            def _res(e):
                """a local that was read off the copy / self before the stores (plain or tuple assignment)"""
                if isinstance(e, ast.Name):
                    for n_ in walk_own(f.node):
                        if isinstance(n_, ast.Assign) and len(n_.targets) == 1:
                            t_ = n_.targets[0]
                            if isinstance(t_, ast.Name) and t_.id == e.id:
                                return n_.value
                            if isinstance(t_, ast.Tuple) and isinstance(n_.value, ast.Tuple) and len(t_.elts) == len(n_.value.elts):
                                for a_, b_ in zip(t_.elts, n_.value.elts):
                                    if isinstance(a_, ast.Name) and a_.id == e.id:
                                        return b_
                return e
            src_v, tgt_v = str(norm(_res(st["_source"][1]))), str(norm(_res(st["_target"][1])))
            ok = src_v in ("self._target", "self.target", cp + "._target", cp + ".target") and tgt_v in ("self._source", "self.source", cp + "._source", cp + ".source")
            if ok and (src_v.startswith(cp + ".") or tgt_v.startswith(cp + ".")):
                # read off the copy itself: both reads must precede both stores
                reads = [n_.lineno for n_ in walk_own(f.node) if isinstance(n_, ast.Assign) and any(str(norm(x)) in (cp + "._target", cp + "._source") for x in ast.walk(n_.value))]
                ok = bool(reads) and max(reads) < min(st["_source"][0].lineno, st["_target"][0].lineno)
            r.check(ok, f, st["_source"][0], "inverse alignment must take source<-target and target<-source")
        else:
            r.violation(f, f.node, "the inverse of a homogeneous alignment does not exchange source and target")
    else:
        n, t, s = swap
        want = {"%s._source" % cp: ("%s._target" % cp, "self._target", "self.target"), "%s._target" % cp: ("%s._source" % cp, "self._source", "self.source")}
        r.check(all(s[i] in want[t[i]] for i in range(2)), f, n, "source/target assignment is not a swap: %s = %s" % (t, s), {"swap": norm(n)})
    hm = [(a, s_, v_) for a, s_, v_ in _attr_stores_on(f.node, cp) if a == "_h_matrix"]
    r.check(len(hm) == 1 and "call:self._h_matrix_pseudoinverse" in leaves(hm[0][2], defs), f, hm[0][1] if hm else f.node,
            "the inverse alignment's matrix must be recomputed with _h_matrix_pseudoinverse()")
    hp = p.own_method("Homogeneous", "_h_matrix_pseudoinverse")
    r.instance(hp)
    rr = returns_of(hp.node)
    r.check(len(rr) == 1 and norm(rr[0].value) in ("np.linalg.inv(self.h_matrix)", "np.linalg.inv(self._h_matrix)"), hp, hp.node,
            "_h_matrix_pseudoinverse must be the matrix inverse of h_matrix")
    for q in ("_h_matrix_pseudoinverse",):
        for c in homog_classes(p):
            if q in c.methods and c.name != "Homogeneous":
                r.note("%s overrides %s" % (c.name, q))
    # warps
    for cname in ("ThinPlateSplines", "AbstractPWA"):
        c = p.cls(cname)
        g = p.lookup(c, "pseudoinverse")
        for k in [c] + [x for x in p.descendants(c, include_self=False)]:
            gk = p.lookup(k, "pseudoinverse")
            r.instance("%s@%s" % (gk.short, k.name))
            _swap_in_ctor(p, gk, k, r)
    r.floor(4, "alignment inverse bodies")


def _attr_stores_on(fn, name):
    out = []
    for n in walk_own(fn):
        if isinstance(n, ast.Assign):
            for t in n.targets:
                if isinstance(t, ast.Attribute) and isinstance(t.value, ast.Name) and t.value.id == name:
                    out.append((t.attr, n, n.value))
    return out


def rule_r3(p, res):
    r = res.rule("C04.R3", "the generic inverse's constructor call binds to the class's own __init__")
    gen = p.own_method("Homogeneous", "pseudoinverse")
    hfa = p.cls("HomogFamilyAlignment")
    calls = [c for c in calls_in(gen.node) if isinstance(c.func, ast.Attribute) and c.func.attr == "__class__"
             or (isinstance(c.func, ast.Call) and isinstance(c.func.func, ast.Name) and c.func.func.id == "type")]
    need(len(calls) == 1, "C04.R3: Homogeneous.pseudoinverse must construct self.__class__ once")
    k = calls[0]
    a0 = k.args[0] if k.args else None
    r.check(a0 is not None and "call:self._h_matrix_pseudoinverse" in leaves(a0, Defs(gen.node)), gen, k, "generic inverse must wrap _h_matrix_pseudoinverse()")
    n = 0
    for c in homog_classes(p):
        f = p.lookup(c, "pseudoinverse")
        if f is not gen:
            continue
        n += 1
        r.instance(c)
        init = p.lookup(c, "__init__")
        b = bind_call(k, init, skip_self=True)
        pos = [x.arg for x in init.node.args.posonlyargs + init.node.args.args][1:]
        nreq = len(pos) - len(init.node.args.defaults)
        bound_pos = [q for q in pos[:nreq] if q in b]
        ok = "?unbound" not in b and len(bound_pos) == nreq and len(k.args) <= len(pos)
        first_ok = pos and pos[0] in ("h_matrix",)
        r.check(ok and first_ok, c, c.node, "%s inherits the generic inverse `%s` but its __init__(%s) does not accept that call: pseudoinverse() "
                "raises or builds the wrong object; the class must override pseudoinverse" % (c.name, norm(k)[:70], ", ".join(pos)),
                {"class": c.name, "init_params": pos})
    if n < 3:
        raise AnalysisError("C04.R3: generic inverse resolved for only %d classes (floor 3)" % n)


def _prop_return(p, cls, name):
    m = p.lookup(cls, name)
    if m is None or not m.is_property():
        return None
    rets = returns_of(m.node)
    return rets[0].value if len(rets) == 1 else None


def rule_r4(p, res):
    r = res.rule("C04.R4", "closed-form inverses: negated translation, reciprocal scale, inverted rotation; own class")
    specs = {
        "Translation": ("neg", "translation_component"),
        "UniformScale": ("recip", "scale"),
        "NonUniformScale": ("recip", "scale"),
        "Rotation": ("inv", "rotation_matrix"),
    }
    # the matrix inverse itself is the generic one (np.linalg.inv of the homogeneous matrix) for the whole family: a class that
    # brings its own closed form is outside what this rule has confirmed
    hom = p.cls("Homogeneous")
    own_inv = sorted(c_.name for c_ in p.descendants(hom) if "_h_matrix_pseudoinverse" in c_.methods)
    if own_inv != ["Homogeneous"]:
        raise AnalysisError("C04.R4: %s define(s) a closed-form _h_matrix_pseudoinverse that is not in the confirmed table (only Homogeneous inverts, with np.linalg.inv): "
                            "the inverse of that class is unconfirmed, no verdict" % [x for x in own_inv if x != "Homogeneous"])
    hi = hom.methods["_h_matrix_pseudoinverse"]
    r.instance(hi)
    rr_ = returns_of(hi.node)
    r.check(len(rr_) == 1 and str(norm(rr_[0].value)) in ("np.linalg.inv(self.h_matrix)", "np.linalg.pinv(self.h_matrix)"), hi, hi.node, "the generic inverse matrix must be the inverse of the current h_matrix")
    for cname, (kind, attr) in specs.items():
        c = p.cls(cname)
        f = c.methods.get("pseudoinverse")
        if f is None:
            r.violation(c, c.node, "%s has no own pseudoinverse: its constructor signature does not fit the generic inverse" % cname)
            continue
        r.instance(f)
        ctx = CallCtx(p, f, c)
        rets = returns_of(f.node)
        need(len(rets) == 1, "C04.R4: %s should have a single return" % f.short)
        v = expand(rets[0].value, Defs(f.node))
        need(isinstance(v, ast.Call), "C04.R4: %s does not return a constructor call" % f.short)
        k = p.resolve_expr(f.module, v.func) if isinstance(v.func, (ast.Name, ast.Attribute)) else None
        if isinstance(v.func, ast.Attribute) and v.func.attr == "__class__":
            k = c
        r.check(k is c, f, rets[0], "%s must return its own (non-alignment) class, found %s" % (f.short, norm(v.func)), {"function": f.short, "result_class": norm(v.func)})
        need(v.args, "C04.R4: constructor call without arguments in %s" % f.short)
        a = v.args[0]
        ok = False
        if kind == "neg":
            ok = isinstance(a, ast.UnaryOp) and isinstance(a.op, ast.USub) and norm(a.operand) == "self." + attr
            ok = ok or (isinstance(a, ast.BinOp) and isinstance(a.op, ast.Mult) and {norm(a.left), norm(a.right)} == {"-1", "self." + attr})
        elif kind == "recip":
            ok = isinstance(a, ast.BinOp) and isinstance(a.op, ast.Div) and norm(a.left) in ("1.0", "1") and norm(a.right) == "self." + attr
        elif kind == "inv":
            s = norm(a)
            ok = s in ("np.linalg.inv(self.%s)" % attr, "self.%s.T" % attr, "np.transpose(self.%s)" % attr, "self.%s.transpose()" % attr, "np.linalg.inv(self.linear_component)", "self.linear_component.T")
        r.check(ok, f, rets[0], "%s: first constructor argument `%s` is not the %s of self.%s" % (f.short, norm(a)[:50],
                {"neg": "negation", "recip": "reciprocal", "inv": "inverse/transpose"}[kind], attr), {"function": f.short, "argument": norm(a)[:50]})
        if cname == "UniformScale":
            r.check(len(v.args) >= 2 and norm(v.args[1]) == "self.n_dims", f, rets[0], "UniformScale inverse must keep n_dims")
    # the properties the closed forms read
    tc = _prop_return(p, p.cls("Affine"), "translation_component")
    r.check(tc is not None and norm(tc) == "self.h_matrix[:-1, -1]", p.cls("Affine"), tc or p.cls("Affine").node, "translation_component must be the last column without the homogeneous row")
    lc = _prop_return(p, p.cls("Affine"), "linear_component")
    r.check(lc is not None and norm(lc) == "self.h_matrix[:-1, :-1]", p.cls("Affine"), lc or p.cls("Affine").node, "linear_component must be the upper-left block")
    us = _prop_return(p, p.cls("UniformScale"), "scale")
    r.check(us is not None and norm(us) == "self.h_matrix[0, 0]", p.cls("UniformScale"), us or p.cls("UniformScale").node, "UniformScale.scale must read the diagonal")
    ns = _prop_return(p, p.cls("NonUniformScale"), "scale")
    r.check(ns is not None and norm(ns).startswith("self.h_matrix.diagonal()[:-1]"), p.cls("NonUniformScale"), ns or p.cls("NonUniformScale").node, "NonUniformScale.scale must read the diagonal without the homogeneous entry")
    r.floor(4, "closed-form inverses")


def rule_r5(p, res):
    r = res.rule("C04.R5", "inverse on a new source reuses no source-bound state; other options are forwarded")
    al = p.cls("Alignment")
    n = 0
    for c in invertible_classes(p):
        if al not in c.mro:
            continue
        f = p.lookup(c, "pseudoinverse")
        ctx = CallCtx(p, f, c)
        init = p.lookup(c, "__init__")
        if init is None:
            continue
        opts = [q for q in init.params[1:] if q not in ("source", "target")]
        ctors = [k for k in calls_in(f.node) if isinstance(ctx.class_constructed(k), ClassInfo) and ctx.class_constructed(k) in (c,) + tuple(c.mro)]
        ctors = [k for k in ctors if al in ctx.class_constructed(k).mro]
        if not ctors:
            continue
        n += 1
        r.instance("%s@%s" % (f.short, c.name))
        # source-bound options: default computed from `source` in __init__
        idefs = Defs(init.node)
        source_bound = set()
        for q in opts:
            for kind, val, st in idefs.of(q):
                if kind == "assign" and "param:source" in leaves(val, None if False else Defs(init.node)) and not (isinstance(val, ast.Name)):
                    source_bound.add(q)
        stored = {}
        for a, st, v in self_attr_stores(init.node):
            if isinstance(v, ast.Name) and v.id in opts:
                stored[v.id] = a
        fdefs = Defs(f.node)
        for k in ctors:
            b = bind_call(k, init, skip_self=True)
            for q in opts:
                e = b.get(q)
                if q in source_bound:
                    if e is None:
                        r.ok({"class": c.name, "option": q, "passed": None})
                        continue
                    lv = leaves(e, fdefs)
                    stale = ("self." + stored.get(q, q)) in lv and not any(l.startswith(("self.target", "self._target")) for l in lv)
                    r.check(not stale, f, k, "%s passes `%s=%s` to the inverse: that state is bound to the old source (its default is computed from "
                            "`source`), so the inverse warp is not centred on its own source landmarks" % (f.short, q, norm(e)[:40]),
                            {"class": c.name, "option": q, "passed": norm(e)[:40]})
                elif q in stored:
                    ok = e is not None and ("self." + stored[q]) in leaves(e, fdefs)
                    r.check(ok, f, k, "%s does not forward the persisted option `%s` (self.%s) to the inverse: the inverse is fitted with the default instead"
                            % (f.short, q, stored[q]), {"class": c.name, "option": q, "passed": norm(e)[:40] if e is not None else None})
    if n < 2:
        raise AnalysisError("C04.R5: fewer than 2 rebuilding alignment inverses found")


def rule_r6(p, res):
    r = res.rule("C04.R6", "has_true_inverse is a per-class constant (False only for thin-plate splines)")
    want_false = {"ThinPlateSplines"}
    n = 0
    for c in invertible_classes(p):
        m = p.lookup(c, "has_true_inverse")
        if m is None:
            continue
        n += 1
        r.instance(c)
        rets = returns_of(m.node)
        if only_raises(m.node):
            r.violation(c, c.node, "%s defines pseudoinverse but not has_true_inverse" % c.name)
            continue
        vals = {x.value.value if isinstance(x.value, ast.Constant) else None for x in rets}
        need(None not in vals and len(vals) == 1, "C04.R6: has_true_inverse of %s is not a constant" % c.name)
        val = vals.pop()
        r.check(val is (c.name not in want_false), c, m.node, "%s.has_true_inverse is %s; %s" % (c.name, val,
                "an interpolating spline has only a fitted pseudo-inverse" if c.name in want_false else "this class has an algebraic inverse"),
                {"class": c.name, "has_true_inverse": val})
    if n < 15:
        raise AnalysisError("C04.R6: only %d invertible classes analysed (floor 15)" % n)


# rules of sibling properties over code paths this property's statement also quantifies over (DESIGN.md section 3, shared rules)
ALSO = ['C06.R2', 'C09.R3']

RULES = [rule_r1, rule_r2, rule_r3, rule_r4, rule_r5, rule_r6]

WITNESSES = [
    Witness("C04.W1", "menpo/transform/homogeneous/translation.py", "AlignmentTranslation",
            "class AlignmentTranslation(HomogFamilyAlignment, Translation):", "class AlignmentTranslation(Translation, HomogFamilyAlignment):",
            rule="C04.R1", construct="AlignmentTranslation"),
    Witness("C04.W2", "menpo/transform/homogeneous/base.py", "HomogFamilyAlignment.pseudoinverse",
            "selfcopy._source, selfcopy._target = (selfcopy._target, selfcopy._source)", "pass", rule="C04.R2", construct="HomogFamilyAlignment.pseudoinverse"),
    Witness("C04.W3", "menpo/transform/homogeneous/scale.py", "UniformScale",
            "def pseudoinverse(self):", "def _unused_pseudoinverse(self):", rule="C04.R3", construct="UniformScale"),
    Witness("C04.W4", "menpo/transform/homogeneous/translation.py", "Translation.pseudoinverse",
            "Translation(-self.translation_component, skip_checks=True)", "Translation(self.translation_component, skip_checks=True)",
            rule="C04.R4", construct="Translation.pseudoinverse"),
    Witness("C04.W5", "menpo/transform/thinplatesplines.py", "ThinPlateSplines.pseudoinverse",
            "kernel=type(self.kernel)(self.target.points)", "kernel=self.kernel", rule="C04.R5", construct="ThinPlateSplines.pseudoinverse",
            note="reverts the repair of finding #5"),
    Witness("C04.W6", "menpo/transform/thinplatesplines.py", "ThinPlateSplines.pseudoinverse",
            ", min_singular_val=self.min_singular_val", "", rule="C04.R5", construct="ThinPlateSplines.pseudoinverse"),
    Witness("C04.W7", "menpo/transform/piecewiseaffine/base.py", "AbstractPWA.pseudoinverse",
            "new_target = PointCloud(self.source.points)", "new_target = PointCloud(self.target.points)", rule="C04.R2", construct="pseudoinverse"),
    Witness("C04.W8", "menpo/transform/homogeneous/scale.py", "NonUniformScale.pseudoinverse",
            "NonUniformScale(1.0 / self.scale, skip_checks=True)", "NonUniformScale(self.scale, skip_checks=True)", rule="C04.R4", construct="NonUniformScale.pseudoinverse"),
    Witness("C04.W9", "menpo/transform/thinplatesplines.py", "ThinPlateSplines.has_true_inverse",
            "return False", "return True", rule="C04.R6", construct="ThinPlateSplines"),
    Witness("C04.W10", "menpo/transform/piecewiseaffine/base.py", "AbstractPWA.pseudoinverse", "TriMesh(self.target.points, self.source.trilist)", "TriMesh(self.target.points)",
            rule="C04.R2", construct="pseudoinverse", note="seeded change C04-A"),
    Witness("C04.T1", "menpo/transform/homogeneous/rotation.py", "Rotation.pseudoinverse",
            "np.linalg.inv(self.rotation_matrix)", "self.rotation_matrix.T", kind="T"),
]
