"""C07 -- alignments recover exact maps, fit optimally where promised, and interpolate (small structural part only).

 R1 aligned_source() = apply(source); alignment_error() = || target - aligned_source ||; nobody overrides them
 R2 the reflection guard: determinant test under `not allow_mirror`; every construction / re-fit path forwards the
    caller's allow_mirror
 R3 direction: scale = target.norm / source.norm, translation = target.centre - source.centre, affine solves source -> target
 R4 piecewise affine co-indexing: the triangle index that selects the target vectors comes with alpha/beta from the same
    containment query; source vectors from source points, target vectors from target points, same triangle list
 R5 PointCloud.norm is taken about the centre (the scale fits rely on a translation-invariant size)
"""
import ast

from ..loader import AnalysisError, dotted
from ..astutil import P, walk_own, calls_in, norm, Defs, leaves, stmt_of, kwarg, need, returns_of, expand, const_value
from .common import self_attr_stores
from .. import cfg as cfgmod
from ..variants import Witness
from .c08 import alignment_classes

PROP = "C07"
EXPLANATION = (
    "aligned_source is apply(source) and alignment_error the norm of target minus aligned source, neither overridden by "
    "any alignment class; optimal_rotation_matrix corrects the determinant exactly when mirroring is not allowed and every "
    "caller (AlignmentRotation construction and re-fit, procrustes_alignment, AlignmentSimilarity, generalized Procrustes) "
    "forwards the caller's allow_mirror; every scale fit divides the target's norm by the source's, every translation fit "
    "subtracts the source centre from the target centre, the affine fit solves for source->target homogeneous points, and "
    "procrustes_alignment composes centre, scale, rotation, un-centre in that order; the piecewise-affine map indexes the "
    "target triangle vectors with the triangle index returned together with alpha/beta, source vectors come from the "
    "source points and target vectors from the target points with the same triangle list; PointCloud.norm subtracts the centre."
)
NOT_DECIDED = "exact recovery, least-squares optimality, interpolation and continuity -- numeric (the bulk of C07)"
TECHNIQUE = "role / direction provenance of fit expressions + option forwarding + co-indexing dataflow (static analysis)"


def rule_r1(p, res):
    r = res.rule("C07.R1", "aligned_source = apply(source); alignment_error = ||target - aligned_source||; not overridden")
    a = p.own_method("Alignment", "aligned_source")
    e = p.own_method("Alignment", "alignment_error")
    r.instance(a)
    r.instance(e)
    r.check(norm(returns_of(a.node)[0].value) == "self.apply(self.source)", a, a.node, "aligned_source must be the transform applied to the source (found `%s`)" % norm(returns_of(a.node)[0].value))
    s = norm(returns_of(e.node)[0].value)
    ok = s in ("np.linalg.norm(self.target.points - self.aligned_source().points)", "np.linalg.norm(self.aligned_source().points - self.target.points)")
    r.check(ok, e, e.node, "alignment_error must be the distance between the target and the aligned source (found `%s`)" % s, {"alignment_error": s})
    al = p.cls("Alignment")
    n = 0
    for c in p.descendants(al, include_self=False):
        n += 1
        for m in ("aligned_source", "alignment_error", "source", "target", "_new_target_from_state"):
            if m in c.methods:
                r.violation(c.methods[m], c.methods[m].node, "%s overrides %s: what it reports need not be what it applies" % (c.name, m))
    r.instance("%d alignment classes scanned for overrides" % n)
    nt = p.own_method("Alignment", "_new_target_from_state")
    r.check(norm(returns_of(nt.node)[0].value) == "self.aligned_source()", nt, nt.node, "after a parameter update the target is the aligned source")
    ini = p.own_method("Alignment", "__init__")
    r.instance(ini)
    s = norm(ini.node)
    r.check("self._verify_source_and_target(source, target)" in s and "self._source = source" in s and "self._target = target" in s, ini, ini.node, "source and target must be verified and stored as given")


def rule_r2(p, res):
    r = res.rule("C07.R2", "reflection guard present; allow_mirror forwarded on every construction and re-fit path")
    f = p.func("menpo.transform.homogeneous.rotation.optimal_rotation_matrix")
    r.instance(f)
    g = cfgmod.build(f.node)
    d = Defs(f.node)
    corr = [n for n in walk_own(f.node) if isinstance(n, ast.Assign) and norm(n.targets[0]) == "R" and "E" in {x.id for x in ast.walk(n.value) if isinstance(x, ast.Name)}]
    ok = len(corr) == 1
    if ok:
        gs = [(norm(t), pol) for t, pol in g.guards(corr[0])]
        ok = gs == [("allow_mirror", False), ("d < 0", True)]
    r.check(ok, f, corr[0] if corr else f.node, "a reflection (det < 0) must be corrected exactly when mirroring is not allowed", {"guard": [(norm(t), pol) for t, pol in g.guards(corr[0])] if corr else None})
    dv = d.single("d")
    r.check(dv is not None and norm(dv) in ("np.sign(np.linalg.det(R))", "np.linalg.det(R)"), f, f.node, "the guard must test the determinant of the fitted rotation")
    s = norm(f.node)
    r.check("correlation = np.dot(target.points.T, source.points)" in s and "R = np.dot(U, Vt)" in s and "E[-1, -1] = d" in s and "R = np.dot(U, np.dot(E, Vt))" in s, f, f.node,
            "Kabsch: R = U Vt of svd(target^T source), with the last singular direction flipped for a reflection")
    rets = returns_of(f.node)
    r.check(len(rets) == 1 and norm(rets[0].value) == "R" and (not corr or g.reaches(corr[0], rets[0])), f, f.node, "the corrected rotation must be what is returned")
    dflt = f.defaults().get("allow_mirror")
    r.check(isinstance(dflt, ast.Constant) and dflt.value is False, f, f.node, "mirroring is off by default")
    # forwarding sites
    sites = [
        (p.own_method("AlignmentRotation", "__init__"), "optimal_rotation_matrix", "allow_mirror"),
        (p.own_method("AlignmentRotation", "_sync_state_from_target"), "optimal_rotation_matrix", "self.allow_mirror"),
        (p.func("menpo.transform.homogeneous.similarity.procrustes_alignment"), "optimal_rotation_matrix", "allow_mirror"),
        (p.own_method("AlignmentSimilarity", "__init__"), "procrustes_alignment", "allow_mirror"),
        (p.own_method("AlignmentSimilarity", "_sync_state_from_target"), "procrustes_alignment", "self.allow_mirror"),
        (p.own_method("GeneralizedProcrustesAnalysis", "__init__"), "AlignmentSimilarity", "allow_mirror"),
    ]
    for fn, callee, want in sites:
        r.instance("%s -> %s" % (fn.short, callee))
        ks = [k for k in calls_in(fn.node) if (dotted(k.func) or "").split(".")[-1] == callee]
        need(ks, "C07.R2: %s no longer calls %s" % (fn.short, callee))
        for k in ks:
            v = kwarg(k, "allow_mirror")
            r.check(v is not None and norm(v) == want, fn, k, "%s must pass allow_mirror=%s to %s (found %s): the caller's choice about reflections would be ignored"
                    % (fn.short, want, callee, norm(v) if v is not None else None), {"site": fn.short, "forwards": norm(v) if v is not None else None})
    for cn in ("AlignmentRotation", "AlignmentSimilarity"):
        ini = p.own_method(cn, "__init__")
        st = [n for n in walk_own(ini.node) if isinstance(n, ast.Assign) and norm(n.targets[0]) == "self.allow_mirror"]
        r.check(len(st) == 1 and norm(st[0].value) == "allow_mirror", ini, ini.node, "%s must remember allow_mirror" % cn)


def rule_r3(p, res):
    r = res.rule("C07.R3", "direction of every fit: target over / minus source; affine solves source -> target")
    scale_sites = [
        (p.own_method("AlignmentUniformScale", "__init__"), "target", "source"),
        (p.own_method("AlignmentUniformScale", "_sync_state_from_target"), "self.target", "self.source"),
        (p.func("menpo.transform.homogeneous.similarity.procrustes_alignment"), "target", "source"),
    ]
    for fn, t, s in scale_sites:
        r.instance("%s: scale" % fn.short)
        divs = [n for n in walk_own(fn.node) if isinstance(n, ast.BinOp) and isinstance(n.op, ast.Div) and (t in norm(n.left) and s in norm(n.right) or s in norm(n.left) and t in norm(n.right))]
        need(len(divs) == 1, "C07.R3: scale fit of %s not recognised" % fn.short)
        got = (norm(divs[0].left), norm(divs[0].right))
        r.check(got == ("%s.norm()" % t, "%s.norm()" % s), fn, divs[0], "%s: the scale must be target size over source size (found %s / %s)" % (fn.short, got[0], got[1]), {"site": fn.short, "scale": "%s / %s" % got})
    tr_sites = [
        (p.own_method("AlignmentTranslation", "__init__"), "target", "source"),
        (p.own_method("AlignmentTranslation", "_sync_state_from_target"), "self.target", "self.source"),
    ]
    for fn, t, s in tr_sites:
        r.instance("%s: translation" % fn.short)
        subs = [n for n in walk_own(fn.node) if isinstance(n, ast.BinOp) and isinstance(n.op, ast.Sub) and norm(n.left).startswith(t + ".") and norm(n.right).startswith(s + ".")
                or isinstance(n, ast.BinOp) and isinstance(n.op, ast.Sub) and norm(n.left).startswith(s + ".") and norm(n.right).startswith(t + ".")]
        need(len(subs) == 1, "C07.R3: translation fit of %s not recognised" % fn.short)
        got = (norm(subs[0].left), norm(subs[0].right))
        r.check(got == ("%s.centre()" % t, "%s.centre()" % s), fn, subs[0], "%s: the translation must be target centre minus source centre (found %s - %s)" % (fn.short, got[0], got[1]), {"site": fn.short})
    af = p.own_method("AlignmentAffine", "_build_alignment_h_matrix")
    r.instance(af)
    d = Defs(af.node)
    ok = norm(d.single("a")) == "source.h_points()" and norm(d.single("b")) == "target.h_points()" and norm(returns_of(af.node)[0].value) == "np.linalg.solve(np.dot(a, a.T), np.dot(a, b.T)).T"
    r.check(ok, af, af.node, "the affine fit must solve the normal equations (a a^T) H^T = a b^T with a = source, b = target homogeneous points")
    hp = p.own_method("PointCloud", "h_points")
    r.check("self.points.T" in norm(hp.node) and "np.ones(self.n_points" in norm(hp.node), hp, hp.node, "h_points = coordinates with a row of ones appended")
    # procrustes_alignment composition order
    pa = p.func("menpo.transform.homogeneous.similarity.procrustes_alignment")
    r.instance(pa)
    d = Defs(pa.node)
    seq = [norm(k.args[0]) for k in calls_in(pa.node) if norm(k.func) == "p.compose_before_inplace"]
    r.check(seq == ["src_t", "src_s", "r", "tgt_t.pseudoinverse()"], pa, pa.node, "procrustes: centre the source, scale, rotate, move to the target centre -- in that order (found %s)" % seq, {"composition": seq})
    gpa = cfgmod.build(pa.node)
    for k in [k for k in calls_in(pa.node) if norm(k.func) == "p.compose_before_inplace"]:
        gs = [(norm(t), pol) for t, pol in gpa.guards(stmt_of(k))]
        want_g = [("rotation", True)] if norm(k.args[0]) == "r" else []
        r.check(gs == want_g, pa, k, "procrustes: the step `%s` is executed under %s; only the rotation step depends on the `rotation` option (centring, scaling and moving to the target centre "
                "always happen)" % (norm(k)[:50], gs), {"step": norm(k.args[0]), "guards": gs})
    r.check(norm(d.single("src_t")) == "Translation(-source.centre(), skip_checks=True)" and norm(d.single("tgt_t")) == "Translation(-target.centre(), skip_checks=True)", pa, pa.node,
            "procrustes must centre source and target at their own centres")
    g = cfgmod.build(pa.node)
    rot = [k for k in calls_in(pa.node) if (dotted(k.func) or "") == "optimal_rotation_matrix"]
    need(len(rot) == 1, "C07.R3: procrustes must fit one rotation")
    r.check([norm(a) for a in rot[0].args] == ["aligned_src", "aligned_tgt"] and norm(d.single("aligned_src")) == "p.apply(source)" and norm(d.single("aligned_tgt")) == "tgt_t.apply(target)", pa, rot[0],
            "the rotation must be fitted between the centred, scaled source and the centred target")
    r.check([(norm(t), pol) for t, pol in g.guards(stmt_of(rot[0]))] == [("rotation", True)], pa, rot[0], "the rotation is fitted exactly when requested")
    rr = p.own_method("AlignmentRotation", "__init__")
    k = [x for x in calls_in(rr.node) if (dotted(x.func) or "") == "optimal_rotation_matrix"]
    r.check(len(k) == 1 and [norm(a) for a in k[0].args] == ["source", "target"], rr, rr.node, "the rotation fit takes (source, target)")
    # TPS linear system
    tp = p.own_method("ThinPlateSplines", "_build_coefficients")
    r.instance(tp)
    dt = Defs(tp.node)
    st_ = {a_: (s_, expand(v_, dt)) for a_, s_, v_ in self_attr_stores(tp.node)}
    need("v" in st_ and "y" in st_ and "coefficients" in st_, "C07.R3: ThinPlateSplines._build_coefficients no longer stores v, y and coefficients")
    v_ok = norm(st_["v"][1]) == "self.target.points.T.copy()"
    yv = norm(st_["y"][1])
    y_ok = yv.startswith(("np.hstack(", "np.concatenate(")) and ("self.v" in yv or "self.target.points.T.copy()" in yv) and ("np.zeros([2, 3])" in yv or "np.zeros((2, 3))" in yv)
    cv = st_["coefficients"][1]
    rhs = None
    if isinstance(cv, ast.Call) and isinstance(cv.func, ast.Attribute) and cv.func.attr == "dot" and cv.args:
        rhs = cv.args[-1]  # a.dot(b) and np.dot(a, b): the right factor is the last argument
    c_ok = rhs is not None and norm(rhs) in ("self.y.T", yv + ".T") and any((dotted(k.func) or "") == "np.linalg.svd" and norm(k.args[0]) == "self.l" for k in calls_in(tp.node) if k.args)
    r.check(v_ok and y_ok and c_ok, tp, tp.node, "TPS coefficients solve L c = [target; 0]: v = target points (transposed copy), y = [v | 0], coefficients = pinv(L) y^T "
            "(found v=`%s`, y=`%s`, right-hand side `%s`)" % (norm(st_["v"][1])[:40], yv[:50], norm(rhs)[:30] if rhs is not None else None))
    ti = p.own_method("ThinPlateSplines", "__init__")
    s = norm(ti.node)
    di = Defs(ti.node)
    kst = [expand(v_, di) for a_, s_, v_ in self_attr_stores(ti.node) if a_ == "k"]
    k_ok = len(kst) == 1 and norm(kst[0]) in ("self.kernel.apply(self.source.points)", "kernel.apply(self.source.points)", "kernel.apply(source.points)", "self.kernel.apply(source.points)")
    r.check(k_ok and "kernel = R2LogR2RBF(source.points)" in s, ti, ti.node, "the TPS system matrix is built from the kernel on the source points")


def rule_r4(p, res):
    r = res.rule("C07.R4", "piecewise affine: triangle index, alpha and beta come from one containment query; source / target vectors from the right points")
    ap = p.own_method("AbstractPWA", "_apply")
    r.instance(ap)
    st = [n for n in walk_own(ap.node) if isinstance(n, ast.Assign) and isinstance(n.targets[0], ast.Tuple) and isinstance(n.value, ast.Call) and norm(n.value.func) == "self.index_alpha_beta"]
    need(len(st) == 1 and len(st[0].targets[0].elts) == 3, "C07.R4: _apply must unpack (index, alpha, beta) from one index_alpha_beta call")
    ti, al, be = [x.id for x in st[0].targets[0].elts]
    r.check([norm(a) for a in st[0].value.args] == [ap.params[1]], ap, st[0], "the containment query must be made for the points being applied")
    s = norm(returns_of(ap.node)[0].value)
    want = "self.ti[%s] + %s[:, None] * self.tij[%s] + %s[:, None] * self.tik[%s]" % (ti, al, ti, be, ti)
    r.check(s == want, ap, ap.node, "the image of a point is ti + alpha tij + beta tik of *its own* triangle (found `%s`)" % s, {"apply": s})
    pin = p.own_method("AbstractPWA", "__init__")
    r.instance(pin)
    gpin = cfgmod.build(pin.node)
    tri = [n_ for n_ in walk_own(pin.node) if isinstance(n_, ast.Assign) and isinstance(n_.value, ast.Call) and "TriMesh" in (dotted(n_.value.func) or "") and norm(n_.targets[0]) == pin.params[1]]
    need(len(tri) == 1, "C07.R4: the Delaunay fallback of AbstractPWA.__init__ was not found")
    gs_ = [(str(norm(t_)), pol) for t_, pol in gpin.guards(tri[0])]
    r.check(gs_ == [("isinstance(%s, TriMesh)" % pin.params[1], False)], pin, tri[0], "the source is re-triangulated under %s: only a source that is no TriMesh at all (isinstance) may be given a Delaunay "
            "triangulation; an exact type test also discards the triangle list of coloured / textured meshes, so the map is no longer affine inside the source's own triangles" % gs_, {"fallback_guard": gs_})
    rb = p.own_method("AbstractPWA", "_rebuild_target_vectors")
    r.instance(rb)
    drb = Defs(rb.node)
    got = {}
    for n_ in walk_own(rb.node):
        if isinstance(n_, ast.Assign) and len(n_.targets) == 1:
            t_ = n_.targets[0]
            pairs = list(zip(t_.elts, n_.value.elts)) if isinstance(t_, ast.Tuple) and isinstance(n_.value, ast.Tuple) and len(t_.elts) == len(n_.value.elts) else [(t_, n_.value)]
            for a_, v_ in pairs:
                if isinstance(a_, ast.Attribute) and norm(a_.value) == "self" and a_.attr in ("ti", "tij", "tik"):
                    got[a_.attr] = str(norm(expand(v_, drb)))
    T = "self.target.points[self.trilist]"
    want_t = {"ti": "%s[:, 0]" % T, "tij": "%s[:, 1] - %s[:, 0]" % (T, T), "tik": "%s[:, 2] - %s[:, 0]" % (T, T)}
    r.check(got == want_t, rb, rb.node, "target triangle vectors must come from the target points indexed by the (source) triangle list: ti = t[:, 0], tij = t[:, 1] - t[:, 0], "
            "tik = t[:, 2] - t[:, 0] with t = target.points[trilist] (found %s)" % got)
    tl = p.own_method("AbstractPWA", "trilist")
    r.check(norm(returns_of(tl.node)[0].value) == "self.source.trilist", tl, tl.node, "both sides share the source's triangle list")
    py = p.own_method("PythonPWA", "__init__")
    r.instance(py)
    s = norm(py.node)
    r.check("barycentric_vectors(self.source.points, self.trilist)" in s and "self.s, self.sij, self.sik = (si, sij, sik)" in s, py, py.node, "source triangle vectors must come from the source points")
    ia = p.own_method("PythonPWA", "index_alpha_beta")
    r.instance(ia)
    r.check(norm(returns_of(ia.node)[0].value) == "index_alpha_beta(self.s, self.sij, self.sik, %s)" % ia.params[1], ia, ia.node, "barycentric coordinates are computed in the source triangles")
    fn = p.func("menpo.transform.piecewiseaffine.base.index_alpha_beta")
    r.instance(fn)
    s = norm(fn.node)
    r.check("alpha, beta = alpha_beta(i, ij, ik, points)" in s and "index = containment_from_alpha_beta(alpha, beta)" in s and "return (index, alpha[each_point, index], beta[each_point, index])" in s, fn, fn.node,
            "alpha and beta must be read at the containing triangle's index for each point")
    bv = p.func("menpo.transform.piecewiseaffine.base.barycentric_vectors")
    r.instance(bv)
    s = norm(bv.node)
    r.check("x = np.transpose(points[trilist], axes=[1, 2, 0])" in s and "return (x[0], x[1] - x[0], x[2] - x[0])" in s, bv, bv.node, "triangle frame = (first vertex, edge to second, edge to third)")
    cf = p.func("menpo.transform.piecewiseaffine.base.containment_from_alpha_beta")
    r.instance(cf)
    # which comparison spelling is used is C09's business (it decides what NaN does to the error mask); here only the region matters
    cmp_ = sorted(str(norm(x)) for x in ast.walk(cf.node) if isinstance(x, ast.Compare))
    pos = ["alpha + beta <= 1", "alpha >= 0", "beta >= 0"]
    neg = ["alpha + beta > 1", "alpha < 0", "beta < 0"]
    r.check(cmp_ in (pos, neg), cf, cf.node, "a point is inside a triangle iff alpha, beta >= 0 and alpha + beta <= 1, edges included (found comparisons %s)" % cmp_, {"containment_comparisons": cmp_})
    ab = p.func("menpo.transform.piecewiseaffine.base.alpha_beta")
    r.instance(ab)
    s = norm(ab.node)
    r.check("d = 1.0 / (dot_jj * dot_kk - dot_jk * dot_jk)" in s and "alpha = (dot_kk * dot_pj - dot_jk * dot_pk) * d" in s and "beta = (dot_jj * dot_pk - dot_jk * dot_pj) * d" in s, ab, ab.node,
            "alpha / beta solve the 2x2 Gram system of the triangle edges")


def rule_r5(p, res):
    r = res.rule("C07.R5", "PointCloud.norm is taken about the centre")
    f = p.own_method("PointCloud", "norm")
    r.instance(f)
    s = norm(returns_of(f.node)[0].value)
    r.check(s == "np.linalg.norm(self.points - self.centre(), **kwargs)", f, f.node, "the size of a point cloud must be measured about its centre (found `%s`): otherwise the scale fit depends on where the shapes sit" % s, {"norm": s})
    c = p.own_method("PointCloud", "centre")
    r.instance(c)
    r.check(norm(returns_of(c.node)[0].value) == "np.mean(self.points, axis=0)", c, c.node, "centre = mean point")
    for k in p.descendants(p.cls("PointCloud"), include_self=False):
        for m in ("norm", "centre"):
            if m in k.methods:
                r.violation(k.methods[m], k.methods[m].node, "%s overrides %s" % (k.name, m))


def rule_r6(p, res):
    r = res.rule("C07.R6", "containment: one containing triangle per point, assigned by point number")
    f = p.func("menpo.transform.piecewiseaffine.base.containment_from_alpha_beta")
    r.instance(f)
    d = Defs(f.node)
    nz = [(nm, v[1]) for nm, ds in d.defs.items() for kd, v, st in ds if kd == "unpack" and isinstance(v[0], ast.Call) and (dotted(v[0].func) or "").endswith("nonzero")]
    need(len(nz) == 2, "C07.R6: the (point, triangle) hit lists of containment_from_alpha_beta (np.nonzero unpacked in two) were not found")
    pt = [nm for nm, i in nz if i == 0][0]
    tr = [nm for nm, i in nz if i == 1][0]
    scat = [n for n in walk_own(f.node) if isinstance(n, ast.Assign) and isinstance(n.targets[0], ast.Subscript) and norm(n.targets[0].slice) == pt and norm(n.value) == tr]
    rets = returns_of(f.node)
    ok = len(scat) == 1 and len(rets) == 1 and norm(scat[0].targets[0].value) in {x.id for x in ast.walk(rets[0].value) if isinstance(x, ast.Name)}
    alloc = d.single(norm(scat[0].targets[0].value)) if scat else None
    ok = ok and isinstance(alloc, ast.Call) and (dotted(alloc.func) or "") in ("np.zeros", "np.empty") and norm(alloc.args[0]) in ("%s.shape[0]" % f.params[0], "%s.shape[0]" % f.params[1], "len(%s)" % f.params[0])
    r.check(ok, f, scat[0] if scat else f.node, "the triangle of each point must be written at the point's own number (`index[%s] = %s` into an array with one entry per point): "
            "anything that uses the hit list positionally gives later points the triangle of another point as soon as one point lies in two triangles" % (pt, tr))


# rules of sibling properties over code paths this property's statement also quantifies over (DESIGN.md section 3, shared rules)
ALSO = ['C04.R2', 'C06.R2', 'C08.R2', 'C09.R3']

RULES = [rule_r1, rule_r2, rule_r3, rule_r4, rule_r5, rule_r6]

WITNESSES = [
    Witness("C07.W1", "menpo/transform/base/alignment.py", "Alignment.alignment_error", "self.aligned_source().points", "self.source.points", rule="C07.R1", construct="alignment_error"),
    Witness("C07.W2", "menpo/transform/homogeneous/rotation.py", "optimal_rotation_matrix", "if not allow_mirror:", "if allow_mirror:", rule="C07.R2", construct="optimal_rotation_matrix"),
    Witness("C07.W3", "menpo/transform/homogeneous/rotation.py", "AlignmentRotation.__init__", "optimal_rotation_matrix(source, target, allow_mirror=allow_mirror)", "optimal_rotation_matrix(source, target)",
            rule="C07.R2", construct="AlignmentRotation"),
    Witness("C07.W4", "menpo/transform/homogeneous/scale.py", "AlignmentUniformScale.__init__", "target.norm() / source.norm()", "source.norm() / target.norm()", rule="C07.R3", construct="AlignmentUniformScale"),
    Witness("C07.W5", "menpo/shape/pointcloud.py", "PointCloud.norm", "self.points - self.centre()", "self.points", rule="C07.R5", construct="PointCloud.norm"),
    Witness("C07.W6", "menpo/transform/piecewiseaffine/base.py", "AbstractPWA._rebuild_target_vectors", "t = self.target.points[self.trilist]", "t = self.source.points[self.trilist]", rule="C07.R4", construct="_rebuild_target_vectors"),
    Witness("C07.W7", "menpo/transform/homogeneous/similarity.py", "procrustes_alignment", "p.compose_before_inplace(src_t)\n    p.compose_before_inplace(src_s)", "p.compose_before_inplace(src_s)\n    p.compose_before_inplace(src_t)",
            rule="C07.R3", construct="procrustes_alignment"),
    Witness("C07.W8", "menpo/transform/homogeneous/translation.py", "AlignmentTranslation._sync_state_from_target", "self.target.centre() - self.source.centre()", "self.source.centre() - self.target.centre()",
            rule="C07.R3", construct="AlignmentTranslation"),
    Witness("C07.W9", "menpo/transform/groupalign/procrustes.py", "GeneralizedProcrustesAnalysis.__init__", "AlignmentSimilarity(source, self.target, allow_mirror=allow_mirror)", "AlignmentSimilarity(source, self.target)",
            rule="C07.R2", construct="GeneralizedProcrustesAnalysis"),
    Witness("C07.W10", "menpo/transform/homogeneous/translation.py", "AlignmentTranslation._sync_state_from_target", "self.target.centre() - self.source.centre()", "self.target.centre_of_bounds() - self.source.centre_of_bounds()",
            rule="C07.R3", construct="AlignmentTranslation", note="seeded change R2-C07-B"),
    Witness("C07.W11", "menpo/transform/homogeneous/similarity.py", "procrustes_alignment", "        p.compose_before_inplace(r)\n    p.compose_before_inplace(tgt_t.pseudoinverse())", "        p.compose_before_inplace(r)\n        p.compose_before_inplace(tgt_t.pseudoinverse())",
            rule="C07.R3", construct="procrustes_alignment", note="seeded change R2-C07-C"),
    Witness("C07.T1", "menpo/transform/base/alignment.py", "Alignment.alignment_error", "np.linalg.norm(self.target.points - self.aligned_source().points)", "np.linalg.norm(self.aligned_source().points - self.target.points)", kind="T"),
]

WITNESSES += [
    Witness("C07.W12", "menpo/transform/piecewiseaffine/base.py", "AbstractPWA.__init__", "if not isinstance(source, TriMesh):", "if type(source) is not TriMesh:", rule="C07.R4", construct="AbstractPWA.__init__", note="seeded change R4-C07-A"),
]

WITNESSES += [
    Witness("C07.W13", "menpo/transform/piecewiseaffine/base.py", "containment_from_alpha_beta", "index = np.zeros(alpha.shape[0])\n    index[point_index] = tri_index\n    return index.astype(np.uint32)",
            "first = np.unique(point_index)\n    return tri_index[first].astype(np.uint32)", rule="C07.R6", construct="containment_from_alpha_beta", note="seeded change R5-C02-A"),
]
