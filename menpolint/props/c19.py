"""C19 -- lazy lists are faithful and truly lazy under every combination of operations.

 R1 the only places where an element callable (or a mapping function) is *called* are the scalar branch of
    __getitem__ (one element) and the deferred helper of map; the helper itself is only ever deferred
 R2 no method other than __init__ writes or mutates the receiver's list; map/repeat write a fresh copy; operands untouched
 R3 index dispatch over all index kinds: scalars -> element, slice -> new list, iterables -> new list in iteration order
 R4 nobody outside LazyList writes _callables
 R5 element pairing: map wraps element i with function i; + concatenates receiver then operand; fancy indexing keeps order
"""
import ast

from ..loader import AnalysisError, dotted
from ..astutil import norm_block, walk_own, calls_in, norm, Defs, leaves, stmt_of, kwarg, need, returns_of
from .. import cfg as cfgmod
from ..effects import get_effects
from ..variants import Witness

PROP = "C19"
EXPLANATION = (
    "Every method of LazyList is scanned for calls whose callee is an element of _callables, a loop variable ranging over "
    "it, or a user mapping function: the only such calls are `self._callables[i]()` in the scalar branch of __getitem__ "
    "and `delay_f(delay_x())` inside map's deferred helper, which is only ever passed to partial(); mutation summaries show "
    "that no method but __init__ writes or mutates self._callables, that map/repeat assign only to a fresh self.copy() "
    "whose list is a new list, and that __add__ does not touch its operand; the __getitem__ ladder is evaluated over the "
    "data-model facts of eight index kinds; no code outside the class writes _callables; map pairs element i with "
    "function i after a length check, + keeps receiver-then-operand order, fancy indexing iterates the index in order."
)
NOT_DECIDED = "the element order produced by repeat()'s chain/zip idiom and length arithmetic of arbitrary compositions (need the values)"
TECHNIQUE = "taint of element callables to call sites + mutation summaries + finite evaluation of the index-dispatch ladder (static analysis)"

# data-model facts: kind -> (is collections.abc.Iterable, isinstance int, has __index__)
INDEX_KINDS = {
    "int": (False, True, True),
    "bool": (False, True, True),
    "numpy integer scalar": (False, False, True),
    "slice": (False, False, False),
    "list": (True, False, False),
    "tuple": (True, False, False),
    "range": (True, False, False),
    "1-D ndarray": (True, False, True),
}
WANT = {"int": "element", "bool": "element", "numpy integer scalar": "element", "slice": "slice",
        "list": "iter", "tuple": "iter", "range": "iter", "1-D ndarray": "iter"}


def _lazy(p):
    return p.cls("LazyList")


def _tainted_calls(fn_node, tainted_names):
    """calls whose callee is an element of some `_callables` or a tainted name"""
    out = []
    for c in calls_in(fn_node, include_nested=True):
        f = c.func
        if isinstance(f, ast.Subscript) and isinstance(f.value, ast.Attribute) and f.value.attr == "_callables":
            out.append(c)
        elif isinstance(f, ast.Name) and f.id in tainted_names:
            out.append(c)
    return out


def _taint_names(fn_node, fparams):
    names = set(fparams)
    for n in walk_own(fn_node, include_nested=True):
        it = tgt = None
        if isinstance(n, ast.For):
            it, tgt = n.iter, n.target
        elif isinstance(n, ast.comprehension):
            it, tgt = n.iter, n.target
        if it is not None and "_callables" in norm(it) or (it is not None and any(isinstance(x, ast.Name) and x.id in names for x in ast.walk(it))):
            for x in ast.walk(tgt):
                if isinstance(x, ast.Name):
                    names.add(x.id)
        if isinstance(n, (ast.FunctionDef,)) and n is not fn_node and n.name.startswith("delay"):
            for a in n.args.args:
                names.add(a.arg)
    return names


def rule_r1(p, res):
    r = res.rule("C19.R1", "element callables are called only in the scalar branch of __getitem__ and inside map's deferred helper")
    c = _lazy(p)
    allowed_total = 0
    lambda_deferral = []
    for name, f in sorted(c.methods.items()):
        r.instance(f)
        user_fn_params = [q for q in f.params[1:] if q in ("f",)]
        tn = _taint_names(f.node, user_fn_params)
        calls = _tainted_calls(f.node, tn)
        for k in calls:
            # where is it?
            owner = k
            nested = None
            while owner is not None and owner is not f.node:
                if isinstance(owner, (ast.FunctionDef, ast.Lambda)) and owner is not f.node:
                    nested = owner
                owner = getattr(owner, "_parent", None)
            if name == "__getitem__" and nested is None:
                g = cfgmod.build(f.node)
                gs = [(norm(t), pol) for t, pol in g.guards(stmt_of(k))]
                idx = f.params[1]
                ok = norm(k) == "self._callables[%s]()" % idx and any("Iterable" in s and pol is False for s, pol in gs)
                r.check(ok, f, k, "__getitem__ evaluates `%s` under guards %s: only the single requested element may be evaluated, and only for a scalar index" % (norm(k)[:50], gs),
                        {"site": norm(k), "guards": gs})
                allowed_total += 1
            elif name == "map" and nested is not None and getattr(nested, "name", None) == "delayed":
                allowed_total += 1
                r.ok({"site": "map.delayed: " + norm(k)})
            elif name == "map" and isinstance(nested, ast.Lambda) and not isinstance(getattr(nested, "_parent", None), ast.Call):
                # a lambda stored per element defers the call just as partial(delayed, ...) does (what it binds is C19.R8's question)
                allowed_total += 1
                lambda_deferral.append(nested)
                r.ok({"site": "map.<lambda>: " + norm(k)})
            elif name in ("init_from_iterable",) and nested is not None:
                r.ok()
            else:
                r.violation(f, k, "%s calls an element callable / mapping function (`%s`) eagerly: the operation is no longer lazy" % (f.short, norm(k)[:60]))
    # the deferred helper is only ever deferred
    mp = p.own_method("LazyList", "map")
    inner = [x for x in mp.node.body if isinstance(x, ast.FunctionDef)]
    need((len(inner) == 1 and inner[0].name == "delayed") or (not inner and lambda_deferral), "C19.R1: map's deferred helper not found")
    dl = inner[0] if inner else None
    if dl is not None:
        r.check(norm(dl.body[-1]) == "return %s(%s())" % (dl.args.args[0].arg, dl.args.args[1].arg), mp, dl, "the deferred helper must evaluate exactly one element and apply the function to it")
    for n in walk_own(mp.node):
        if isinstance(n, ast.Name) and n.id == "delayed" and isinstance(n.ctx, ast.Load):
            par = getattr(n, "_parent", None)
            ok = isinstance(par, ast.Call) and (dotted(par.func) or "") in ("partial", "functools.partial") and par.args and par.args[0] is n
            r.check(ok, mp, n, "`delayed` must only be passed to partial(), never called while mapping")
    if allowed_total < 2:
        raise AnalysisError("C19.R1: expected the two legitimate evaluation sites (scalar __getitem__, map.delayed), found %d" % allowed_total)
    ln = p.own_method("LazyList", "__len__")
    rr = returns_of(ln.node)
    r.check(len(rr) == 1 and norm(rr[0].value) == "len(self._callables)", ln, ln.node, "len() must be the length of the callable list (no evaluation)")
    r.floor(9, "LazyList methods")


def rule_r2(p, res):
    r = res.rule("C19.R2", "receivers and operands unchanged; results own a new list")
    c = _lazy(p)
    eff = get_effects(p)
    for name, f in sorted(c.methods.items()):
        if name == "__init__":
            continue
        r.instance(f)
        if "classmethod" in f.decorators():
            continue
        s = eff.summary(f, c)
        bad = s.on(f.params[0])
        r.check(not bad, bad[0].func if bad else f, bad[0].node if bad else f.node, "LazyList.%s modifies the list it is called on: %s" % (name, bad[0].describe() if bad else ""),
                {"method": name, "self_effects": 0})
        for prm in f.params[1:]:
            b = s.on(prm)
            r.check(not b, f, b[0].node if b else f.node, "LazyList.%s modifies its operand `%s`: %s" % (name, prm, b[0].describe() if b else ""))
    # copy: generic copy + new list object
    cp = p.own_method("LazyList", "copy")
    r.instance(cp)
    d = Defs(cp.node)
    rets = returns_of(cp.node)
    need(len(rets) == 1 and isinstance(rets[0].value, ast.Name), "C19.R2: copy must return a local")
    new = rets[0].value.id
    v = d.single(new)
    r.check(v is not None and norm(v) in ("Copyable.copy(self)", "super().copy()", "super(LazyList, self).copy()"), cp, cp.node, "copy must start from the generic attribute-wise copy")
    st = [n for n in walk_own(cp.node) if isinstance(n, ast.Assign) and norm(n.targets[0]) == "%s._callables" % new]
    ok = len(st) == 1 and norm(st[0].value) in ("list(self._callables)", "self._callables[:]", "self._callables.copy()", "[x for x in self._callables]")
    r.check(ok, cp, st[0] if st else cp.node, "copy must give the new lazy list its own list object (found `%s`)" % (norm(st[0].value) if st else None), {"copy_list": norm(st[0].value) if st else None})
    # map / repeat work on the copy
    for nm in ("map", "repeat"):
        f = p.own_method("LazyList", nm)
        d = Defs(f.node)
        rets = returns_of(f.node)
        need(rets and all(isinstance(x.value, ast.Name) for x in rets), "C19.R2: %s must return a local" % nm)
        new = rets[0].value.id
        v = d.single(new)
        r.check(v is not None and norm(v) == "self.copy()", f, f.node, "%s must work on self.copy()" % nm)
        gq = cfgmod.build(f.node)
        inst = [n for n in walk_own(f.node) if isinstance(n, ast.Assign) and any(isinstance(t, ast.Attribute) and t.attr == "_callables" for t in n.targets)]
        r.check(bool(inst) and gq.must_pass(inst, cfgmod.RETURN), f, inst[0] if inst else f.node, "%s returns on some path without installing the new list of callables (e.g. for a boundary value of its "
                "argument): the result is then just a copy of the receiver" % nm)
        for n in walk_own(f.node):
            if isinstance(n, ast.Assign):
                for t in n.targets:
                    if isinstance(t, ast.Attribute) and t.attr == "_callables":
                        r.check(isinstance(t.value, ast.Name) and t.value.id == new, f, n, "%s assigns _callables on `%s`, not on the fresh copy" % (nm, norm(t.value)))
                        fresh = isinstance(n.value, (ast.ListComp, ast.List)) or (isinstance(n.value, ast.Call) and isinstance(n.value.func, ast.Name) and n.value.func.id == "list")
                        r.check(fresh, f, n, "%s must install a newly built list" % nm)
    # results of __getitem__ / __add__ are new LazyList objects over new lists
    for nm in ("__getitem__", "__add__"):
        f = p.own_method("LazyList", nm)
        for ret in returns_of(f.node):
            v = ret.value
            if isinstance(v, ast.Call) and (dotted(v.func) or "") == "LazyList" and v.args:
                a = v.args[0]
                fresh = isinstance(a, (ast.ListComp, ast.BinOp)) or (isinstance(a, ast.Subscript) and isinstance(a.slice, ast.Name)) or isinstance(a, ast.Call)
                r.check(fresh, f, ret, "%s must build its result over a new list (found `%s`)" % (nm, norm(a)[:40]))
    r.floor(8, "LazyList methods")


def rule_r3(p, res):
    r = res.rule("C19.R3", "index dispatch over all index kinds")
    f = p.own_method("LazyList", "__getitem__")
    idx = f.params[1]
    # no index object is re-interpreted as a slice: range(a, b, s) and slice(a, b, s) disagree for negative end points
    conv = [k for k in calls_in(f.node) if isinstance(k.func, ast.Name) and k.func.id == "slice" and any(isinstance(a_, ast.Attribute) and a_.attr in ("start", "stop", "step") for a_ in k.args)]
    if conv:
        r.instance(f)
        r.violation(f, conv[0], "__getitem__ rebuilds its index as `%s`: a range (or any object with start/stop/step) is not a slice -- negative end points count from the end in a slice "
                    "but are ordinary integers in a range, so `ll[range(n - 1, -1, -1)]` comes back empty" % norm(conv[0])[:60])
        return

    def classify(ret):
        s = norm(ret.value)
        if s == "self._callables[%s]()" % idx:
            return "element"
        if s == "LazyList(self._callables[%s])" % idx:
            return "slice"
        if isinstance(ret.value, ast.Call) and (dotted(ret.value.func) or "") == "LazyList" and ret.value.args and isinstance(ret.value.args[0], ast.ListComp):
            lc = ret.value.args[0]
            if len(lc.generators) == 1 and norm(lc.generators[0].iter) == idx and norm(lc.elt) == "self._callables[%s]" % norm(lc.generators[0].target) and not lc.generators[0].ifs:
                return "iter"
        return "?" + s[:40]

    def test(e, facts):
        it, isint, hasidx = facts
        if isinstance(e, ast.BoolOp):
            vals = [test(v, facts) for v in e.values]
            return all(vals) if isinstance(e.op, ast.And) else any(vals)
        if isinstance(e, ast.UnaryOp) and isinstance(e.op, ast.Not):
            return not test(e.operand, facts)
        s = norm(e)
        if s in ("isinstance(%s, collections_abc.Iterable)" % idx, "isinstance(%s, Iterable)" % idx):
            return it
        if s == "isinstance(%s, int)" % idx:
            return isint
        if s == "hasattr(%s, '__index__')" % idx:
            return hasidx
        if s == "isinstance(%s, slice)" % idx:
            return facts == INDEX_KINDS["slice"]
        raise AnalysisError("C19.R3: unknown dispatch test `%s`" % s)

    def run(body, facts):
        for st in body:
            if isinstance(st, ast.Expr) and isinstance(st.value, ast.Constant):
                continue
            if isinstance(st, ast.If):
                out = run(st.body if test(st.test, facts) else st.orelse, facts)
                if out is not None:
                    return out
            elif isinstance(st, ast.Return):
                return classify(st)
            else:
                extra.append(st)
        return None

    extra = []
    walks = []
    for n in walk_own(f.node):
        its = [gn.iter for gn in n.generators] if isinstance(n, (ast.ListComp, ast.SetComp, ast.GeneratorExp, ast.DictComp)) else ([n.iter] if isinstance(n, ast.For) else [])
        if any(isinstance(x, ast.Name) and x.id == idx for x in its):
            walks.append(n)
    if len(walks) > 1:
        r.violation(f, walks[0], "__getitem__ walks its index %d times (`%s` ...): a one-shot iterable of indices (generator, reversed(), map()) is exhausted by the first pass and "
                    "the selection made by the second is silently empty" % (len(walks), norm(walks[0])[:50]))
        return
    for kind, facts in INDEX_KINDS.items():
        run(f.node.body, facts)
    # statements besides the dispatch: none may walk the index, which may be a one-shot iterable (generator, reversed(), map())
    walkers = []
    for st in extra:
        for n in ast.walk(st):
            its = [gn.iter for gn in n.generators] if isinstance(n, (ast.ListComp, ast.SetComp, ast.GeneratorExp, ast.DictComp)) else ([n.iter] if isinstance(n, ast.For) else [])
            its += [a_ for a_ in n.args] if isinstance(n, ast.Call) and (dotted(n.func) or "") in ("list", "tuple", "len", "sorted", "max", "min", "sum", "np.asarray", "np.array") else []
            if any(isinstance(x, ast.Name) and x.id == idx for x in its):
                walkers.append(st)
    if walkers:
        r.violation(f, walkers[0], "__getitem__ walks its index (`%s`) before selecting with it: a one-shot iterable of indices (generator, reversed(), map()) is exhausted by the first pass and "
                    "the selection is silently empty" % norm(walkers[0])[:60])
    elif extra:
        raise AnalysisError("C19.R3: unexpected statement in __getitem__: %s" % norm(extra[0])[:40])
    for kind, facts in INDEX_KINDS.items():
        r.instance("__getitem__[%s]" % kind)
        got = run(f.node.body, facts)
        r.check(got == WANT[kind], f, f.node, "indexing with a %s is dispatched to `%s`, must be `%s` (%s)" % (kind, got, WANT[kind],
                {"element": "evaluate that one element", "slice": "new lazy list of the sliced callables", "iter": "new lazy list in the order of the index"}[WANT[kind]]),
                {"index_kind": kind, "facts(iterable,int,__index__)": facts, "dispatch": got})
    r.floor(8, "index kinds")


def rule_r4(p, res):
    r = res.rule("C19.R4", "_callables is written only inside LazyList")
    c = _lazy(p)
    n = 0
    for f in p.all_functions():
        inside = f.cls is c
        for x in walk_own(f.node, include_nested=True):
            tgt = None
            if isinstance(x, (ast.Assign, ast.AugAssign)):
                ts = x.targets if isinstance(x, ast.Assign) else [x.target]
                for t in ts:
                    for y in ast.walk(t):
                        if isinstance(y, ast.Attribute) and y.attr == "_callables" and isinstance(y.ctx, ast.Store):
                            tgt = y
                        if isinstance(y, ast.Subscript) and isinstance(y.value, ast.Attribute) and y.value.attr == "_callables" and isinstance(y.ctx, ast.Store):
                            tgt = y
            elif isinstance(x, ast.Call) and isinstance(x.func, ast.Attribute) and isinstance(x.func.value, ast.Attribute) and x.func.value.attr == "_callables" \
                    and x.func.attr in ("append", "extend", "insert", "pop", "remove", "sort", "reverse", "clear"):
                tgt = x
            if tgt is not None:
                n += 1
                if not inside:
                    r.violation(f, x, "%s writes LazyList._callables from outside the class: laziness / ownership can no longer be decided from the class alone" % f.short)
                else:
                    r.ok({"writer": f.short})
    r.instance("package-wide scan: %d writes" % n)
    if n < 3:
        raise AnalysisError("C19.R4: expected at least the three writers inside LazyList (__init__, map, repeat/copy), found %d" % n)


def rule_r5(p, res):
    r = res.rule("C19.R5", "map pairs element i with function i; + is receiver then operand; fancy indexing keeps order")
    mp = p.own_method("LazyList", "map")
    r.instance(mp)
    g = cfgmod.build(mp.node)
    fpar = mp.params[1]
    stores = [n for n in walk_own(mp.node) if isinstance(n, ast.Assign) and any(isinstance(t, ast.Attribute) and t.attr == "_callables" for t in n.targets)]
    need(len(stores) == 2, "C19.R5: map should install the wrapped list on two paths (one function / one per element)")
    for st in stores:
        lc = st.value
        need(isinstance(lc, ast.ListComp) and len(lc.generators) == 1, "C19.R5: map must build the wrapped list with one comprehension")
        gen = lc.generators[0]
        elt = lc.elt
        gs = [(norm(t), pol) for t, pol in g.guards(st)]
        per_elem = any("Iterable" in s and pol for s, pol in gs)
        ok_elt = isinstance(elt, ast.Call) and (dotted(elt.func) or "") in ("partial", "functools.partial") and len(elt.args) == 3 and norm(elt.args[0]) == "delayed"
        r.check(ok_elt, mp, st, "each wrapped element must be partial(delayed, <function>, <element>)")
        if not ok_elt:
            continue
        if per_elem:
            ok = isinstance(gen.iter, ast.Call) and (dotted(gen.iter.func) or "") == "zip" and len(gen.iter.args) == 2 and norm(gen.iter.args[0]) == fpar \
                and norm(gen.iter.args[1]).endswith("._callables") and isinstance(gen.target, ast.Tuple) and [norm(x) for x in gen.target.elts] == [norm(elt.args[1]), norm(elt.args[2])]
            r.check(ok, mp, st, "with one function per element, function i must wrap element i (zip(functions, elements) unpacked in that order)", {"pairing": norm(lc)[:90]})
            # the length check precedes
            raises = [n for n in walk_own(mp.node) if isinstance(n, ast.Raise)]
            okl = any(any(pol and norm(t) in ("len(%s) != len(new)" % fpar, "len(%s) != len(self)" % fpar, "len(%s) != len(new._callables)" % fpar) for t, pol in g.guards(n)) for n in raises)
            r.check(okl, mp, st, "a per-element mapping must be refused unless there is exactly one function per element")
        else:
            ok = norm(gen.iter).endswith("._callables") and isinstance(gen.target, ast.Name) and norm(elt.args[1]) == fpar and norm(elt.args[2]) == gen.target.id and not gen.ifs
            r.check(ok, mp, st, "a single function must wrap every element, in order", {"mapping": norm(lc)[:90]})
    amb = [n for n in walk_own(mp.node) if isinstance(n, ast.Raise)]
    r.check(any(any(pol and "callable(%s)" % fpar in norm(t) and "Iterable" in norm(t) for t, pol in g.guards(n)) for n in amb), mp, mp.node, "an argument that is both iterable and callable must be refused as ambiguous")
    ad = p.own_method("LazyList", "__add__")
    r.instance(ad)
    o = ad.params[1]
    rets = returns_of(ad.node)
    r.check(any(norm(x.value) == "LazyList(self._callables + %s._callables)" % o for x in rets), ad, ad.node, "+ must concatenate the receiver's elements then the operand's")
    r.check(any(norm(x.value) == "self + LazyList.init_from_iterable(%s)" % o for x in rets), ad, ad.node, "a plain iterable operand must be wrapped (values deferred) and appended after the receiver")
    fi = p.own_method("LazyList", "init_from_iterable")
    r.instance(fi)
    r.check("cls([partial(f, x) for x in iterable])" in norm(fi.node), fi, fi.node, "init_from_iterable must defer f(x) for each x in order")
    fc = p.own_method("LazyList", "init_from_index_callable")
    r.instance(fc)
    r.check("cls([partial(f, i) for i in range(n_elements)])" in norm(fc.node), fc, fc.node, "init_from_index_callable must defer f(i) for i = 0..n-1")
    rp = p.own_method("LazyList", "repeat")
    r.instance(rp)
    r.note("repeat(): element order of `%s` is not decided statically" % norm([n for n in walk_own(rp.node) if isinstance(n, ast.Assign) and "_callables" in norm(n.targets[0])][0].value)[:60])


def rule_r6(p, res):
    r = res.rule("C19.R6", "video-backed lazy lists: the stream cursor invariant (index = last frame consumed) gives frame i for request i")
    c = p.cls("FFMpegVideoReader")
    gi = p.own_method("FFMpegVideoReader", "__getitem__")
    r.instance(gi)
    idx = gi.params[1]
    ifs = [n for n in gi.node.body if isinstance(n, ast.If)]
    need(len(ifs) == 1, "C19.R6: reader dispatch not recognised")
    t = ifs[0].test
    parts = t.values if isinstance(t, ast.BoolOp) and isinstance(t.op, ast.Or) else [t]
    cmp_ = [x for x in parts if isinstance(x, ast.Compare) and len(x.ops) == 1 and {norm(x.left), norm(x.comparators[0])} == {idx, "self.index"}]
    need(len(cmp_) == 1, "C19.R6: cursor comparison not found in the re-open test")
    k = cmp_[0]
    op = type(k.ops[0]).__name__
    left_is_idx = norm(k.left) == idx
    ok = (left_is_idx and op == "LtE") or (not left_is_idx and op == "GtE")
    r.check(ok, gi, k, "the pipe must be re-opened whenever the requested frame is not strictly ahead of the cursor (`%s <= self.index`); with `%s` re-reading the frame just read "
            "returns the next frame of the stream" % (idx, norm(k)), {"reopen_test": norm(k)})
    body = norm_block(ifs[0].body, " ")
    r.check(body == "self._open_pipe(frame=%s)" % idx, gi, ifs[0], "re-opening must seek to the requested frame")
    els = norm_block(ifs[0].orelse)
    r.check("to_trash = %s - self.index - 1" % idx in els and "if to_trash > 0:" in els and "self._trash_frames(to_trash)" in els, gi, ifs[0], "frames between the cursor and the request must be skipped (index - cursor - 1 of them)")
    r.check(norm(gi.node.body[-1]) == "return self._read_one_frame()", gi, gi.node, "exactly one frame is read after positioning")
    op_ = p.own_method("FFMpegVideoReader", "_open_pipe")
    r.instance(op_)
    s = norm(op_.node)
    r.check("self.index = frame - 1" in s and "frame = 0" in s, op_, op_.node, "after (re)opening at frame f the cursor is f - 1")
    rd = p.own_method("FFMpegVideoReader", "_read_one_frame")
    r.instance(rd)
    r.check("self.index += 1" in norm(rd.node), rd, rd.node, "reading a frame advances the cursor by one")
    tr = p.own_method("FFMpegVideoReader", "_trash_frames")
    r.instance(tr)
    r.check("self.index += %s" % tr.params[1] in norm(tr.node), tr, tr.node, "skipping n frames advances the cursor by n")
    imp = p.func("menpo.io.input.video.ffmpeg_importer")
    r.instance(imp)
    s = norm(imp.node)
    r.check("LazyList.init_from_index_callable(lambda x: Image.init_from_channels_at_back(reader[x]), len(reader))" in s, imp, imp.node, "element i of a video lazy list must read frame i of the reader")


def rule_r7(p, res):
    r = res.rule("C19.R7", "lazily imported sequences stay lazy: the per-frame landmark resolver is only ever deferred (partial / nested function), never called while the list is built")
    f = p.func("menpo.io.input.base._import_lazylist_attach_landmarks")
    r.instance(f)
    res_p = f.params[1]
    maps = [k for k in calls_in(f.node) if isinstance(k.func, ast.Attribute) and k.func.attr == "map"]
    need(maps, "C19.R7: the lazy list is no longer extended with .map(...) in %s" % f.short)
    # calls of the resolver among the function's own statements (nested function bodies run later, when an element is requested)
    eager = [k for k in calls_in(f.node) if isinstance(k.func, ast.Name) and k.func.id == res_p]
    for k in eager:
        r.violation(f, k, "`%s` calls the landmark resolver while the lazy list is being built: importing a video resolves the landmarks of every frame up front, and reading "
                    "a frame later no longer consults its own resolver" % norm(k)[:60])
    deferred = [k for k in calls_in(f.node, include_nested=True) if (dotted(k.func) or "") in ("partial", "functools.partial") and k.args and isinstance(k.args[0], ast.Name) and k.args[0].id == res_p]
    inner = [k for k in calls_in(f.node, include_nested=True) if k not in calls_in(f.node) and isinstance(k.func, ast.Name) and k.func.id == res_p]
    if not eager:
        need(deferred or inner, "C19.R7: cannot see where %s defers the landmark resolver" % f.short)
        r.ok({"function": f.short, "deferred_sites": len(deferred) + len(inner)})


def _free_names(fn):
    """names a lambda / nested def reads that are not its own parameters, defaults excluded (defaults are evaluated at creation)"""
    a = fn.args
    own = set(x.arg for x in a.posonlyargs + a.args + a.kwonlyargs)
    if a.vararg:
        own.add(a.vararg.arg)
    if a.kwarg:
        own.add(a.kwarg.arg)
    body = [fn.body] if isinstance(fn, ast.Lambda) else fn.body
    out = {}
    for b in body:
        for n in ast.walk(b):
            if isinstance(n, ast.Name) and isinstance(n.ctx, ast.Store):
                own.add(n.id)
    for b in body:
        for n in ast.walk(b):
            if isinstance(n, ast.Name) and isinstance(n.ctx, ast.Load) and n.id not in own:
                out.setdefault(n.id, n)
    return out


def _target_names(t):
    return set(n.id for n in ast.walk(t) if isinstance(n, ast.Name))


def rule_r8(p, res):
    r = res.rule("C19.R8", "deferred element closures bind their per-element values when they are created: no lambda / nested function stored per element "
                 "reads the loop or comprehension variable late (every element would see the last one)")
    mods = ("menpo.base", "menpo.io.input.base", "menpo.io.input.video")
    funcs = [f for f in p.all_functions() if f.module.name in mods]
    if len(funcs) < 40:
        raise AnalysisError("C19.R8: only %d functions in the lazy-list modules (floor 40)" % len(funcs))
    n_loops = 0
    for f in sorted(funcs, key=lambda x: x.qualname):
        for node in walk_own(f.node):
            scopes = []
            if isinstance(node, (ast.ListComp, ast.GeneratorExp, ast.SetComp, ast.DictComp)):
                names = set()
                for g in node.generators:
                    names |= _target_names(g.target)
                elts = [node.key, node.value] if isinstance(node, ast.DictComp) else [node.elt]
                scopes.append((names, elts))
            elif isinstance(node, ast.For):
                scopes.append((_target_names(node.target), node.body))
            for names, bodies in scopes:
                n_loops += 1
                for b in bodies:
                    for n in ast.walk(b):
                        if isinstance(n, (ast.Lambda, ast.FunctionDef)):
                            late = sorted(set(_free_names(n)) & names)
                            if not late:
                                continue
                            # a closure that is called before the iteration ends is harmless; one that is stored / returned per element is not
                            if isinstance(n, ast.FunctionDef) and isinstance(node, ast.For):
                                escapes = any(isinstance(m, ast.Name) and m.id == n.name and isinstance(m.ctx, ast.Load) and not
                                              any(isinstance(c, ast.Call) and c.func is m for c in ast.walk(b2)) for b2 in node.body for m in ast.walk(b2))
                                if not escapes:
                                    continue
                            r.violation(f, n, "%s: the closure created per element reads `%s` from the enclosing loop when it is *called*, not when it is created: after the "
                                        "loop every element evaluates with the last value (bind it as a default argument or with functools.partial)" % (f.short, "`, `".join(late)))
    r.instance("%d functions, %d loops / comprehensions" % (len(funcs), n_loops))
    if n_loops < 15:
        raise AnalysisError("C19.R8: only %d loops/comprehensions inspected (floor 15)" % n_loops)
    r.check(True, "menpo.base", None, "")


def rule_r9(p, res):
    r = res.rule("C19.R9", "glob patterns that select the landmark files of one frame / asset delimit the inserted name: no placeholder is followed directly by `*` "
                 "(frame 1 would also collect the files of frames 10, 11, ...)")
    import re as _re
    n_pat = 0
    for f in sorted(p.all_functions(), key=lambda x: x.qualname):
        if f.module.name != "menpo.io.input.base":
            continue
        for n in walk_own(f.node):
            bad = None
            par = getattr(n, "_parent", None)
            formatted = (isinstance(par, ast.Attribute) and par.attr == "format") or (isinstance(par, ast.BinOp) and isinstance(par.op, ast.Mod) and par.left is n)
            if isinstance(n, ast.Constant) and isinstance(n.value, str) and formatted and "*" in n.value and "\n" not in n.value and _re.search(r"\{[^}]*\}|%[sd]", n.value):
                n_pat += 1
                r.instance("%s: %r" % (f.short, n.value))
                if _re.search(r"(\{[^}]*\}|%[sd])\*", n.value):
                    bad = n
                r.check(bad is None, f, n, "%s builds the glob pattern %r: the inserted value is followed directly by `*`, so it matches every file whose name merely "
                        "starts with it (the element for frame k would pick up the landmarks of frames k0..k9, k00..)" % (f.short, n.value))
            elif isinstance(n, ast.JoinedStr):
                vals = n.values
                if any(isinstance(v, ast.Constant) and "*" in str(v.value) for v in vals) and any(isinstance(v, ast.FormattedValue) for v in vals):
                    n_pat += 1
                    r.instance("%s: f-string pattern" % f.short)
                    ok = not any(isinstance(a, ast.FormattedValue) and isinstance(b, ast.Constant) and str(b.value).startswith("*") for a, b in zip(vals, vals[1:]))
                    r.check(ok, f, n, "%s builds a glob pattern in which an inserted value is followed directly by `*`: it matches every file whose name merely starts with it" % f.short)
    if n_pat < 1:
        raise AnalysisError("C19.R9: no formatted glob pattern found in menpo.io.input.base (same_name_video expected)")


RULES = [rule_r1, rule_r2, rule_r3, rule_r4, rule_r5, rule_r6, rule_r7, rule_r8, rule_r9]

WITNESSES = [
    Witness("C19.W1", "menpo/base.py", "LazyList.repeat", "new = self.copy()", "new = self", rule="C19.R2", construct="repeat"),
    Witness("C19.W2", "menpo/base.py", "LazyList.__add__", "return LazyList(self._callables + other._callables)", "self._callables.extend(other._callables)\n        return self",
            rule="C19.R2", construct="__add__"),
    Witness("C19.W3", "menpo/base.py", "LazyList.map", "new._callables = [partial(delayed, f, x) for x in new._callables]", "new._callables = [partial(f, x()) for x in new._callables]",
            rule="C19.R1", construct="LazyList.map"),
    Witness("C19.W4", "menpo/base.py", "LazyList.__getitem__",
            "if isinstance(slice_, collections_abc.Iterable):\n        return LazyList([self._callables[s] for s in slice_])\n    elif isinstance(slice_, int) or hasattr(slice_, '__index__'):\n        return self._callables[slice_]()",
            "if isinstance(slice_, int) or hasattr(slice_, '__index__'):\n        return self._callables[slice_]()\n    elif isinstance(slice_, collections_abc.Iterable):\n        return LazyList([self._callables[s] for s in slice_])",
            rule="C19.R3", construct="__getitem__"),
    Witness("C19.W5", "menpo/base.py", "LazyList.copy", "new._callables = list(self._callables)", "new._callables = self._callables", rule="C19.R2", construct="LazyList.copy"),
    Witness("C19.W6", "menpo/base.py", "LazyList.map", "for one_f, x in zip(f, new._callables)", "for x, one_f in zip(f, new._callables)", rule="C19.R5", construct="LazyList.map"),
    Witness("C19.W7", "menpo/base.py", "LazyList.__getitem__", "return LazyList([self._callables[s] for s in slice_])", "return LazyList([self._callables[s]() for s in slice_])",
            rule="C19.R1", construct="__getitem__"),
    Witness("C19.W8", "menpo/io/input/video.py", "FFMpegVideoReader.__getitem__", "index <= self.index", "index < self.index", rule="C19.R6", construct="FFMpegVideoReader.__getitem__", note="seeded change C19-A"),
    Witness("C19.W9", "menpo/base.py", "LazyList.repeat", "new._callables = list(chain(*zip(*[new._callables] * n)))", "if n > 1:\n        new._callables = list(chain(*zip(*[new._callables] * n)))",
            rule="C19.R2", construct="repeat", note="seeded change R2-C19-C"),
    Witness("C19.T1", "menpo/base.py", "LazyList.copy", "new._callables = list(self._callables)", "new._callables = self._callables[:]", kind="T"),
]

WITNESSES += [
    Witness("C19.W10", "menpo/io/input/base.py", "_import_lazylist_attach_landmarks", "lm_resolvers = [partial(landmark_resolver, x.path, i) for i in range(len(x))]", "lm_resolvers = [(lambda d: (lambda: d))(landmark_resolver(x.path, i)) for i in range(len(x))]",
            rule="C19.R7", construct="_import_lazylist_attach_landmarks", note="seeded change R3-C19-C (resolver called while the list is built)"),
]

WITNESSES += [
    Witness("C19.W11", "menpo/base.py", "LazyList.__getitem__", "def __getitem__(self, slice_):", "def __getitem__(self, slice_):\n    if isinstance(slice_, range):\n        slice_ = slice(slice_.start, slice_.stop, slice_.step)",
            rule="C19.R3", construct="LazyList.__getitem__", note="seeded change R4-C19-A"),
]

WITNESSES += [
    Witness("C19.W12", "menpo/io/input/video.py", "FFMpegVideoReader._read_one_frame", "self.index += 1", "if self.normalize:\n        self.index += 1", rule="C19.G9", construct="_read_one_frame",
            note="seeded change R5-C19-C (generic: state update skipped on one path)"),
]

WITNESSES += [
    Witness("C19.W_R8a", "menpo/base.py", "LazyList.map", "partial(delayed, one_f, x) for one_f, x in zip(f, new._callables)", "(lambda x=x: one_f(x())) for one_f, x in zip(f, new._callables)",
            rule="C19.R8", construct="map", note="seeded change R6-C19-A (late-bound mapping function: every element uses the last callable)"),
]

WITNESSES += [
    Witness("C19.W_R9", "menpo/io/input/base.py", "same_name_video", "'{}_{}.*'.format(path.stem, frame_number)", "'{}_{}*'.format(path.stem, frame_number)",
            rule="C19.R9", construct="same_name_video", note="seeded change R4-C19-C (lost dot: frame k also matches frames k0..k9)"),
]
