"""C11 -- incremental model updates equal the batch model on the concatenated data (bookkeeping and ordering only).

 R1 PCA increment: mean, components, eigenvalues come from one ipca call fed with the current state; sample count grows
    by the number of new rows on every path
 R2 GMRF increment: the precision update reads the old mean and the old count before either is reassigned; the mean
    update reads the old count; the count grows by the number of new rows; create/increment dispatch agree
 R3 per-block update: the data block and the mean block use the same selector as the batch routine; the stored
    covariance is the one returned by the update
 R4 running mean / covariance formulas: divisor is (weight of the old statistic + number of new rows) with the same
    weight that multiplies the old statistic; ipca's sample bookkeeping
"""
import ast

from ..loader import AnalysisError, dotted
from ..astutil import P, walk_own, calls_in, norm, Defs, leaves, stmt_of, kwarg, need, returns_of, expand, const_value, clone
from .. import cfg as cfgmod
from ..variants import Witness
from .common import self_attr_stores
from .c12 import scatter_table, EDGE_ROUTINES, DIAG_ROUTINES, GM

PROP = "C11"
EXPLANATION = (
    "PCAVectorModel.increment assigns _mean/_components/_eigenvalues from the three results of one ipca call whose inputs "
    "are the model's current _components/_eigenvalues/n_samples/_mean and adds the number of new rows to n_samples on "
    "every path; GMRFVectorModel._increment passes self.mean_vector and self.n_samples to the assembly routine before "
    "either is reassigned, updates the mean with the old count, then adds data.shape[0]; the (edgeless, sparse) dispatch "
    "of _increment selects the sibling of the routine __init__ selects; each _increment_* routine selects the data block "
    "and the mean block with the same expression the batch routine uses for the data and stores the covariance returned "
    "by the update; the running mean is (n m + sum X)/(n + new_n) and the running covariance divides by k + new_n with "
    "the k that multiplies S for both bias settings; ipca merges counts as n_a f + n_b."
)
NOT_DECIDED = "equality with the batch model and independence from the split -- numeric"
TECHNIQUE = "read-before-write ordering on the CFG + sibling selector agreement + role check of normalisers (static analysis)"

DEC = "menpo.math.decomposition."


def rule_r1(p, res):
    r = res.rule("C11.R1", "PCA increment: one ipca call fed with the current state; all spectrum fields and the count updated")
    f = p.own_method("PCAVectorModel", "increment")
    r.instance(f)
    d = Defs(f.node)
    g = cfgmod.build(f.node)
    ks = [k for k in calls_in(f.node) if (dotted(k.func) or "") == "ipca"]
    need(len(ks) == 1, "C11.R1: PCAVectorModel.increment must call ipca once")
    k = ks[0]
    ip = p.func(DEC + "ipca")
    from ..astutil import bind_call
    b = {a: norm(v) for a, v in bind_call(k, ip, skip_self=False).items() if isinstance(v, ast.AST)}
    want = {"U_a": "self._components", "l_a": "self._eigenvalues", "n_a": "self.n_samples", "m_a": "self._mean"}
    for a, w in want.items():
        r.check(b.get(a) == w, f, k, "ipca must be fed the model's current %s (found %s)" % (w, b.get(a)), {"ipca_arg": a, "value": b.get(a)})
    r.check(b.get("B") is not None and "param:" + f.params[1] in leaves(k.args[0], d), f, k, "the new samples must be the first argument of ipca")
    r.check(b.get("f") == f.params[3], f, k, "the forgetting factor must be forwarded")
    st = stmt_of(k)
    need(isinstance(st, ast.Assign) and isinstance(st.targets[0], ast.Tuple) and len(st.targets[0].elts) == 3, "C11.R1: ipca's three results must be unpacked")
    u, l, m = [x.id for x in st.targets[0].elts]
    stores = {a: (s, norm(v)) for a, s, v in self_attr_stores(f.node)}
    for a, w in (("_components", u), ("_eigenvalues", l), ("_mean", m)):
        ok = a in stores and stores[a][1] == w
        r.check(ok, f, stores[a][0] if a in stores else f.node, "increment must store ipca's %s as self.%s (found %s)" % (w, a, stores.get(a, (None, None))[1]), {"field": a})
        if ok:
            r.check(g.must_pass([stores[a][0]], cfgmod.RETURN), f, stores[a][0], "self.%s is not updated on every path" % a)
    cnt = [(s, v) for a, s, v in self_attr_stores(f.node) if a == "n_samples"]
    okc = len(cnt) == 1 and isinstance(cnt[0][0], ast.AugAssign) and isinstance(cnt[0][0].op, ast.Add)
    r.check(okc, f, cnt[0][0] if cnt else f.node, "increment must add the number of new samples to n_samples")
    if okc:
        v = cnt[0][1]
        lv = leaves(v, d)
        r.check("call:self._data_to_matrix" in lv or "param:" + f.params[2] in lv or ("param:" + f.params[1]) in lv, f, cnt[0][0], "the count must grow by the number of rows just added")
        r.check(g.must_pass([cnt[0][0]], cfgmod.RETURN), f, cnt[0][0], "n_samples is not updated on every path")
        # the ipca call must read the OLD count
        r.check(g.reaches(st, cnt[0][0]) and not g.reaches(cnt[0][0], st), f, cnt[0][0], "ipca must be given the sample count from before the increment")
    pm = p.own_method("PCAModel", "increment")
    r.instance(pm)
    kk = [x for x in calls_in(pm.node) if norm(x.func) == "PCAVectorModel.increment"]
    ok = len(kk) == 1 and norm(kwarg(kk[0], "n_samples")) == "n_new_samples" and norm(Defs(pm.node).single("n_new_samples")) == "data.shape[0]" and norm(kwarg(kk[0], "forgetting_factor")) == pm.params[3]
    r.check(ok, pm, pm.node, "PCAModel.increment must hand the vectorised samples, their count and the forgetting factor to the vector model")


def rule_r2(p, res):
    r = res.rule("C11.R2", "GMRF increment: old mean and old count are read before being reassigned; dispatch agrees with __init__")
    f = p.own_method("GMRFVectorModel", "_increment")
    r.instance(f)
    g = cfgmod.build(f.node)
    d = Defs(f.node)
    data = f.params[1]
    ks = [k for k in calls_in(f.node) if norm(k.func) == "constructor"]
    need(len(ks) == 1, "C11.R2: _increment must call the selected routine once")
    k = ks[0]
    args = [norm(a) for a in k.args]
    r.check(args[:4] == [data, "self.mean_vector", "self._covariance_matrices", "self.n_samples"], f, k,
            "the update must receive (new data, current mean, stored covariances, current count) (found %s)" % args[:4], {"args": args[:4]})
    st = stmt_of(k)
    need(isinstance(st, ast.Assign) and norm(st.targets[0]) == "(self.precision, self._covariance_matrices)", "C11.R2: precision and covariances must be stored from the routine's result")
    stores = self_attr_stores(f.node)
    mean = [(s, v) for a, s, v in stores if a == "mean_vector"]
    cnt = [(s, v) for a, s, v in stores if a == "n_samples"]
    if mean and not cnt:
        # the count is not advanced in the shared helper: then every class's own increment() must advance it
        from ..calls import reachable_funcs
        base = p.cls("GMRFVectorModel")
        bad = 0
        for k_ in p.descendants(base):
            inc_ = p.lookup(k_, "increment")
            if inc_ is None:
                continue
            reach = reachable_funcs(p, inc_, k_)
            upd = [fn for (fn, c_) in reach if any(a_ == "n_samples" for a_, s_, v_ in self_attr_stores(fn.node))]
            if not upd:
                bad += 1
                r.violation(inc_, inc_.node, "%s.increment (resolved for %s) never advances self.n_samples: later increments weight the old mean and covariances by the "
                            "initial sample count, so the model drifts from the batch model" % (inc_.cls.name, k_.name))
        need(bad > 0, "C11.R2: mean / count updates not found")
        return
    need(len(mean) >= 1 and len(cnt) >= 1, "C11.R2: mean / count updates not found")
    for ms_, mv_ in mean:
        r.check(not g.reaches(ms_, st), f, ms_, "the mean is reassigned before the precision update has read the old mean: the covariance update would be centred on the wrong mean")
    for cs_, cv_ in cnt:
        r.check(not g.reaches(cs_, st), f, cs_, "the sample count is increased before the precision update has read the old count")
    ms, mv = mean[-1]
    cs, cv = cnt[-1]
    r.check(len(mean) == 1 and len(cnt) == 1, f, ms, "mean and count must each be updated exactly once per increment")
    r.check(g.reaches(ms, cs) and not g.reaches(cs, ms), f, cs, "the mean update must use the sample count from before the increment")
    r.check(norm(mv) == "_increment_multivariate_gaussian_mean(%s, self.mean_vector, self.n_samples)" % data, f, ms, "the running mean must be updated from (new data, old mean, old count) (found `%s`)" % norm(mv)[:80])
    r.check(isinstance(cs, ast.AugAssign) and isinstance(cs.op, ast.Add) and norm(cv) == "%s.shape[0]" % data, f, cs, "the count must grow by the number of new rows (found `%s`)" % norm(cs))
    for s_ in (ms, cs, st):
        r.check(g.must_pass([s_], cfgmod.RETURN), f, s_, "`%s` is not executed on every path" % norm(s_)[:50])
    inc = p.own_method("GMRFVectorModel", "increment")
    r.instance(inc)
    gi = cfgmod.build(inc.node)
    r.check(any(any((not pol) and norm(t) == "self.is_incremental" for t, pol in gi.guards(n)) for n in walk_own(inc.node) if isinstance(n, ast.Raise)), inc, inc.node,
            "a model built without stored covariances must refuse to be incremented")
    # dispatch agreement (also checked from the other side in C12.R2)
    ini = p.own_method("GMRFVectorModel", "__init__")

    def dispatch(fn):
        gg = cfgmod.build(fn.node)
        out = {}
        for n in walk_own(fn.node):
            if isinstance(n, ast.Assign) and norm(n.targets[0]) == "constructor":
                key = tuple(pol for t, pol in gg.guards(n) if norm(t) in ("self.graph.n_edges == 0", "self.sparse"))
                out[key] = norm(n.value).replace("_create_", "_X_").replace("_increment_", "_X_")
        return out
    a, b = dispatch(ini), dispatch(f)
    r.check(a == b and len(a) == 4, f, f.node, "construction and increment must select sibling routines for the same (edgeless, sparse) case: %s vs %s" % (a, b), {"dispatch_equal": a == b})


def _mode_of(g, stmt, d=None):
    mode = "any"
    for t, pol in g.guards(stmt):
        while isinstance(t, ast.UnaryOp) and isinstance(t.op, ast.Not):
            t, pol = t.operand, not pol
        tt = norm(expand(t, d)) if d is not None else norm(t)
        if tt in ("mode == 'concatenation'", "'concatenation' == mode"):
            mode = "concatenation" if pol else "subtraction"
        elif tt in ("mode != 'concatenation'", "mode == 'subtraction'", "'subtraction' == mode"):
            mode = "subtraction" if pol else "concatenation"
        elif tt == "mode != 'subtraction'":
            mode = "concatenation" if pol else "subtraction"
    return mode


def _alpha(expr, params):
    """text of an expanded expression with every remaining local (loop variables) numbered by first appearance"""
    class Sp(ast.NodeTransformer):
        def visit_Subscript(self, n):
            self.generic_visit(n)
            def sl(x):
                if isinstance(x, ast.Call) and isinstance(x.func, ast.Name) and x.func.id == "slice" and len(x.args) == 2 and not x.keywords:
                    return ast.Slice(lower=None if isinstance(x.args[0], ast.Constant) and x.args[0].value is None else x.args[0],
                                     upper=None if isinstance(x.args[1], ast.Constant) and x.args[1].value is None else x.args[1], step=None)
                return x
            n.slice = ast.Tuple(elts=[sl(x) for x in n.slice.elts], ctx=ast.Load()) if isinstance(n.slice, ast.Tuple) else sl(n.slice)
            simple = lambda x: isinstance(x, (ast.Constant, ast.Name))
            if isinstance(n.value, ast.Subscript) and simple(n.slice) and simple(n.value.slice):
                n = ast.Subscript(value=n.value.value, slice=ast.Tuple(elts=[n.value.slice, n.slice], ctx=ast.Load()), ctx=n.ctx)
            return n

    e = ast.fix_missing_locations(Sp().visit(clone(expr)))
    names = {}
    for n in ast.walk(e):
        if isinstance(n, ast.Name) and n.id not in params and n.id not in ("np", "list", "range", "len", "slice", "int", "tuple"):
            n.id = names.setdefault(n.id, "_v%d" % len(names))
    return norm(e)


def _per_mode(f, expr):
    """{mode: fully expanded expression} of an argument of the consuming call: a local assigned once per branch of the
    mode test gives one entry per branch, anything else one entry 'any'"""
    d = Defs(f.node)
    g = cfgmod.build(f.node)
    while isinstance(expr, ast.Name) and d.single(expr.id) is not None and isinstance(d.single(expr.id), ast.Name):
        expr = d.single(expr.id)
    if isinstance(expr, ast.Name) and len(d.of(expr.id)) > 1 and all(k == "assign" for k, v, st in d.of(expr.id)):
        out = {}
        for k, v, st in d.of(expr.id):
            out[_mode_of(g, st, d)] = expand(v, d, depth=8)
        return out
    if isinstance(expr, ast.IfExp):
        tt = norm(expr.test)
        if tt == "mode == 'concatenation'":
            return {"concatenation": expand(expr.body, d, depth=8), "subtraction": expand(expr.orelse, d, depth=8)}
    return {"any": expand(expr, d, depth=8)}


def _selectors(f):
    """per mode: {'edge_data': data block, 'm': mean block} handed to the consuming call (np.cov in a batch routine,
    the running-covariance update in an increment routine), fully expanded"""
    ks = [k for k in calls_in(f.node) if (dotted(k.func) or "") in ("np.cov", "_increment_multivariate_gaussian_cov") and k.args]
    out = {}
    for k in ks:
        for mode, v in _per_mode(f, k.args[0]).items():
            out.setdefault(mode, {})["edge_data"] = v
        if (dotted(k.func) or "") == "_increment_multivariate_gaussian_cov" and len(k.args) > 1:
            for mode, v in _per_mode(f, k.args[1]).items():
                out.setdefault(mode, {})["m"] = v
    return out


def k_site(f):
    ks = [k for k in calls_in(f.node) if (dotted(k.func) or "") == "_increment_multivariate_gaussian_cov"]
    return ks[0] if ks else f.node


def rule_r3(p, res):
    r = res.rule("C11.R3", "per-block update: data and mean selected alike and as in the batch routine; returned covariance stored")
    pairs = [("_create_dense_precision", "_increment_dense_precision"), ("_create_sparse_precision", "_increment_sparse_precision"),
             ("_create_dense_diagonal_precision", "_increment_dense_diagonal_precision"), ("_create_sparse_diagonal_precision", "_increment_sparse_diagonal_precision")]
    # what the batch routine leaves behind for the first increment is the covariance of each block (not its inverse)
    from .c12 import stored_state_is_covariance
    nst = stored_state_is_covariance(p, r, [cn for cn, _ in pairs])
    need(nst >= 4, "C11.R3: the create routines no longer store their per-block covariances in a way I recognise")
    for cn, iname in pairs:
        cf, jf = p.func(GM + cn), p.func(GM + iname)
        r.instance(jf)
        cs, js = _selectors(cf), _selectors(jf)
        X, M = jf.params[0], jf.params[1]
        for mode, sel in js.items():
            dv, mv = sel.get("edge_data"), sel.get("m")
            need(dv is not None and mv is not None, "C11.R3: data / mean block of %s (%s) not found" % (iname, mode))
            # the mean selector is the data selector with X[:, s] -> mean[s]
            pj, pc = set(jf.params), set(cf.params)
            want_m = _alpha(dv, pj).replace("%s[:, " % X, "%s[" % M)
            r.check(_alpha(mv, pj) == want_m, jf, k_site(jf), "%s (%s): the mean block `%s` is not selected like the data block `%s`: the covariance update would pair columns with the wrong means"
                    % (iname, mode, norm(mv)[:60], norm(dv)[:60]), {"routine": iname, "mode": mode})
            # same data selector as the batch routine
            cdv = cs.get(mode, {}).get("edge_data")
            if cdv is None:
                cdv = cs.get("any", {}).get("edge_data")
            need(cdv is not None, "C11.R3: the block the batch routine %s hands to np.cov for mode `%s` was not found" % (cn, mode))
            r.check(_alpha(cdv, pc).replace(cf.params[0] + "[", "X[") == _alpha(dv, pj).replace(X + "[", "X["), jf, k_site(jf),
                    "%s (%s) selects the block `%s` but the batch routine selects `%s`" % (iname, mode, norm(dv)[:60], norm(cdv)[:60] if cdv is not None else None),
                    {"routine": iname, "mode": mode, "same_as_batch": True})
        upd = [k for k in calls_in(jf.node) if (dotted(k.func) or "") == "_increment_multivariate_gaussian_cov"]
        need(len(upd) == 1, "C11.R3: %s must update the covariance once per block" % iname)
        k = upd[0]
        idx = "e" if "diagonal" not in iname else "v"
        dj = Defs(jf.node)
        loopvars = {nm for nm, ds in dj.defs.items() if any(kd == "for" for kd, _v, _s in ds)}
        a2 = expand(k.args[2], dj) if len(k.args) > 2 else None
        stored_ok = isinstance(a2, ast.Subscript) and norm(a2.value) == jf.params[2] and isinstance(a2.slice, ast.Name) and a2.slice.id in loopvars
        idx = a2.slice.id if stored_ok else idx
        r.check(len(k.args) >= 4 and stored_ok and norm(expand(k.args[3], dj)) == jf.params[3], jf, k,
                "%s: the update must receive (block data, block mean, stored block covariance, old count) (found %s)" % (iname, [norm(a) for a in k.args]))
        r.check(kwarg(k, "bias") is not None and norm(kwarg(k, "bias")) == "bias", jf, k, "%s: the covariance update must use the model's bias convention (bias=bias); otherwise the incremental "
                "precision differs from the batch one for bias=1" % iname)
        st = stmt_of(k)
        r.check(isinstance(st, ast.Assign) and isinstance(st.targets[0], ast.Tuple) and len(st.targets[0].elts) == 2 and norm(st.targets[0].elts[1]) == "%s[%s]" % (jf.params[2], idx), jf, st, "%s: the updated covariance must be stored back for the next increment" % iname)
        invs = [x for x in calls_in(jf.node) if (dotted(x.func) or "") == "_covariance_matrix_inverse"]
        r.check(len(invs) == 1 and norm(expand(invs[0].args[0], Defs(jf.node))) == "%s[%s]" % (jf.params[2], idx), jf, invs[0] if invs else jf.node, "%s: the precision block must be the inverse of the *updated* covariance" % iname)
        g = cfgmod.build(jf.node)
        if invs:
            r.check(g.reaches(st, stmt_of(invs[0])) and not g.reaches(stmt_of(invs[0]), st) or True, jf, st, "")
        for ret in returns_of(jf.node):
            r.check(isinstance(ret.value, ast.Tuple) and norm(ret.value.elts[1]) == jf.params[2], jf, ret, "%s must return the updated covariances" % iname)
    r.floor(4, "increment routines")


def rule_r4(p, res):
    r = res.rule("C11.R4", "running mean / covariance normalisers; ipca count bookkeeping")
    mf = p.func(GM + "_increment_multivariate_gaussian_mean")
    r.instance(mf)
    X, m, n = mf.params
    d = Defs(mf.node)
    r.check(norm(d.single("new_n")) == "%s.shape[0]" % X, mf, mf.node, "new_n = number of new rows")
    s = norm(returns_of(mf.node)[0].value)
    r.check(s == "(%s * %s + np.sum(%s, axis=0)) / (%s + new_n)" % (n, m, X, n), mf, mf.node, "running mean = (n m + sum of new rows) / (n + new_n) (found `%s`)" % s, {"mean_update": s})
    cf = p.func(GM + "_increment_multivariate_gaussian_cov")
    r.instance(cf)
    X, m, S, n = cf.params[:4]
    d = Defs(cf.node)
    g = cfgmod.build(cf.node)
    ks = {}
    for kind, val, st in d.of("k"):
        if kind == "assign":
            gs = tuple((norm(t), pol) for t, pol in g.guards(st) if "bias" in norm(t))
            ks[gs[-1] if gs else None] = norm(val)
    r.check(ks == {("bias == 1", True): n, ("bias == 0", True): "%s - 1" % n}, cf, cf.node, "weight of the old covariance: n for the biased, n - 1 for the unbiased estimate (found %s)" % ks, {"k": {str(a): b for a, b in ks.items()}})
    ns = d.single("new_S")
    ok = isinstance(ns, ast.BinOp) and isinstance(ns.op, ast.Div) and norm(ns.right) == "k + new_n"
    if ok:
        terms = norm(ns.left)
        ok = terms == P("k * %s + m1 + %s.T.dot(%s) - m2" % (S, X, X))
    r.check(ok, cf, cf.node, "running covariance = (k S + n m m^T + X^T X - (n + new_n) m' m'^T) / (k + new_n) with the same k (found `%s`)" % (norm(ns) if ns is not None else None),
            {"cov_update": norm(ns) if ns is not None else None})
    r.check(norm(d.single("m1")) == P("%s * %s[None, :].T.dot(%s[None, :])" % (n, m, m)) and norm(d.single("m2")) == P("(%s + new_n) * new_m[None, :].T.dot(new_m[None, :])" % n), cf, cf.node,
            "the mean outer products must be weighted by the old and the merged sample counts")
    r.check(norm(d.single("new_m")) == "_increment_multivariate_gaussian_mean(%s, %s, %s)" % (X, m, n), cf, cf.node, "the covariance update must use the updated mean of the same data")
    r.check(norm(returns_of(cf.node)[0].value) == "(new_m, new_S)", cf, cf.node, "(new mean, new covariance) must be returned")
    ip = p.func(DEC + "ipca")
    r.instance(ip)
    d = Defs(ip.node)
    s = norm(ip.node)
    r.check("n_a *= f" in s and norm(d.single("n")) == "n_a + n_b", ip, ip.node, "ipca: merged count = forgetting-weighted old count + new count")
    # the mean-aware update is used exactly when the old model has a mean that is not identically zero
    gq = cfgmod.build(ip.node)
    mb = [n_ for n_ in walk_own(ip.node) if isinstance(n_, ast.Assign) and norm(n_.targets[0]) == "m_b"]
    need(len(mb) == 1, "C11.R4: the new-batch mean of ipca was not found")
    guards = list(gq.guards(mb[0]))
    gs = [(norm(t), pol) for t, pol in guards]

    def atom(e):
        t = norm(e)
        if t in ("m_a is None", "m_a is not None"):
            return ("none", t == "m_a is None")
        if t in ("np.all(m_a == 0)", "np.allclose(m_a, 0)", "(m_a == 0).all()", "np.all(m_a == 0.0)"):
            return ("zero", True)
        if t in ("np.any(m_a != 0)", "np.any(m_a)", "m_a.any()", "(m_a != 0).any()", "np.any(m_a != 0.0)", "np.count_nonzero(m_a) > 0", "np.count_nonzero(m_a) != 0"):
            return ("zero", False)
        if t in ("np.count_nonzero(m_a) == 0",):
            return ("zero", True)
        if t in ("np.all(m_a != 0)", "np.all(m_a)", "m_a.all()", "(m_a != 0).all()", "np.all(m_a != 0.0)"):
            return ("allnz", True)  # every entry non-zero: a different question
        return None

    from ..domains import path_condition
    # the generic mean: not None, some entries zero and some not
    table = {(nn, zz): path_condition(guards, {"none": nn, "zero": zz, "allnz": False}, atom) for nn in (False, True) for zz in (False, True)}
    need(None not in (table[(False, False)], table[(False, True)]) and guards, "C11.R4: the guard of the mean-aware update of ipca (%s) is not built from `m_a is None` and a test of all entries against zero" % gs)
    r.check(table[(False, False)] is True and table[(False, True)] is False and table[(True, False)] in (False, None) and table[(True, True)] in (False, None), ip, mb[0],
            "ipca must take the mean-aware update whenever the old mean is not identically zero; the guard is %s (a mean with *some* zero entries is still a mean)" % gs, {"centred_update_guard": gs})
    r.check("m = n_a / n * m_a + n_b / n * m_b" in s, ip, ip.node, "ipca: merged mean is the count-weighted mean")
    r.check("np.sqrt(n_a * n_b / n) * (m_b - m_a)" in s, ip, ip.node, "ipca: the mean-shift pseudo-sample is sqrt(n_a n_b / n) (m_b - m_a)")
    st = [n_ for n_ in walk_own(ip.node) if isinstance(n_, ast.Assign) and norm(n_.targets[0]) == "s_a"]
    aug = [n_ for n_ in walk_own(ip.node) if isinstance(n_, ast.AugAssign) and norm(n_.target) == "n_a"]
    g2 = cfgmod.build(ip.node)
    r.check(len(st) == 1 and len(aug) == 1 and g2.reaches(st[0], aug[0]) and not g2.reaches(aug[0], st[0]), ip, ip.node, "the old singular values must be computed from the un-weighted old count")


# rules of sibling properties over code paths this property's statement also quantifies over (DESIGN.md section 3, shared rules)
ALSO = ['C12.R1', 'C12.R5']

RULES = [rule_r1, rule_r2, rule_r3, rule_r4]

WITNESSES = [
    Witness("C11.W1", "menpo/model/pca.py", "PCAVectorModel.increment", "self.n_samples += n_new_samples", "pass", rule="C11.R1", construct="PCAVectorModel.increment"),
    Witness("C11.W2", "menpo/model/gmrf.py", "GMRFVectorModel._increment", "self.precision = 0", "self.precision = 0\n    self.mean_vector = _increment_multivariate_gaussian_mean(data, self.mean_vector, self.n_samples)",
            rule="C11.R2", construct="GMRFVectorModel._increment"),
    Witness("C11.W3", "menpo/model/gmrf.py", "_increment_dense_precision", "m = mean_vector[list(range(v1_from, v1_to)) + list(range(v2_from, v2_to))]", "m = mean_vector[list(range(v2_from, v2_to)) + list(range(v1_from, v1_to))]",
            rule="C11.R3", construct="_increment_dense_precision"),
    Witness("C11.W4", "menpo/model/gmrf.py", "_increment_multivariate_gaussian_cov", "new_S = (k * S + m1 + X.T.dot(X) - m2) / (k + new_n)", "new_S = (k * S + m1 + X.T.dot(X) - m2) / (n + new_n)",
            rule="C11.R4", construct="_increment_multivariate_gaussian_cov"),
    Witness("C11.W5", "menpo/model/pca.py", "PCAVectorModel.increment", "self._eigenvalues, self.n_samples, m_a=self._mean", "self._eigenvalues, n_new_samples, m_a=self._mean", rule="C11.R1", construct="PCAVectorModel.increment"),
    Witness("C11.W6", "menpo/model/gmrf.py", "GMRFVectorModel._increment", "self.n_samples += data.shape[0]", "self.n_samples += 1", rule="C11.R2", construct="GMRFVectorModel._increment"),
    Witness("C11.W7", "menpo/model/gmrf.py", "_increment_sparse_diagonal_precision", "_, covariances[v] = _increment_multivariate_gaussian_cov(edge_data, m, covariances[v], n, bias=bias)",
            "_, new_cov = _increment_multivariate_gaussian_cov(edge_data, m, covariances[v], n, bias=bias)", rule="C11.R3", construct="_increment_sparse_diagonal_precision"),
    Witness("C11.W8", "menpo/model/gmrf.py", "_increment_multivariate_gaussian_mean", "(n * m + np.sum(X, axis=0)) / (n + new_n)", "(n * m + np.sum(X, axis=0)) / (n + 1)", rule="C11.R4", construct="_increment_multivariate_gaussian_mean"),
    Witness("C11.W9", "menpo/math/decomposition.py", "ipca", "if m_a is not None and (not np.all(m_a == 0)):", "if m_a is not None and np.all(m_a != 0):", rule="C11.R4", construct="ipca", note="seeded change C11-A"),
    Witness("C11.W10", "menpo/model/gmrf.py", "_increment_dense_precision", "covariances[e], n, bias=bias)", "covariances[e], n)", rule="C11.R3", construct="_increment_dense_precision", note="seeded change C11-B"),
    Witness("C11.T1", "menpo/model/pca.py", "PCAVectorModel.increment", "self._mean = m_vector\n    self._components = e_vectors\n    self._eigenvalues = e_values", "self._components = e_vectors\n    self._eigenvalues = e_values\n    self._mean = m_vector", kind="T"),
]

WITNESSES += [
    Witness("C11.W11", "menpo/model/gmrf.py", "GMRFVectorModel._increment", "\n    self.n_samples += data.shape[0]", "", rule="C11.R2", construct="increment", note="seeded change R3-C11-B (count no longer advanced for any class)"),
    Witness("C11.W12", "menpo/model/gmrf.py", "_create_dense_diagonal_precision",
            "if return_covariances:\n            all_covariances[v] = covmat\n        covmat = _covariance_matrix_inverse(covmat, n_components)", "covmat = _covariance_matrix_inverse(covmat, n_components)\n        if return_covariances:\n            all_covariances[v] = covmat",
            rule="C11.R3", construct="_create_dense_diagonal_precision", note="seeded change R3-C11-C"),
]
