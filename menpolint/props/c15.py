"""C15 -- labelled groups select exactly what labels say, in deterministic order.

 R1 every index-based predefined labeller is folded to constants: size check first, outputs are distinct input rows,
    every output point labelled, connectivity in range, ordered mapping, input untouched
 R2 no set of labels flows into an order-significant sink
 R3 coverage invariant: every point labelled is verified on construction / removal; selection restricts every mask
    with the selector it passes to from_mask; unknown labels rejected
 R4 with_labels / without_labels / get_label / add_label / remove_label do not modify the group
"""
import ast
from collections import OrderedDict

import numpy as np

from ..loader import AnalysisError, dotted
from ..astutil import walk_own, calls_in, norm, Defs, leaves, stmt_of, kwarg, need, returns_of
from .. import cfg as cfgmod
from ..effects import get_effects
from ..fold import Folder, FoldError, is_labeller, ShapeV, Points, PCloud
from ..variants import Witness

PROP = "C15"
EXPLANATION = (
    "All predefined index-based labellers are evaluated by a constant folder (integer arrays folded with the installed "
    "numpy; the input point cloud and the shapes built from it stay symbolic): validate_input fixes the expected size "
    "before any coordinate is read, the output rows are distinct input rows inside the validated size, the union of the "
    "label index sets is exactly 0..n_out-1, every connectivity index is in range, the mapping is an ordered mapping, and "
    "the labeller's mutation summary on its input is empty; in the labelled-graph code no set of labels reaches a "
    "list/zip/ordered-mapping sink that fixes label order; the every-point-labelled check is reached on every "
    "construction and removal path and selection restricts each mask with the same selector it masks the graph with; "
    "the five selection/editing methods have empty mutation summaries on self."
)
NOT_DECIDED = "nothing numeric is involved; labellers the folder cannot evaluate are reported as undecided (fewer than 33 decided is an analysis error)"
TECHNIQUE = "constant folding / abstract interpretation of the labellers + set-order taint + mutation summaries (static analysis)"


def labellers(p):
    out = []
    for f in p.functions.values():
        if f.module.name.startswith("menpo.landmark.labels") and is_labeller(f):
            out.append(f)
    return sorted(out, key=lambda f: f.qualname)


def rule_r1(p, res):
    r = res.rule("C15.R1", "labellers folded to constants: size check first; distinct input rows; all labelled; indices in range; input untouched")
    eff = get_effects(p)
    decided = 0
    fs = labellers(p)
    for f in fs:
        if f.module.name.endswith("bounding_box"):
            # corner-constructing labellers are outside the clause; only the input-untouched part applies
            r.instance(f.short + " (effects only)")
            s = eff.summary(f)
            bad = s.on(f.params[0])
            r.check(not bad, f, bad[0].node if bad else f.node, "%s writes into its input: %s" % (f.short, bad[0].describe() if bad else ""))
            continue
        r.instance(f)
        fo = Folder(p)
        pc = PCloud()
        try:
            shape, mapping = fo.call_labeller(f, pc, True)
        except FoldError as e:
            ev = [x for x in pc.events if x[0] == "points-before-validation"]
            if ev:
                decided += 1
                r.violation(f, ev[0][1], "%s reads the coordinates of its input before (or without) validate_input: a point set of the wrong size is "
                            "re-indexed instead of being rejected" % f.short)
            else:
                r.undecide("%s: %s" % (f.short, e))
            continue
        except RecursionError:
            r.undecide("%s: recursion" % f.short)
            continue
        if not isinstance(shape, ShapeV):
            r.undecide("%s: result is not a shape" % f.short)
            continue
        decided += 1
        n_in = pc.n
        # (a) the size check exists (the folder refuses to read points before it)
        r.check(n_in is not None, f, f.node, "%s never validates the size of its input (validate_input): a point set of the wrong size is not rejected" % f.short,
                {"labeller": f.short, "n_expected": n_in})
        if n_in is None:
            continue
        sel = shape.points.sel
        n_out = len(sel)
        # (b) outputs are distinct input rows
        dup = sorted({int(x) for x in sel if list(sel).count(x) > 1})
        oob = sorted({int(x) for x in sel if x < 0 or x >= n_in})
        r.check(not dup, f, f.node, "%s outputs input point(s) %s more than once: output points must be distinct input points" % (f.short, dup))
        r.check(not oob, f, f.node, "%s selects input row(s) %s outside the validated size %d" % (f.short, oob, n_in))
        # (c) every output point labelled, (e) ordered mapping
        r.check(isinstance(mapping, OrderedDict), f, f.node, "%s returns a mapping that is not an ordered mapping (label order would not be defined)" % f.short)
        if isinstance(mapping, dict):
            labelled = set()
            bad_idx = []
            for lab, idx in mapping.items():
                for i in np.asarray(idx).ravel().tolist():
                    if i < 0 or i >= n_out:
                        bad_idx.append((lab, int(i)))
                    labelled.add(int(i))
            missing = sorted(set(range(n_out)) - labelled)
            r.check(not missing, f, f.node, "%s leaves output point(s) %s without any label (labels cover %d of %d points)" % (f.short, missing, n_out - len(missing), n_out),
                    {"labeller": f.short, "n_in": n_in, "n_out": n_out, "labels": list(mapping.keys())[:8]})
            r.check(not bad_idx, f, f.node, "%s: label index out of range for %d output points: %s" % (f.short, n_out, bad_idx[:5]))
            if shape.mapping is not None:
                r.check(shape.mapping is mapping or list(shape.mapping.keys()) == list(mapping.keys()), f, f.node, "%s: returned mapping differs from the one the group was built with" % f.short)
        # (d) connectivity
        if shape.edges is not None:
            bad_e = [(a, b) for a, b in shape.edges if not (0 <= a < n_out and 0 <= b < n_out)]
            r.check(not bad_e, f, f.node, "%s: connectivity refers to point(s) outside 0..%d: %s" % (f.short, n_out - 1, bad_e[:5]), {"labeller": f.short, "n_edges": len(shape.edges)})
        if shape.trilist is not None:
            tl = np.asarray(shape.trilist)
            if tl.size and (tl.min() < 0 or tl.max() >= n_out):
                r.note("%s: triangle list index %d is outside its %d output points (not part of C15's clauses; recorded only)" % (f.short, int(tl.max()), n_out))
        # (f) input untouched
        s = eff.summary(f)
        bad = s.on(f.params[0])
        r.check(not bad, f, bad[0].node if bad else f.node, "%s writes into its input: %s" % (f.short, bad[0].describe() if bad else ""))
    if decided < 33:
        raise AnalysisError("C15.R1: only %d of the index-based labellers could be folded (floor 33): %s" % (decided, r.undecided[:4]))
    # validate_input itself
    vi = p.func("menpo.landmark.labels.base.validate_input")
    r.instance(vi)
    g = cfgmod.build(vi.node)
    d = Defs(vi.node)
    ok = False
    for n in walk_own(vi.node):
        if isinstance(n, ast.Raise):
            for t, pol in g.guards(n):
                if pol and isinstance(t, ast.Compare) and len(t.ops) == 1 and isinstance(t.ops[0], ast.NotEq):
                    lv = leaves(t, d)
                    ok = ("param:" + vi.params[0]) in lv and ("param:" + vi.params[1]) in lv and any("n_points" in norm(x) for x in ast.walk(vi.node) if isinstance(x, ast.Attribute))
    r.check(ok, vi, vi.node, "validate_input must raise when the number of points differs from the expected number")
    # the decorator passes arrays through a PointCloud wrapper without copying the caller's data away from the labeller
    lf = p.func("menpo.landmark.labels.base.labeller_func")
    r.instance(lf)
    s = norm(lf.node)
    r.check("labelling_method(x)" in s and "if return_mapping:" in s, lf, lf.node, "labeller_func's wrapper must call the labeller on the input and honour return_mapping")


SET_METHODS = {"difference", "union", "intersection", "symmetric_difference", "copy"}
ORDER_SINKS = {"list", "tuple", "zip", "OrderedDict", "enumerate", "iter", "next"}


def _set_typed(e, setnames):
    if isinstance(e, (ast.Set, ast.SetComp)):
        return True
    if isinstance(e, ast.Name):
        return e.id in setnames
    if isinstance(e, ast.Call):
        if isinstance(e.func, ast.Name) and e.func.id in ("set", "frozenset"):
            return True
        if isinstance(e.func, ast.Attribute) and e.func.attr in SET_METHODS and _set_typed(e.func.value, setnames):
            return True
    if isinstance(e, ast.BinOp) and isinstance(e.op, (ast.Sub, ast.BitOr, ast.BitAnd, ast.BitXor)):
        return _set_typed(e.left, setnames) or _set_typed(e.right, setnames)
    return False


def _int_set(e):
    """sets built from integer index data are order-stable across hash seeds"""
    s = norm(e)
    return "range(" in s or "nonzero()" in s


def rule_r2(p, res):
    r = res.rule("C15.R2", "no set of labels flows into an order-significant sink")
    fs = [f for f in p.all_functions() if f.module.name in ("menpo.shape.labelled",) or f.module.name.startswith("menpo.landmark.labels")]
    for f in fs:
        r.instance(f)
        setnames = set()
        for _ in range(3):
            for n in walk_own(f.node):
                if isinstance(n, ast.Assign) and len(n.targets) == 1 and isinstance(n.targets[0], ast.Name) and _set_typed(n.value, setnames) and not _int_set(n.value):
                    setnames.add(n.targets[0].id)
        for n in walk_own(f.node, include_nested=True):
            src = None
            if isinstance(n, ast.Call) and isinstance(n.func, ast.Name) and n.func.id in ORDER_SINKS:
                for a in n.args:
                    if _set_typed(a, setnames) and not _int_set(a):
                        src = a
            elif isinstance(n, (ast.For, ast.comprehension)) and _set_typed(n.iter, setnames) and not _int_set(n.iter):
                # iteration order of a set only matters if something ordered is built from it
                body_src = norm(n) if isinstance(n, ast.For) else norm(getattr(n, "_parent", n))
                if isinstance(n, ast.comprehension) and isinstance(getattr(n, "_parent", None), (ast.SetComp,)):
                    src = None
                elif isinstance(n, ast.For) and not any(isinstance(c.func, ast.Attribute) and c.func.attr in ("append", "extend", "insert") or
                                                        isinstance(x, ast.Subscript) for x in ast.walk(n) for c in ([x] if isinstance(x, ast.Call) else [])):
                    src = None
                else:
                    src = n.iter
            if src is None:
                if isinstance(n, ast.Call) and isinstance(n.func, ast.Name) and n.func.id in ORDER_SINKS:
                    r.ok()
                continue
            st = stmt_of(n) if not isinstance(n, ast.stmt) else n
            # a set that only reaches an exception message is not a sink
            x = n
            in_raise = False
            while x is not None and not isinstance(x, (ast.FunctionDef, ast.AsyncFunctionDef)):
                if isinstance(x, ast.Raise):
                    in_raise = True
                x = getattr(x, "_parent", None)
            if in_raise:
                r.ok({"function": f.short, "set_in_error_message": norm(src)[:50]})
                continue
            r.violation(f, st, "the set `%s` is turned into a sequence (`%s`): its iteration order depends on the interpreter's hash seed, so the "
                        "order of the resulting labels changes from run to run" % (norm(src)[:50], norm(n)[:60] if not isinstance(n, (ast.For, ast.comprehension)) else "iteration"))
    r.floor(40, "functions scanned")


def rule_r3(p, res):
    r = res.rule("C15.R3", "every-point-labelled invariant is verified; selection restricts masks with the selector it masks the graph with")
    c = p.cls("LabelledPointUndirectedGraph")
    init = p.own_method("LabelledPointUndirectedGraph", "__init__")
    rem = p.own_method("LabelledPointUndirectedGraph", "remove_label")
    for f in (init, rem):
        r.instance(f)
        g = cfgmod.build(f.node)
        ver = [stmt_of(k) for k in calls_in(f.node) if isinstance(k.func, ast.Attribute) and k.func.attr == "_verify_all_labels_masked"]
        r.check(bool(ver) and g.must_pass(ver, cfgmod.RETURN), f, f.node, "%s can complete without checking that every point still carries a label" % f.short)
    # in __init__ the check must see the masks that are stored
    st = [n for n in walk_own(init.node) if isinstance(n, ast.Assign) and norm(n.targets[0]) == "self._labels_to_masks"]
    g = cfgmod.build(init.node)
    ver = [stmt_of(k) for k in calls_in(init.node) if isinstance(k.func, ast.Attribute) and k.func.attr == "_verify_all_labels_masked"]
    r.check(bool(st) and bool(ver) and any(g.dominates(s, ver[0]) for s in st), init, init.node, "the coverage check must run after the label masks are stored")
    s = norm(init.node)
    from ..astutil import raising_ifs
    r.check(any((not pol) and norm(t) == "isinstance(labels_to_masks, OrderedDict)" for t, pol, n_ in raising_ifs(init.node)), init, init.node, "the constructor must insist on an ordered mapping of labels")
    r.check("OrderedDict([(l, m.copy()) for l, m in labels_to_masks.items()])" in s, init, init.node, "copied label masks must keep their order")
    va = p.own_method("LabelledPointUndirectedGraph", "_verify_all_labels_masked")
    r.instance(va)
    s = norm(va.node)
    r.check("np.sum(labels_values, axis=0) == 0" in s and "list(self._labels_to_masks.values())" in s and any(isinstance(n, ast.Raise) for n in walk_own(va.node)), va, va.node,
            "a point is unlabelled iff no mask covers it; that must raise")
    ng = p.own_method("LabelledPointUndirectedGraph", "_new_group_with_only_labels")
    r.instance(ng)
    d = Defs(ng.node)
    lab = ng.params[1]
    fm = [k for k in calls_in(ng.node) if isinstance(k.func, ast.Attribute) and k.func.attr == "from_mask"]
    need(len(fm) == 1 and len(fm[0].args) == 1 and isinstance(fm[0].args[0], ast.Name), "C15.R3: selection must mask the graph once with a named selector")
    selname = fm[0].args[0].id
    restr = [n for n in walk_own(ng.node) if isinstance(n, ast.ListComp) and isinstance(n.elt, ast.Subscript)]
    ok = any(isinstance(n.elt.slice, ast.Name) and n.elt.slice.id == selname for n in restr)
    r.check(ok, ng, fm[0], "each kept label mask must be restricted with the same selector `%s` that masks the graph" % selname, {"selector": selname})
    ov = d.single(selname)
    r.check(ov is not None and norm(ov) == "np.sum(masks_to_keep, axis=0) > 0", ng, ng.node, "the kept points are the union of the requested labels' masks")
    g = cfgmod.build(ng.node)
    raises = [n for n in walk_own(ng.node) if isinstance(n, ast.Raise)]
    r.check(any(any(pol and "set_difference" in norm(t) for t, pol in g.guards(n)) for n in raises) and "set(%s).difference(self.labels)" % lab in norm(ng.node), ng, ng.node,
            "labels that do not exist in the group must be rejected")
    rets = returns_of(ng.node)
    okr = len(rets) == 1 and isinstance(rets[0].value, ast.Call) and (dotted(rets[0].value.func) or "") == "LabelledPointUndirectedGraph" \
        and len(rets[0].value.args) == 3 and norm(rets[0].value.args[2]) == "OrderedDict(zip(%s, masks_to_keep))" % lab
    r.check(okr, ng, ng.node, "the new group pairs the requested labels, in the requested order, with their restricted masks")
    mk = [n for n in walk_own(ng.node) if isinstance(n, ast.ListComp) and "self._labels_to_masks[l]" in norm(n)]
    r.check(any(norm(n.generators[0].iter) == lab for n in mk), ng, ng.node, "masks must be collected in the order of the requested labels")
    # get_label
    gl = p.own_method("LabelledPointUndirectedGraph", "get_label")
    r.instance(gl)
    rets = returns_of(gl.node)
    r.check(len(rets) == 1 and norm(rets[0].value) == "PointUndirectedGraph.from_mask(self, mask)" and norm(Defs(gl.node).single("mask")) == "self._labels_to_masks[%s]" % gl.params[1], gl, gl.node,
            "get_label must return the sub-graph induced by that label's mask")
    # with / without
    wl = p.own_method("LabelledPointUndirectedGraph", "with_labels")
    wo = p.own_method("LabelledPointUndirectedGraph", "without_labels")
    for f in (wl, wo):
        r.instance(f)
        lab_p = f.params[1]
        wraps = [n for n in walk_own(f.node) if isinstance(n, ast.If) and norm(n.test) == "isinstance(%s, str)" % lab_p and any(norm(x) == "%s = [%s]" % (lab_p, lab_p) for x in n.body)]
        if not wraps:
            # the same normalisation done by a helper the selector is passed through: h(labels) with `if isinstance(q, str): return [q]` / `q = [q]`
            from ..calls import CallCtx
            ctx = CallCtx(p, f, f.cls)
            for k in calls_in(f.node, include_nested=True):
                if any(isinstance(a_, ast.Name) and a_.id == lab_p for a_ in k.args) or any(isinstance(kw.value, ast.Name) and kw.value.id == lab_p for kw in k.keywords):
                    for t_ in ctx.resolve_call(k):
                        h = t_.func
                        if h is f or h.cls is not None:
                            continue
                        for q in h.params:
                            for n in walk_own(h.node):
                                if isinstance(n, ast.If) and norm(n.test) == "isinstance(%s, str)" % q and any(norm(x) in ("%s = [%s]" % (q, q), "return [%s]" % q) for x in n.body):
                                    wraps.append(n)
        r.check(len(wraps) == 1, f, f.node, "%s must turn a single label given as a string into a one-element list: otherwise the string is iterated / substring-matched character by character "
                "and other labels are selected or dropped" % f.short, {"selector": f.short, "wraps_string": len(wraps) == 1})
        rr = returns_of(f.node)
        r.check(len(rr) == 1 and isinstance(rr[0].value, ast.Call) and norm(rr[0].value.func) == "self._new_group_with_only_labels", f, f.node, "%s must go through _new_group_with_only_labels" % f.short)
    # without_labels keeps the complement in original order
    keep = Defs(wo.node).single("labels_to_keep")
    if keep is not None and isinstance(keep, ast.ListComp):
        it = norm(keep.generators[0].iter)
        r.check(it in ("self.labels", "self._labels_to_masks", "self._labels_to_masks.keys()"), wo, wo.node, "the labels kept by without_labels must be filtered from the group's own ordered labels")


def rule_r4(p, res):
    r = res.rule("C15.R4", "selection and label editing do not modify the group")
    eff = get_effects(p)
    c = p.cls("LabelledPointUndirectedGraph")
    for name in ("with_labels", "without_labels", "get_label", "add_label", "remove_label", "_new_group_with_only_labels", "tojson"):
        f = p.lookup(c, name)
        need(f is not None, "C15.R4: anchor LabelledPointUndirectedGraph.%s missing" % name)
        r.instance(f)
        s = eff.summary(f, c)
        bad = s.on(f.params[0])
        r.check(not bad, f, bad[0].node if bad else f.node, "%s modifies the group it is called on: %s" % (f.short, bad[0].describe() if bad else ""),
                {"method": f.short, "self_effects": 0})
        for prm in f.params[1:]:
            b2 = s.on(prm)
            r.check(not b2, f, b2[0].node if b2 else f.node, "%s modifies its argument `%s`" % (f.short, prm))
    # add_label *defines* the label: its mask starts empty, it is not the mask an existing label of that name had
    al = p.own_method("LabelledPointUndirectedGraph", "add_label")
    da = Defs(al.node)
    sts = [n for n in walk_own(al.node) if isinstance(n, ast.Assign) and isinstance(n.targets[0], ast.Subscript) and norm(n.targets[0].value).endswith("._labels_to_masks")]
    msk = None
    if len(sts) == 1 and isinstance(sts[0].value, ast.Name):
        msk = da.single(sts[0].value.id)
    else:
        for nm, ds in da.defs.items():
            for k_, v_, st_ in ds:
                if k_ == "assign" and isinstance(v_, ast.AST) and "_labels_to_masks" in norm(v_):
                    msk = v_
    need(msk is not None, "C15.R4: the mask that add_label stores was not found")
    if "_labels_to_masks" in norm(msk):
        r.violation(al, stmt_of(msk), "add_label starts from the mask an existing label of that name already has (`%s`): re-defining a label returns the union of its old and new points "
                    "instead of exactly the given ones" % norm(msk)[:60])
    else:
        need(isinstance(msk, ast.Call) and (dotted(msk.func) or "").split(".")[-1] in ("zeros", "zeros_like", "full"), "C15.R4: add_label's mask initialiser `%s` not recognised" % norm(msk)[:50])
        r.ok({"method": "add_label", "mask": norm(msk)[:50]})
    cp = p.own_method("LabelledPointUndirectedGraph", "copy")
    r.instance(cp)
    s = norm(cp.node)
    from .c06 import _override_deepens
    r.check("Copyable.copy(self)" in s and ("new._labels_to_masks[k] = v.copy()" in s or _override_deepens(cp, "_labels_to_masks") is True), cp, cp.node,
            "copy() must duplicate every label mask (add/remove label work on the copy)")


RULES = [rule_r1, rule_r2, rule_r3, rule_r4]

WITNESSES = [
    Witness("C15.W1", "menpo/landmark/labels/human/face.py", "face_ibug_68_to_face_ibug_68", "inner_mouth_indices = np.arange(60, 68)", "inner_mouth_indices = np.arange(60, 67)",
            rule="C15.R1", construct="face_ibug_68_to_face_ibug_68"),
    Witness("C15.W2", "menpo/landmark/labels/car.py", "car_streetscene_20_to_car_streetscene_view_2_10", "ind = np.array([0, 2, 4, 6, 8, 10, 12, 14, 16, 18])", "ind = np.array([0, 2, 4, 6, 8, 10, 12, 14, 16, 16])",
            rule="C15.R1", construct="car_streetscene_view_2_10"),
    Witness("C15.W3", "menpo/landmark/labels/human/face.py", "face_ibug_49_to_face_ibug_49", "validate_input(pcloud, n_expected_points)", "pass",
            rule="C15.R1", construct="face_ibug_49_to_face_ibug_49"),
    Witness("C15.W4", "menpo/landmark/labels/human/pose.py", "pose_lsp_14_to_pose_lsp_14", "head_indices = np.arange(12, 14)", "head_indices = np.arange(12, 15)",
            rule="C15.R1", construct="pose_lsp_14_to_pose_lsp_14"),
    Witness("C15.W5", "menpo/shape/labelled.py", "LabelledPointUndirectedGraph.without_labels", "labels_to_keep = [l for l in self.labels if l not in labels]", "labels_to_keep = list(set(self.labels).difference(labels))",
            rule="C15.R2", construct="without_labels", note="reverts the repair of finding #11"),
    Witness("C15.W6", "menpo/shape/labelled.py", "LabelledPointUndirectedGraph.remove_label", "new._verify_all_labels_masked()", "pass", rule="C15.R3", construct="remove_label"),
    Witness("C15.W7", "menpo/shape/labelled.py", "LabelledPointUndirectedGraph.add_label", "new = self.copy()", "new = self", rule="C15.R4", construct="add_label"),
    Witness("C15.W8", "menpo/landmark/labels/base.py", "connectivity_from_array", "conn.append((array[-1], array[0]))", "conn.append((array[-1] + 1, array[0]))",
            rule="C15.R1", construct="to_"),
    Witness("C15.W9", "menpo/shape/labelled.py", "LabelledPointUndirectedGraph._new_group_with_only_labels", "masks_to_keep = [l[overlap] for l in masks_to_keep]", "masks_to_keep = [l for l in masks_to_keep]",
            rule="C15.R3", construct="_new_group_with_only_labels"),
    Witness("C15.W10", "menpo/landmark/labels/human/face.py", "face_ibug_68_mirrored_to_face_ibug_68", "old_map['jaw'][::-1]", "old_map['jaw']", kind="T",
            note="a different (but still distinct, complete) re-indexing is not a violation of the clauses C15 states"),
    Witness("C15.W11", "menpo/shape/labelled.py", "LabelledPointUndirectedGraph.without_labels", "if isinstance(labels, str):\n        labels = [labels]", "pass", rule="C15.R3", construct="without_labels", note="seeded change R2-C15-A"),
    Witness("C15.T1", "menpo/landmark/labels/human/hand.py", "hand_ibug_39_to_hand_ibug_39", "thumb_indices = np.arange(0, 5)", "thumb_indices = np.array([0, 1, 2, 3, 4])", kind="T"),
]

WITNESSES += [
    Witness("C15.W12", "menpo/shape/labelled.py", "LabelledPointUndirectedGraph.add_label", "mask = np.zeros(self.n_points, dtype=bool)\n    mask[indices] = True\n    new._labels_to_masks[label] = mask",
            "mask = new._labels_to_masks.setdefault(label, np.zeros(self.n_points, dtype=bool))\n    mask[indices] = True", rule="C15.R4", construct="add_label", note="seeded change R3-C15-A"),
]
