"""C09 -- apply() is pure: no history, aliasing or batch-size effects.

 R1 the only self-state written while applying is a declared memo
 R2 a memo's hit test compares the stored key with the argument exactly (no tolerance)
 R3 a memo's key is an owned copy, not the caller's array
 R4 batching covers each point once, in order; per-batch arrays are sized by the slice, not by batch_size
 R5 the containment error carries one flag per query point
"""
import ast

from ..loader import AnalysisError, dotted
from ..astutil import walk_own, calls_in, norm, Defs, leaves, stmt_of, kwarg, need, returns_of
from .. import cfg as cfgmod
from ..effects import Effects, get_effects
from ..domains import alias_class
from ..variants import Witness
from .common import transform_classes, only_raises, self_attr_stores

PROP = "C09"
EXPLANATION = (
    "For every Transform class the mutation summary of its resolved _apply/_apply_batched on self is empty except for "
    "declared memo attributes; each memo (a function that stores a key derived from its argument and a computed value "
    "under a test and returns the stored value) must test the key by exact array equality and store a fresh copy of the "
    "argument; every _apply_batched iterates range(0, n, batch_size) over x[lo:lo+batch_size], stacks in order, and any "
    "per-batch array accumulated for the failure mask is sized by the slice, never by the nominal batch_size; the "
    "containment error is raised with a per-point mask."
)
NOT_DECIDED = "numerical equality of results across batch sizes"
TECHNIQUE = "interprocedural mutation summaries + memo-pattern dataflow + loop-shape check (static analysis)"

APPROX = {"allclose", "isclose", "assert_allclose", "assert_almost_equal", "assert_array_almost_equal"}
EXACT_FUNCS = {"array_equal", "array_equiv"}


def _apply_classes(p):
    out = []
    for c in transform_classes(p):
        f = p.lookup(c, "_apply")
        if f is None or only_raises(f.node):
            continue
        out.append(c)
    return out


def _find_memos(p, eff):
    """(class, function, key_attr, value_attrs, effects) for every function reachable from an _apply
    that rebinds attributes of self"""
    memos = {}
    for c in _apply_classes(p):
        for name in ("_apply", "_apply_batched"):
            f = p.lookup(c, name)
            if f is None:
                continue
            s = eff.summary(f, c)
            for e in s.on(f.params[0]):
                memos.setdefault(c, []).append((f, e))
    return memos


def rule_r1(p, res):
    r = res.rule("C09.R1", "only declared memo attributes of self are written while applying a transform")
    eff = get_effects(p)
    # a memo attribute is declared by being initialised to None in __init__ and rebound (never mutated in place)
    for c in _apply_classes(p):
        r.instance(c)
        writes = []
        for name in ("_apply", "_apply_batched"):
            f = p.lookup(c, name)
            s = eff.summary(f, c)
            writes += [(f, e) for e in s.on(f.params[0])]
        if not writes:
            r.ok({"class": c.name, "self_writes": 0})
            continue
        for f, e in writes:
            attr = e.kind.split(":", 1)[1] if e.kind.startswith("set:") and not e.path else None
            memo_fn = _memo_function_for(p, c, attr) if attr else None
            ok = memo_fn is not None
            r.check(ok, e.func, e.node, "applying %s writes self state (%s) outside a recognised memo: later results may depend on call history"
                    % (c.name, e.describe()), {"class": c.name, "memo_attr": attr, "memo_function": memo_fn.short if memo_fn else None})
    r.floor(15, "transform classes with a concrete _apply")


def _memo_function_for(p, c, attr):
    """the function of class c that stores `attr` as part of a memo pattern"""
    for k in c.mro:
        for f in k.methods.values():
            m = _memo_pattern(f)
            if m and attr in (m["key"], m["value"]):
                return f
    return None


def _memo_pattern(f):
    """recognise: if <test mentions self.K and a parameter>: self.V = <call>; self.K = <derived from param>; return self.V"""
    if f.name == "__init__":
        return None
    stores = self_attr_stores(f.node)
    if len(stores) < 2:
        return None
    defs = Defs(f.node)
    params = set(f.params[1:])
    key = val = None
    key_stmt = val_stmt = None
    for attr, st, v in stores:
        lv = leaves(v, defs)
        from_param = any(l.startswith("param:") and l[6:] in params for l in lv)
        is_call_result = isinstance(v, ast.Call) and not _is_copy_of_param(v, params)
        if from_param and not is_call_result:
            key, key_stmt, key_val = attr, st, v
        elif from_param and _is_copy_of_param(v, params):
            key, key_stmt, key_val = attr, st, v
        else:
            val, val_stmt = attr, st
    if key is None or val is None:
        return None
    rets = returns_of(f.node)
    if not any(isinstance(x.value, ast.Attribute) and norm(x.value) == "self." + val for x in rets):
        return None
    g = cfgmod.build(f.node)
    tests = [t for t, pol in g.guards(key_stmt)]
    tests = [t for t in tests if ("self." + key) in leaves(t, defs)]
    return {"key": key, "value": val, "key_stmt": key_stmt, "key_val": key_val, "val_stmt": val_stmt, "tests": tests, "cfg": g}


def _is_copy_of_param(v, params):
    if isinstance(v, ast.Call):
        if isinstance(v.func, ast.Attribute) and v.func.attr == "copy" and isinstance(v.func.value, ast.Name) and v.func.value.id in params:
            return True
        d = dotted(v.func) or ""
        if d in ("np.array", "numpy.array", "np.copy", "numpy.copy") and v.args and isinstance(v.args[0], ast.Name) and v.args[0].id in params:
            return True
    return False


def _memo_sites(p):
    out = []
    for c in transform_classes(p):
        for f in c.methods.values():
            m = _memo_pattern(f)
            if m:
                out.append((c, f, m))
    return out


def rule_r2(p, res):
    r = res.rule("C09.R2", "memo hit test compares key and argument by exact equality")
    sites = _memo_sites(p)
    for c, f, m in sites:
        r.instance(f)
        need(m["tests"], "C09.R2: memo in %s has no hit test mentioning self.%s" % (f.short, m["key"]))
        defs = Defs(f.node)
        approx, exact = [], []
        for t in m["tests"]:
            for n in ast.walk(t):
                if isinstance(n, ast.Call):
                    d = dotted(n.func) or ""
                    last = d.split(".")[-1]
                    if last in APPROX:
                        approx.append(n)
                    elif last in EXACT_FUNCS:
                        exact.append(n)
                    elif last == "all" and isinstance(n.func, ast.Attribute) and isinstance(n.func.value, ast.Compare):
                        exact.append(n)
                    elif d in ("np.all", "numpy.all") and n.args and isinstance(n.args[0], ast.Compare):
                        cmp_ = n.args[0]
                        if all(isinstance(o, ast.Eq) for o in cmp_.ops):
                            exact.append(n)
        # the recompute condition as a boolean function of (no key yet, same shape, same values)
        if len(m["tests"]) == 1 and not approx:
            key_txt = "self." + m["key"]
            prm = [q for q in f.params[1:]]

            def ev(e, asg):
                if isinstance(e, ast.UnaryOp) and isinstance(e.op, ast.Not):
                    v = ev(e.operand, asg)
                    return None if v is None else not v
                if isinstance(e, ast.BoolOp):
                    vs = [ev(v, asg) for v in e.values]
                    if isinstance(e.op, ast.And):
                        return False if any(v is False for v in vs) else (None if any(v is None for v in vs) else True)
                    return True if any(v is True for v in vs) else (None if any(v is None for v in vs) else False)
                s_ = str(norm(e))
                if s_ in (key_txt + " is None",):
                    return asg["none"]
                if s_ in (key_txt + " is not None",):
                    return not asg["none"]
                if isinstance(e, ast.Compare) and len(e.ops) == 1 and ".shape" in s_ and isinstance(e.ops[0], (ast.Eq, ast.NotEq)):
                    return asg["shape"] if isinstance(e.ops[0], ast.Eq) else not asg["shape"]
                if isinstance(e, ast.Call) and (dotted(e.func) or "").split(".")[-1] in EXACT_FUNCS:
                    return asg["equal"]
                return None
            test_, pol_ = [(t_, p_) for t_, p_ in m["cfg"].guards(m["key_stmt"]) if t_ is m["tests"][0]][0]
            bad_rows = []
            undec = False
            for none_ in (False, True):
                for shape_ in (False, True):
                    for equal_ in (False, True):
                        if equal_ and not shape_:
                            continue  # equal values imply equal shapes
                        v = ev(test_, {"none": none_, "shape": shape_, "equal": equal_})
                        if v is None:
                            undec = True
                            continue
                        recompute = (v == pol_)
                        want = none_ or not (shape_ and equal_)
                        if none_ and v is not None and recompute != want:
                            bad_rows.append(("no key yet", recompute))
                        elif not none_ and recompute != want:
                            bad_rows.append(("shape %s / values %s" % ("same" if shape_ else "differs", "same" if equal_ else "differ"), recompute))
            if not undec:
                r.check(not bad_rows, f, m["tests"][0], "the memo is refreshed under `%s`, which gives %s: it must be refreshed exactly when there is no key yet or the argument differs from the key "
                        "in shape or in any value (otherwise a different input of the same shape is answered with the previous result)" % (norm(test_)[:90], bad_rows[:3]), {"memo_truth_table": 6})
        for a in approx:
            r.violation(f, a, "memo hit test uses the tolerance comparison `%s`: an input that differs from the cached one by less "
                        "than the tolerance gets the stale result" % norm(a)[:70])
        if not approx:
            if not exact:
                raise AnalysisError("C09.R2: hit test of the memo in %s uses an idiom I do not recognise: %s" % (f.short, [norm(t)[:80] for t in m["tests"]]))
            for e in exact:
                lv = leaves(e, defs)
                r.check(("self." + m["key"]) in lv and any(l.startswith("param:") for l in lv), f, e,
                        "exact comparison must be between the argument and the stored key", {"function": f.short, "test": norm(e)[:70]})
    r.floor(1, "memo sites")


def rule_r3(p, res):
    r = res.rule("C09.R3", "memo key is an owned copy of the argument")
    sites = _memo_sites(p)
    for c, f, m in sites:
        r.instance(f)
        v = m["key_val"]
        params = set(f.params[1:])
        fresh = _is_copy_of_param(v, params)
        if isinstance(v, ast.Call) and (dotted(v.func) or "") in ("np.array", "numpy.array"):
            cp = kwarg(v, "copy")
            if cp is not None and not (isinstance(cp, ast.Constant) and cp.value is True):
                fresh = False
        r.check(fresh, f, m["key_stmt"], "memo key `self.%s = %s` keeps a reference to the caller's array: editing that array in place "
                "afterwards makes the stale cached result look current" % (m["key"], norm(v)[:40]),
                {"function": f.short, "key_store": norm(m["key_stmt"])[:70]})
        # the key is installed only once the value exists: if the (raising) computation came after the key store, a failed
        # call would leave its key behind and the next call with the same argument would be answered with the previous value
        if isinstance(m["val_stmt"].value if isinstance(m["val_stmt"], ast.Assign) else None, ast.Call):
            r.check(m["cfg"].dominates(m["val_stmt"], m["key_stmt"]), f, m["key_stmt"], "the memo key `self.%s` is stored before the value `self.%s` has been computed: when the computation "
                    "raises (points outside the domain), the key of the failed call stays behind and a repeated call with the same points is answered from the stale cache instead of raising again"
                    % (m["key"], m["value"]), {"function": f.short, "value_before_key": True})
        # the cached value must only be rebound, never mutated in place
        eff = get_effects(p)
        s = eff.summary(f, c)
        mut = [e for e in s.on(f.params[0]) if e.kind == "mutate" and e.path[:1] == (m["value"],)]
        r.check(not mut, f, mut[0].node if mut else f.node, "cached value is mutated in place")
    r.floor(1, "memo sites")


def _ancestors_until(node, stop):
    n = getattr(node, "_parent", None)
    while n is not None and n is not stop:
        yield n
        n = getattr(n, "_parent", None)


def _batch_loops(f):
    out = []
    for n in walk_own(f.node):
        if isinstance(n, ast.For) and isinstance(n.iter, ast.Call) and isinstance(n.iter.func, ast.Name) and n.iter.func.id == "range":
            out.append(n)
    return out


def rule_r4(p, res):
    r = res.rule("C09.R4", "batching: range(0, n, batch_size) over x[lo:lo+batch_size], stacked in order; per-batch arrays sized by the slice")
    bodies = []
    for c in transform_classes(p):
        f = c.methods.get("_apply_batched")
        if f is not None and f not in bodies:
            bodies.append(f)
    for f in bodies:
        r.instance(f)
        defs = Defs(f.node)
        xparam, bparam = f.params[1], f.params[2]
        loops = _batch_loops(f)
        need(len(loops) == 1, "C09.R4: expected one range() loop in %s" % f.short)
        lp = loops[0]
        a = lp.iter.args
        need(len(a) == 3 and isinstance(lp.target, ast.Name), "C09.R4: loop in %s is not range(start, stop, step) with a simple index" % f.short)
        lo = lp.target.id
        start_ok = isinstance(a[0], ast.Constant) and a[0].value == 0
        stop = a[1]
        stop_src = norm(stop)
        if isinstance(stop, ast.Name):
            v = defs.single(stop.id)
            stop_src = norm(v) if v is not None else stop_src
        stop_ok = stop_src in ("%s.shape[0]" % xparam, "len(%s)" % xparam)
        step_ok = isinstance(a[2], ast.Name) and a[2].id == bparam
        r.check(start_ok and stop_ok and step_ok, f, lp, "batch loop must be range(0, %s.shape[0], %s); found range(%s): some points would be skipped or repeated"
                % (xparam, bparam, ", ".join(norm(x) for x in a)), {"function": f.short, "loop": norm(lp.iter)})
        # the slice
        slices = [n for n in walk_own(lp) if isinstance(n, ast.Subscript) and isinstance(n.value, ast.Name) and n.value.id == xparam and isinstance(n.slice, ast.Slice)]
        need(slices, "C09.R4: no slice of %s inside the batch loop of %s" % (xparam, f.short))
        ldefs = defs
        for s in slices:
            lower, upper = s.slice.lower, s.slice.upper
            lower_ok = isinstance(lower, ast.Name) and lower.id == lo and s.slice.step is None
            up_src = upper
            if isinstance(upper, ast.Name):
                cand = [v for k, v, st in ldefs.of(upper.id) if k == "assign"]
                up_src = cand[0] if len(cand) == 1 else upper
            up_ok = isinstance(up_src, ast.BinOp) and isinstance(up_src.op, ast.Add) and {norm(up_src.left), norm(up_src.right)} == {lo, bparam}
            r.check(lower_ok and up_ok, f, s, "batch slice must be %s[%s:%s + %s]" % (xparam, lo, lo, bparam), {"function": f.short, "slice": norm(s)})
        # appended per batch, stacked in order
        apps = [c for c in calls_in(lp) if isinstance(c.func, ast.Attribute) and c.func.attr == "append" and isinstance(c.func.value, ast.Name)]
        out_lists = {}
        for c in apps:
            out_lists.setdefault(c.func.value.id, []).append(c)
        applied = [nm for nm, cs in out_lists.items() if any("call:self._apply" in leaves(c.args[0], defs) for c in cs if c.args)]
        if not applied:
            # the other idiom: a buffer allocated up front, filled slice by slice.  Allocated from the *input* it imposes the
            # input's dtype and width on the result, which the unbatched path does not do
            stores = [n for n in walk_own(lp) if isinstance(n, ast.Assign) and isinstance(n.targets[0], ast.Subscript) and isinstance(n.targets[0].value, ast.Name)
                      and "call:self._apply" in leaves(n.value, defs)]
            for st in stores:
                buf = defs.single(st.targets[0].value.id)
                if buf is None:
                    cands = [v_ for k_, v_, s_ in defs.of(st.targets[0].value.id) if k_ == "assign" and isinstance(v_, ast.Call)]
                    buf = cands[0] if len(cands) == 1 else None
                if isinstance(buf, ast.Call) and ("param:" + xparam) in leaves(buf, defs) and (dotted(buf.func) or "").split(".")[-1] in ("empty_like", "zeros_like", "ones_like", "full_like", "empty", "zeros", "ones", "full"):
                    r.violation(f, st, "the per-batch results are written into `%s`, a buffer that takes its dtype and shape from the input points: a result of another dtype "
                                "(integer-stored coordinates mapped to fractions) is silently cast and a result of another dimensionality does not fit, so the batched "
                                "result differs from the unbatched one" % norm(buf)[:50])
                    break
            else:
                need(False, "C09.R4: cannot find the list collecting the per-batch results in %s" % f.short)
            continue
        need(len(applied) == 1, "C09.R4: cannot find the list collecting the per-batch results in %s" % f.short)
        res_list = applied[0]
        stacked = [c for c in calls_in(f.node) if (dotted(c.func) or "") in ("np.vstack", "np.concatenate", "numpy.vstack", "numpy.concatenate")
                   and c.args and isinstance(c.args[0], ast.Name) and c.args[0].id == res_list]
        r.check(bool(stacked), f, lp, "per-batch results must be stacked in order (np.vstack(%s))" % res_list)
        for c in calls_in(f.node):
            if isinstance(c.func, ast.Attribute) and c.func.attr in ("insert", "reverse", "sort") and isinstance(c.func.value, ast.Name) and c.func.value.id in out_lists:
                r.violation(f, c, "per-batch list is re-ordered")
        # other accumulated per-batch arrays: length must come from the slice
        for nm, cs in out_lists.items():
            if nm == res_list:
                continue
            for c in cs:
                if not c.args:
                    continue
                arg = c.args[0]
                if isinstance(arg, ast.Call) and (dotted(arg.func) or "").split(".")[-1] in ("zeros", "ones", "empty", "full", "zeros_like", "ones_like") and arg.args:
                    ln = arg.args[0]
                    lv = leaves(ln, defs)
                    ptxt = "param:" + bparam
                    from_slice = ("param:" + xparam) in lv or any(isinstance(x, ast.Subscript) for x in ast.walk(ln))
                    only_nominal = (ptxt in lv) and not from_slice and not any(isinstance(x, ast.Call) and (dotted(x.func) or "") in ("min", "np.minimum") for x in ast.walk(ln))
                    r.check(not only_nominal, f, c, "per-batch array `%s` has the nominal length %s; the last batch is shorter whenever %s does not divide "
                            "the number of points, so the accumulated mask does not have one entry per input point" % (norm(arg)[:50], bparam, bparam),
                            {"function": f.short, "accumulated": nm, "length": norm(ln)})
                else:
                    r.ok({"function": f.short, "accumulated": nm, "value": norm(arg)[:50]})
        # a flag that is raised inside the loop and consulted after it must not be lowered again by a later batch
        after = set()
        seen_loop = False
        for st in walk_own(f.node):
            if st is lp:
                seen_loop = True
            elif seen_loop and not any(st is x for x in ast.walk(lp)) and isinstance(st, ast.stmt):
                for x in ast.walk(st.test if isinstance(st, (ast.If, ast.While)) else st):
                    if isinstance(x, ast.Name) and isinstance(x.ctx, ast.Load):
                        after.add(x.id)
        consts = {}
        for st in walk_own(lp):
            if isinstance(st, ast.Assign) and len(st.targets) == 1 and isinstance(st.targets[0], ast.Name) and isinstance(st.value, ast.Constant) and st.targets[0].id in after:
                consts.setdefault(st.targets[0].id, []).append(st)
        for nm, sts in consts.items():
            vals = {bool(x.value.value) for x in sts}
            if len(vals) == 2:
                reset = [x for x in sts if not any(isinstance(a_, (ast.If, ast.ExceptHandler)) for a_ in _ancestors_until(x, lp))]
                for x in reset:
                    r.violation(f, x, "`%s` is consulted after the batch loop but is reset by `%s` on every iteration: only the last batch decides, so a failure "
                                "recorded for an earlier batch is forgotten and the result depends on the batch size" % (nm, norm(x)))
            else:
                r.ok({"function": f.short, "flag": nm})
        # None => unbatched
        tests = [n for n in walk_own(f.node) if isinstance(n, ast.If) and norm(n.test) in ("%s is None" % bparam,)]
        r.check(bool(tests), f, f.node, "batch_size=None must mean no batching")
    r.floor(2, "_apply_batched bodies")


def rule_r5(p, res):
    r = res.rule("C09.R5", "containment error carries a per-point mask; Transform.apply uses one function for arrays and objects")
    f = p.func("menpo.transform.piecewiseaffine.base.containment_from_alpha_beta")
    r.instance(f)
    defs = Defs(f.node)
    raises = [n for n in walk_own(f.node) if isinstance(n, ast.Raise) and isinstance(n.exc, ast.Call) and (dotted(n.exc.func) or "").endswith("TriangleContainmentError")]
    need(raises, "C09.R5: containment_from_alpha_beta no longer raises TriangleContainmentError")
    for rs in raises:
        a = rs.exc.args[0] if rs.exc.args else None
        lv = leaves(a, defs) if a is not None else set()
        # np.any(..., axis=1) reduces over triangles, leaving one flag per point
        anyc = [c for c in calls_in(f.node) if (dotted(c.func) or "") in ("np.any", "numpy.any") and kwarg(c, "axis") is not None]
        ok = a is not None and "param:alpha" in lv and any(isinstance(kwarg(c, "axis"), ast.Constant) and kwarg(c, "axis").value == 1 for c in anyc)
        r.check(ok, f, rs, "the error mask must be the per-point reduction (axis=1) of the containment table")
    # NaN-safety of the containment test: a point with undefined barycentric coordinates (degenerate triangle, NaN
    # input) lies in no triangle; only the positive conjunction of non-strict comparisons reports it as outside
    pc = defs.single("point_containment")
    need(pc is not None, "C09.R5: containment table not found")
    ors = [k for k in ast.walk(pc) if isinstance(k, ast.Call) and (dotted(k.func) or "") in ("np.logical_or", "numpy.logical_or")]
    inv = [k for k in ast.walk(pc) if isinstance(k, ast.UnaryOp) and isinstance(k.op, ast.Invert)]
    cmps = sorted(str(norm(x)) for x in ast.walk(pc) if isinstance(x, ast.Compare))
    r.check(not ors and not inv and cmps == ["alpha + beta <= 1", "alpha >= 0", "beta >= 0"], f, pc, "containment is written as `%s`: as the negation of a disjunction a point whose barycentric "
            "coordinates are NaN counts as contained, so the error no longer identifies exactly the points outside the domain; it must be the conjunction alpha >= 0, beta >= 0, alpha + beta <= 1"
            % norm(pc)[:70], {"containment": norm(pc)[:80]})
    # AbstractPWA._apply_batched raises with the concatenation of the per-batch masks
    g = p.own_method("AbstractPWA", "_apply_batched")
    r.instance(g)
    d2 = Defs(g.node)
    for rs in [n for n in walk_own(g.node) if isinstance(n, ast.Raise) and isinstance(n.exc, ast.Call)]:
        a = rs.exc.args[0] if rs.exc.args else None
        if isinstance(a, ast.Name) and d2.single(a.id) is not None:
            a = d2.single(a.id)
        ok = isinstance(a, ast.Call) and (dotted(a.func) or "") in ("np.hstack", "np.concatenate", "numpy.hstack", "numpy.concatenate")
        r.check(ok, g, rs, "batched containment error must concatenate the per-batch masks in order")
    # Transform.apply: closure and fallback call the same function with the same arguments
    ap = p.own_method("Transform", "apply")
    r.instance(ap)
    calls = [c for c in calls_in(ap.node, include_nested=True) if isinstance(c.func, ast.Attribute) and c.func.attr == "_apply_batched"]
    need(len(calls) == 2, "C09.R5: Transform.apply should call _apply_batched on the object path and on the array path")
    sig = lambda c: ([norm(a) for a in c.args[1:]], sorted((k.arg or "**", norm(k.value)) for k in c.keywords))
    r.check(sig(calls[0]) == sig(calls[1]), ap, calls[1], "object path and array path must apply with the same batch size and keywords")


REDUCERS = {"mean", "sum", "max", "min", "std", "var", "median", "norm", "argmax", "argmin", "prod", "cumsum", "sort", "argsort", "ptp", "average", "amax", "amin"}


def rule_r6(p, res):
    r = res.rule("C09.R6", "each point is mapped independently: no _apply reads one fixed row of, or reduces over, the points it is given")
    seen = set()
    for c in transform_classes(p):
        f = p.lookup(c, "_apply")
        if f is None or only_raises(f.node) or f in seen:
            continue
        seen.add(f)
        r.instance(f)
        x = f.params[1]
        d = Defs(f.node)
        # locals derived from the point array
        tainted = {x}
        for _ in range(4):
            for nm, ds in d.defs.items():
                if nm in tainted:
                    continue
                for kind, val, st in ds:
                    if kind in ("assign", "unpack", "aug") and val is not None:
                        v = val[0] if kind == "unpack" else (val[1] if kind == "aug" else val)
                        if isinstance(v, ast.AST) and any(isinstance(n, ast.Name) and n.id in tainted for n in ast.walk(v)):
                            tainted.add(nm)
        ok = True
        for n in walk_own(f.node):
            if isinstance(n, ast.Subscript) and isinstance(n.value, ast.Name) and n.value.id in tainted:
                first = n.slice.elts[0] if isinstance(n.slice, ast.Tuple) and n.slice.elts else n.slice
                iv = None
                if isinstance(first, ast.Constant) and isinstance(first.value, int) and not isinstance(first.value, bool):
                    iv = first.value
                elif isinstance(first, ast.UnaryOp) and isinstance(first.op, ast.USub) and isinstance(first.operand, ast.Constant) and isinstance(first.operand.value, int):
                    iv = -first.operand.value
                if iv is not None and isinstance(n.ctx, ast.Load):
                    ok = False
                    r.violation(f, n, "%s reads row %d of `%s`, an array with one row per point: every point's image then depends on which other points are in the same call "
                                "(batching and the position in the batch change the result)" % (f.short, iv, n.value.id))
            elif isinstance(n, ast.Call):
                dn = dotted(n.func) or ""
                last = dn.split(".")[-1]
                if last in REDUCERS:
                    args = list(n.args)
                    recv = n.func.value if isinstance(n.func, ast.Attribute) and not dn.startswith(("np.", "numpy.")) else None
                    cand = ([recv] if recv is not None else []) + args[:1]
                    if any(isinstance(a, ast.Name) and a.id in tainted for a in cand):
                        ax = kwarg(n, "axis")
                        axv = ax.value if isinstance(ax, ast.Constant) else (None if ax is None else "?")
                        if ax is None or axv == 0:
                            ok = False
                            r.violation(f, n, "%s reduces over the points it is given (`%s`): the image of a point then depends on the other points in the call" % (f.short, norm(n)[:50]))
        if ok:
            r.ok({"function": f.short, "row_independent": True})
    # both paths of the generic batching pass the same extra arguments to _apply
    for c in transform_classes(p):
        f = c.methods.get("_apply_batched")
        if f is None:
            continue
        calls = [k for k in calls_in(f.node) if norm(k.func) == "self._apply"]
        sigs = {(tuple(norm(a) for a in k.args[1:]), tuple(sorted((kw.arg or "**", norm(kw.value)) for kw in k.keywords))) for k in calls}
        r.check(len(calls) >= 2 and len(sigs) == 1 and any(kw.arg is None for k in calls for kw in k.keywords), f, calls[-1] if calls else f.node,
                "%s must pass the same extra arguments (**kwargs) to _apply with and without batching (found %s)" % (f.short, sorted(sigs)), {"function": f.short})
    r.floor(8, "_apply bodies")


VIEW_METHODS = {"reshape", "ravel", "view", "squeeze", "transpose", "swapaxes", "diagonal"}
VIEW_FUNCS = {"asarray", "asanyarray", "atleast_2d", "atleast_1d", "ascontiguousarray", "reshape", "ravel", "squeeze", "transpose", "require"}


def _may_be_view_of(e, x, d, depth=0):
    """Does `e` reach the parameter `x` through operations that can all return a view (no copying step on the way)?"""
    if depth > 8 or e is None:
        return False
    if isinstance(e, ast.Name):
        if e.id == x:
            return True
        ds = [v for k, v, st in d.of(e.id) if k == "assign" and isinstance(v, ast.AST)]
        # a name with several definitions (an accumulator that starts as x and is then replaced by call results) is a view
        # of x only if every definition is: "may" would flag a fold over an empty list, which returns its start value by design
        return bool(ds) and len(ds) == len(d.of(e.id)) and all(_may_be_view_of(v, x, d, depth + 1) for v in ds)
    if isinstance(e, ast.Attribute):
        return e.attr in ("T", "real") and _may_be_view_of(e.value, x, d, depth + 1)
    if isinstance(e, ast.Subscript):
        items = e.slice.elts if isinstance(e.slice, ast.Tuple) else [e.slice]
        adv = (ast.List, ast.ListComp, ast.Compare, ast.Call, ast.BinOp)

        def advanced(i):
            if isinstance(i, adv):
                return True
            if isinstance(i, ast.Name):  # a local computed in the function: an index array; a parameter / attribute may be a slice
                ds = [v for k, v, st in d.of(i.id) if k == "assign"]
                return bool(ds) and all(isinstance(v, adv) for v in ds)
            return False
        if any(advanced(i) for i in items):
            return False  # provably advanced indexing: a copy
        return _may_be_view_of(e.value, x, d, depth + 1)
    if isinstance(e, ast.Call):
        dn = dotted(e.func) or ""
        if dn.startswith(("np.", "numpy.")):
            return dn.split(".")[-1] in VIEW_FUNCS and bool(e.args) and _may_be_view_of(e.args[0], x, d, depth + 1)
        if isinstance(e.func, ast.Attribute) and e.func.attr in VIEW_METHODS:
            return _may_be_view_of(e.func.value, x, d, depth + 1)
        return False
    if isinstance(e, ast.IfExp):
        return _may_be_view_of(e.body, x, d, depth + 1) or _may_be_view_of(e.orelse, x, d, depth + 1)
    return False


def rule_r7(p, res):
    r = res.rule("C09.R7", "the result of _apply is a new array: it never is, or can be a view of, the array it was given")
    seen = set()
    for c in transform_classes(p):
        f = p.lookup(c, "_apply")
        if f is None or only_raises(f.node) or f in seen:
            continue
        seen.add(f)
        r.instance(f)
        x = f.params[1]
        d = Defs(f.node)
        bad = [rt for rt in returns_of(f.node) if rt.value is not None and _may_be_view_of(rt.value, x, d)]
        for rt in bad:
            r.violation(f, rt, "%s returns `%s`, which reaches the input array through view-preserving operations only (basic indexing, reshape, transpose): the result shares "
                        "memory with the caller's array, so editing either afterwards changes the other and a repeated apply gives a different answer" % (f.short, norm(rt.value)[:60]))
        if not bad:
            r.ok({"function": f.short, "result_is_fresh": True})
    r.floor(8, "_apply bodies")


RULES = [rule_r1, rule_r2, rule_r3, rule_r4, rule_r5, rule_r6, rule_r7]

WITNESSES = [
    Witness("C09.W1", "menpo/transform/piecewiseaffine/base.py", "CachedPWA.index_alpha_beta",
            "np.array_equal(points, self._applied_points)", "np.allclose(points, self._applied_points)", rule="C09.R2", construct="CachedPWA.index_alpha_beta",
            note="reverts the repair of finding #6"),
    Witness("C09.W2", "menpo/transform/piecewiseaffine/base.py", "CachedPWA.index_alpha_beta",
            "self._applied_points = points.copy()", "self._applied_points = points", rule="C09.R3", construct="CachedPWA.index_alpha_beta"),
    Witness("C09.W3", "menpo/transform/piecewiseaffine/base.py", "AbstractPWA._apply_batched",
            "np.zeros(x[lo_ind:hi_ind].shape[0], dtype=bool)", "np.zeros(batch_size, dtype=bool)", rule="C09.R4", construct="AbstractPWA._apply_batched",
            note="reverts the repair of finding #7"),
    Witness("C09.W4", "menpo/transform/base/__init__.py", "Transform._apply_batched",
            "range(0, n_points, batch_size)", "range(0, n_points - batch_size, batch_size)", rule="C09.R4", construct="Transform._apply_batched"),
    Witness("C09.W5", "menpo/transform/thinplatesplines.py", "ThinPlateSplines._apply",
            "kernel_dist = self.kernel.apply(points)", "kernel_dist = self.kernel.apply(points)\n    self._last = points", rule="C09.R1", construct="ThinPlateSplines._apply"),
    Witness("C09.W6", "menpo/transform/base/__init__.py", "Transform._apply_batched",
            "hi_ind = lo_ind + batch_size", "hi_ind = lo_ind + batch_size - 1", rule="C09.R4", construct="Transform._apply_batched"),
    Witness("C09.W7", "menpo/transform/rbf.py", "R2LogR2RBF._apply",
            "mask = euclidean_distance == 0", "mask = euclidean_distance == 0\n    self.c[0] = x[0]", rule="C09.R1", construct="R2LogR2RBF._apply"),
    Witness("C09.W8", "menpo/transform/homogeneous/base.py", "Homogeneous._apply", "h_y / h_y[:, -1][:, None]", "h_y / h_y[-1, -1]", rule="C09.R6", construct="Homogeneous._apply", note="seeded change R2-C09-A"),
    Witness("C09.W9", "menpo/transform/base/__init__.py", "Transform._apply_batched", "outputs.append(self._apply(x[lo_ind:hi_ind], **kwargs))", "outputs.append(self._apply(x[lo_ind:hi_ind]))",
            rule="C09.R6", construct="Transform._apply_batched", note="seeded change R2-C09-C"),
    Witness("C09.W10", "menpo/transform/piecewiseaffine/base.py", "containment_from_alpha_beta", "np.logical_and(np.logical_and(alpha >= 0, beta >= 0), alpha + beta <= 1)",
            "~np.logical_or(np.logical_or(alpha < 0, beta < 0), alpha + beta > 1)", rule="C09.R5", construct="containment_from_alpha_beta", note="seeded change R2-C09-B"),
    Witness("C09.T1", "menpo/transform/base/__init__.py", "Transform._apply_batched",
            "n_points = x.shape[0]", "n_points = len(x)", kind="T"),
]

WITNESSES += [
    Witness("C09.W11", "menpo/transform/base/__init__.py", "Transform._apply_batched",
            "outputs = []\n        n_points = x.shape[0]\n        for lo_ind in range(0, n_points, batch_size):\n            hi_ind = lo_ind + batch_size\n            outputs.append(self._apply(x[lo_ind:hi_ind], **kwargs))\n        return np.vstack(outputs)",
            "outputs = np.empty_like(x)\n        n_points = x.shape[0]\n        for lo_ind in range(0, n_points, batch_size):\n            hi_ind = lo_ind + batch_size\n            outputs[lo_ind:hi_ind] = self._apply(x[lo_ind:hi_ind], **kwargs)\n        return outputs",
            rule="C09.R4", construct="Transform._apply_batched", note="seeded change R3-C02-A"),
    Witness("C09.W12", "menpo/transform/piecewiseaffine/base.py", "CachedPWA.index_alpha_beta",
            "self._iab = PythonPWA.index_alpha_beta(self, points)\n        self._applied_points = points.copy()", "self._applied_points = points.copy()\n        self._iab = PythonPWA.index_alpha_beta(self, points)",
            rule="C09.R3", construct="CachedPWA.index_alpha_beta", note="seeded change R3-C09-A"),
    Witness("C09.W13", "menpo/transform/piecewiseaffine/base.py", "AbstractPWA._apply_batched",
            "exception_thrown = False\n        for lo_ind in range(0, n_points, batch_size):\n            try:", "for lo_ind in range(0, n_points, batch_size):\n            exception_thrown = False\n            try:",
            rule="C09.R4", construct="AbstractPWA._apply_batched", note="seeded change R3-C09-C"),
    Witness("C09.W14", "menpo/transform/__init__.py", "WithDims._apply", "x[:, self.dims].reshape([x.shape[0], -1]).copy()", "x[:, self.dims].reshape([x.shape[0], -1])",
            rule="C09.R7", construct="WithDims._apply", note="seeded changes R3-C02-C / R3-C09-B"),
    Witness("C09.T2", "menpo/transform/__init__.py", "WithDims._apply", "x[:, self.dims].reshape([x.shape[0], -1]).copy()", "np.array(x[:, self.dims].reshape([x.shape[0], -1]))", kind="T"),
]

WITNESSES += [
    Witness("C09.W15", "menpo/transform/piecewiseaffine/base.py", "CachedPWA.index_alpha_beta",
            "self._applied_points is None or not points.shape == self._applied_points.shape or (not np.array_equal(points, self._applied_points))",
            "self._applied_points is None or not (points.shape == self._applied_points.shape or np.array_equal(points, self._applied_points))", rule="C09.R2", construct="index_alpha_beta", note="seeded change R4-C09-B"),
]
