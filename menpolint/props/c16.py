"""C16 -- export then import returns the same data; files are never clobbered unasked.

 R1 every write-open in menpo.io.output is dominated by the overwrite check on that path with the caller's flag
 R2 exporter and importer extension tables agree for the formats the property names; LJSON version written is parsed
 R3 JSON keys produced by the exporter/tojson methods are the keys the v3 parser consumes; None<->NaN on both sides; order kept
 R4 paired constants: .pts column swap and +/-1 offset; per-dtype range of normalise/denormalise
 R5 float -> integer conversion rounds before the cast
 R6 third-party names reachable from export/import exist in the installed libraries
 R7 the pickle exporter restores Path.__reduce__ in a finally
 R8 channels_to_back rolls axis 0 to the end
 R9 __setstate__ hooks install the whole state and only migrate legacy keys
"""
import ast

from ..loader import AnalysisError, dotted, FuncInfo
from ..astutil import walk_own, calls_in, norm, Defs, leaves, stmt_of, kwarg, need, returns_of, expand, const_value, bind_call
from .. import cfg as cfgmod
from .. import apicompat
from ..calls import CallCtx, reachable_funcs
from ..variants import Witness

PROP = "C16"
EXPLANATION = (
    "Every statement of menpo.io.output that opens a path for writing (Path.open('wb'), open/gzip_open(..., 'wb'), the "
    "paths-only writer call) is dominated on the CFG by a call reaching _validate_filepath on that same path with the "
    "public function's own `overwrite` parameter; _validate_filepath raises OverwriteError under exists() and not "
    "overwrite; str paths are converted to Path before the isinstance(Path) dispatch; nothing else in the package opens a "
    "file for writing; exporter and importer tables agree on .ljson/.pts/.pkl/.pkl.gz and the PIL types; the LJSON "
    "version and key set written equal those parsed, None<->NaN is mapped on both sides and label order is kept; .pts "
    "export swaps columns and adds 1 while import subtracts 1 and swaps; normalise/denormalise use the same range per "
    "dtype; the float->integer cast is preceded by rounding; every numpy/scipy/PIL attribute reachable from the "
    "exporters/importers exists in the installed library."
)
NOT_DECIDED = "equality of round-tripped data, three-decimal precision, byte-for-byte preservation (runtime / IO)"
TECHNIQUE = "CFG dominance of write-opens by the overwrite check + writer/reader table and key-set agreement + API resolution (static analysis)"

OUT = "menpo.io.output.base."
WRITE_MODES = ("w", "wb", "a", "ab", "w+", "wb+", "x", "xb")


def _is_write_open(call, defs):
    """a call that opens a file for writing: X.open('w..') / open(p, 'w..') / gzip_open(p, 'w..') / alias `o(p, 'wb')`"""
    mode = None
    f = call.func
    if isinstance(f, ast.Attribute) and f.attr == "open" and not (dotted(f.value) or "").endswith(("PILImage", "Image")):
        root = (dotted(f.value) or "")
        if root in ("gzip", "os", "io", "codecs", "bz2"):
            mode = call.args[1] if len(call.args) > 1 else kwarg(call, "mode")
        else:
            mode = call.args[0] if call.args else kwarg(call, "mode")
    elif isinstance(f, ast.Name) and f.id in ("open", "gzip_open"):
        mode = call.args[1] if len(call.args) > 1 else kwarg(call, "mode")
    elif isinstance(f, ast.Name) and defs is not None and defs.is_local(f.id):
        vals = [v for k, v, s in defs.of(f.id) if k == "assign"]
        if vals and all(isinstance(v, ast.AST) and any(isinstance(n, ast.Name) and n.id in ("open", "gzip_open") for n in ast.walk(v)) for v in vals):
            mode = call.args[1] if len(call.args) > 1 else kwarg(call, "mode")
    if mode is None:
        return False
    m = const_value(mode)
    return isinstance(m, str) and m in WRITE_MODES


def _path_root(e, defs):
    """the parameter / local a path expression is derived from: str(x) -> x, Path(x) -> x"""
    while True:
        if isinstance(e, ast.Call) and isinstance(e.func, ast.Name) and e.func.id in ("str", "Path") and e.args:
            e = e.args[0]
            continue
        break
    return e


def rule_r1(p, res):
    r = res.rule("C16.R1", "every write-open is dominated by the overwrite check on that path with the caller's flag")
    mod = p.modules.get("menpo.io.output.base")
    need(mod is not None, "C16.R1: module menpo.io.output.base missing")
    vf = p.func(OUT + "_validate_filepath")
    vg = p.func(OUT + "_validate_and_get_export_func")
    # --- the check itself
    r.instance(vf)
    g = cfgmod.build(vf.node)
    raises = [n for n in walk_own(vf.node) if isinstance(n, ast.Raise) and isinstance(n.exc, ast.Call) and (dotted(n.exc.func) or "").endswith("OverwriteError")]
    need(raises, "C16.R1: _validate_filepath no longer raises OverwriteError")
    d = Defs(vf.node)
    ok = False
    for rs in raises:
        gs = g.guards(rs)
        for t, pol in gs:
            if pol and isinstance(t, ast.BoolOp) and isinstance(t.op, ast.And):
                parts = [norm(x) for x in t.values]
                ex = [x for x in parts if x.endswith(".exists()")]
                if ex and "not %s" % vf.params[1] in parts:
                    base = ex[0][: -len(".exists()")]
                    v = d.single(base)
                    ok = v is not None and ("param:" + vf.params[0]) in leaves(v, d)
    r.check(ok, vf, raises[0], "_validate_filepath must raise OverwriteError exactly when the (normalised) path exists and overwrite is false")
    # --- the wrapper validates with its own parameters before anything is returned
    r.instance(vg)
    gg = cfgmod.build(vg.node)
    vcalls = [c for c in calls_in(vg.node) if (dotted(c.func) or "") == "_validate_filepath"]
    need(len(vcalls) == 1, "C16.R1: _validate_and_get_export_func must validate the path once")
    vc = vcalls[0]
    okw = len(vc.args) == 2 and isinstance(vc.args[1], ast.Name) and vc.args[1].id == "overwrite" and isinstance(vc.args[0], ast.Name) and vc.args[0].id == vg.params[0]
    r.check(okw, vg, vc, "_validate_and_get_export_func must pass its own path and overwrite flag to _validate_filepath (found %s)" % norm(vc))
    for ret in returns_of(vg.node):
        r.check(gg.must_pass([stmt_of(vc)], ret), vg, ret, "an export function is handed out without validating the path")
    # --- write-open sites
    validators = {"_validate_filepath": 0, "_validate_and_get_export_func": 0}
    n_sites = 0
    public = {}
    for f in [x for x in p.functions.values() if x.module.name.startswith("menpo.io.output")]:
        d = Defs(f.node)
        g = None
        sites = []
        for c in calls_in(f.node):
            if _is_write_open(c, d):
                if isinstance(c.func, ast.Attribute):
                    path = c.func.value
                else:
                    path = c.args[0]
                sites.append((c, path, "open for writing"))
            elif f.name == "_export_paths_only" and isinstance(c.func, ast.Name) and d.is_local(c.func.id) and len(c.args) >= 2:
                # the paths-only route hands the *path* to a writer that opens it itself
                v = d.single(c.func.id)
                if isinstance(v, ast.Call) and (dotted(v.func) or "") == "_validate_and_get_export_func":
                    sites.append((c, c.args[1], "path handed to a writer"))
        for c, path, what in sites:
            n_sites += 1
            r.instance("%s:%s" % (f.short, norm(c)[:40]))
            g = g or cfgmod.build(f.node)
            root = _path_root(path, d)
            ok = False
            why = "no dominating validation call"
            for k in calls_in(f.node):
                name = dotted(k.func) or ""
                if name not in validators or len(k.args) < 1:
                    continue
                kst = stmt_of(k)
                if not g.dominates(kst, stmt_of(c)) or kst is stmt_of(c):
                    continue
                callee = p.func(OUT + name)
                b = bind_call(k, callee, skip_self=False)
                parg, oarg = b.get(callee.params[0]), b.get("overwrite")
                same_path = _same_path(parg, root, d, kst)
                own_flag = isinstance(oarg, ast.Name) and oarg.id == "overwrite" and "overwrite" in f.params
                if same_path and own_flag:
                    ok = True
                    break
                why = "validation `%s` is on %s with flag %s" % (norm(k)[:60], "the same path" if same_path else "another path", norm(oarg) if oarg is not None else None)
            r.check(ok, f, c, "%s: %s `%s` is not protected by the overwrite check (%s): an existing file can be clobbered although overwrite was not requested"
                    % (f.short, what, norm(c)[:50], why), {"function": f.short, "site": norm(c)[:50], "path": norm(root)})
    if n_sites < 3:
        raise AnalysisError("C16.R1: only %d write-open sites found in menpo.io.output (floor 3)" % n_sites)
    # --- public exporters forward their own flag
    for name, inner in (("export_landmark_file", "_export"), ("export_image", "_export"), ("export_video", "_export_paths_only"), ("export_pickle", "_export")):
        f = p.func(OUT + name)
        r.instance(f)
        need("overwrite" in f.params, "C16.R1: %s has no overwrite parameter" % name)
        dflt = f.defaults().get("overwrite")
        r.check(isinstance(dflt, ast.Constant) and dflt.value is False, f, f.node, "%s: overwrite must default to False" % name)
        cs = [c for c in calls_in(f.node) if (dotted(c.func) or "") == inner]
        need(cs, "C16.R1: %s no longer calls %s" % (name, inner))
        callee = p.func(OUT + inner)
        g = cfgmod.build(f.node)
        for c in cs:
            b = bind_call(c, callee, skip_self=False)
            o = b.get("overwrite")
            fp_arg = b.get(callee.params[1])
            own = isinstance(o, ast.Name) and o.id == "overwrite"
            if not own and isinstance(o, ast.Constant) and o.value is True:
                # accepted only for an already validated, already opened handle (export_pickle re-entry)
                d = Defs(f.node)
                withs = [w for w in walk_own(f.node) if isinstance(w, ast.With) and any(c is x for x in ast.walk(w))]
                own = bool(withs) and isinstance(fp_arg, ast.Name) and any(
                    it.optional_vars is not None and norm(it.optional_vars) == fp_arg.id for w in withs for it in w.items)
                if own:
                    vs = [k for k in calls_in(f.node) if (dotted(k.func) or "") == "_validate_filepath"
                          and len(k.args) == 2 and isinstance(k.args[1], ast.Name) and k.args[1].id == "overwrite"]
                    own = any(g.dominates(stmt_of(k), stmt_of(c)) for k in vs)
            r.check(own, f, c, "%s passes overwrite=%s to %s instead of the caller's flag" % (name, norm(o) if o is not None else None, inner),
                    {"exporter": name, "overwrite_arg": norm(o) if o is not None else None})
    # --- str -> Path before the isinstance(Path) dispatch
    for name in ("_export", "export_pickle", "_validate_and_get_export_func"):
        f = p.func(OUT + name)
        g = cfgmod.build(f.node)
        fpn = f.params[1] if name != "_validate_and_get_export_func" else f.params[0]
        conv = [n for n in walk_own(f.node) if isinstance(n, ast.If) and norm(n.test) == "isinstance(%s, str)" % fpn]
        okc = bool(conv) and any(isinstance(s, ast.Assign) and norm(s) == "%s = Path(%s)" % (fpn, fpn) for s in conv[0].body)
        r.check(okc, f, f.node, "%s must convert a str path to Path first (str and Path spellings must take the same protected route)" % name)
        if okc:
            for n in walk_own(f.node):
                if isinstance(n, ast.If) and norm(n.test) == "isinstance(%s, Path)" % fpn:
                    r.check(g.reaches(conv[0], n) and not g.reaches(n, conv[0]), f, n, "the str->Path conversion must precede the Path dispatch")
    # --- the path normalisation / validation must be evaluated afresh on every call (no memoisation: the
    #     working directory and the file system change between calls)
    for q in ("menpo.io.utils._norm_path", OUT + "_validate_filepath", OUT + "_validate_and_get_export_func", OUT + "_parse_and_validate_extension"):
        fn = p.func(q)
        r.instance(fn)
        decs = fn.decorators()
        bad = [d_ for d_ in decs if d_.split(".")[-1] in ("lru_cache", "cache", "cached", "memoize", "memoized")]
        r.check(not bad, fn, fn.node, "%s is memoised (%s): a relative path keeps resolving against the working directory of the first call, so the overwrite check looks at another "
                "file than the one that is written" % (fn.short, ", ".join(bad)), {"function": fn.short, "decorators": decs})
    npf = p.func("menpo.io.utils._norm_path")
    rets_np = returns_of(npf.node)
    r.check(len(rets_np) == 1 and norm(rets_np[0].value) == "Path(os.path.abspath(os.path.normpath(os.path.expandvars(os.path.expanduser(str(%s))))))" % npf.params[0], npf, npf.node,
            "_norm_path must resolve user, variables and relative parts to an absolute path")
    # --- nobody else writes files
    for f in p.all_functions():
        if f.module.name.startswith("menpo.io.output.base") or f.module.name in ("menpo._version",):
            continue
        d = Defs(f.node)
        for c in calls_in(f.node, include_nested=True):
            if _is_write_open(c, d):
                r.violation(f, c, "%s opens a file for writing outside the protected export route" % f.short)


def _same_path(parg, root, d, before_stmt):
    if parg is None:
        return False
    a = _path_root(parg, d)
    if norm(a) == norm(root):
        return True
    # the opened path is the value returned by the validation (path_filepath = _validate_filepath(fp, ..))
    if isinstance(root, ast.Name):
        v = d.single(root.id)
        if isinstance(v, ast.Call) and (dotted(v.func) or "") == "_validate_filepath":
            return True
    return False


def _dict_keys(p, modname, var):
    m = p.modules.get(modname)
    need(m is not None and var in m.assigns, "anchor %s.%s missing" % (modname, var))
    v = m.assigns[var]
    need(isinstance(v, ast.Dict), "%s.%s is not a dict literal" % (modname, var))
    return {const_value(k): norm(val) for k, val in zip(v.keys, v.values)}


def rule_r2(p, res):
    r = res.rule("C16.R2", "exporter / importer tables agree; LJSON version written is parsed")
    out_lm = _dict_keys(p, "menpo.io.output.extensions", "landmark_types")
    out_im = _dict_keys(p, "menpo.io.output.extensions", "image_types")
    out_pk = _dict_keys(p, "menpo.io.output.extensions", "pickle_types")
    in_lm = _dict_keys(p, "menpo.io.input.extensions", "image_landmark_types")
    in_im = _dict_keys(p, "menpo.io.input.extensions", "image_types")
    in_pk = _dict_keys(p, "menpo.io.input.extensions", "pickle_types")
    r.instance("landmark tables")
    r.instance("pickle tables")
    r.instance("image tables")
    for ext, writer, reader in ((".ljson", "ljson_exporter", "ljson_importer"), (".pts", "pts_exporter", "pts_image_importer")):
        r.check(out_lm.get(ext) == writer and in_lm.get(ext) == reader, "menpo.io.output.extensions.landmark_types", ext,
                "%s must be written by %s and read by %s (found %s / %s)" % (ext, writer, reader, out_lm.get(ext), in_lm.get(ext)), {"ext": ext})
    for ext, reader in ((".pkl", "pickle_importer"), (".pkl.gz", "pickle_gzip_importer")):
        r.check(out_pk.get(ext) == "pickle_exporter" and in_pk.get(ext) == reader, "menpo.io.output.extensions.pickle_types", ext,
                "%s must be written by pickle_exporter and read by %s" % (ext, reader), {"ext": ext})
    # every image type the PIL exporter writes is importable (gif is read through ffmpeg)
    for ext in sorted(out_im):
        r.check(ext in in_im, "menpo.io.output.extensions.image_types", ext, "image type %s can be exported but not imported" % ext)
    # gzip decision in export_pickle agrees with the table
    ep = p.func(OUT + "export_pickle")
    s = [n for n in walk_own(ep.node) if isinstance(n, ast.IfExp)]
    r.check(any(norm(n.test) == "extension[-3:] == '.gz'" and norm(n.body) == "gzip_open" and norm(n.orelse) == "open" for n in s), ep, ep.node,
            "export_pickle must gzip exactly the extensions ending in .gz")
    # LJSON version
    ex = p.func("menpo.io.output.landmark.ljson_exporter")
    r.instance(ex)
    ver = None
    for n in walk_own(ex.node):
        if isinstance(n, ast.Dict):
            for k, v in zip(n.keys, n.values):
                if const_value(k) == "version":
                    ver = const_value(v)
    table = _dict_keys(p, "menpo.io.input.landmark", "_ljson_parser_for_version")
    r.check(ver is not None and ver in table and table[ver] == "_parse_ljson_v%s" % ver, ex, ex.node, "LJSON version written (%s) must have a parser (table %s)" % (ver, table),
            {"version_written": ver, "parsers": table})
    # the pts image importer is the pts importer with image origin
    m = p.modules["menpo.io.input.landmark_image"]
    v = m.assigns.get("pts_image_importer")
    r.check(v is not None and norm(v) == "partial_doc(pts_importer, image_origin=True)", "menpo.io.input.landmark_image", v if v is not None else "pts_image_importer",
            "pts_image_importer must be pts_importer with image_origin=True (the exporter writes image-origin files)")


def _subscript_keys(fn_node, base_pred=None):
    out = set()
    for n in walk_own(fn_node):
        if isinstance(n, ast.Subscript):
            k = const_value(n.slice)
            if isinstance(k, str):
                out.add(k)
        elif isinstance(n, ast.Call) and isinstance(n.func, ast.Attribute) and n.func.attr == "get" and n.args:
            k = const_value(n.args[0])
            if isinstance(k, str):
                out.add(k)
    return out


def _dict_literal_keys(fn_node):
    out = set()
    for n in walk_own(fn_node):
        if isinstance(n, ast.Dict):
            for k in n.keys:
                kv = const_value(k)
                if isinstance(kv, str):
                    out.add(kv)
    return out


def rule_r3(p, res):
    r = res.rule("C16.R3", "LJSON keys written = keys parsed; None<->NaN on both sides; label order preserved")
    ex = p.func("menpo.io.output.landmark.ljson_exporter")
    pr = p.func("menpo.io.input.landmark._parse_ljson_v3")
    im = p.func("menpo.io.input.landmark.ljson_importer")
    tj = [p.own_method("PointCloud", "tojson"), p.own_method("PointGraph", "tojson"), p.own_method("LabelledPointUndirectedGraph", "tojson")]
    for f in [ex, pr, im] + tj:
        r.instance(f)
    written = _dict_literal_keys(ex.node) | _subscript_keys(ex.node)
    for f in tj:
        written |= _dict_literal_keys(f.node) | _subscript_keys(f.node)
    written -= {"LJSON"}
    # the parser and the private helpers of its module that it calls
    from ..calls import CallCtx as _Ctx
    helpers_of_pr = []
    cx = _Ctx(p, pr, None)
    for k in calls_in(pr.node, include_nested=True):
        for t_ in cx.resolve_call(k):
            if t_.func.cls is None and t_.func.module is pr.module and t_.func.name.startswith("_") and t_.func is not pr and t_.func not in [h for h, _ in helpers_of_pr]:
                helpers_of_pr.append((t_.func, k))
    read = _subscript_keys(pr.node) | _subscript_keys(im.node)
    for h, _k in helpers_of_pr:
        read |= _subscript_keys(h.node)
    want = {"version", "groups", "labels", "label", "mask", "landmarks", "points", "connectivity"}
    r.check(read <= written, pr, pr.node, "the v3 parser reads keys %s that the exporter never writes" % sorted(read - written), {"read": sorted(read), "written": sorted(written)})
    r.check(want <= written, ex, ex.node, "the exporter / tojson methods no longer write %s" % sorted(want - written))
    r.check(want <= read, pr, pr.node, "the v3 parser no longer reads %s" % sorted(want - read))
    # ... and along the call chain that is actually taken: what a labelled graph's tojson writes, following its (explicit-base / super) calls
    from ..calls import CallCtx
    lg = p.cls("LabelledPointUndirectedGraph")

    def chain_keys(fn, seen):
        if fn in seen:
            return set()
        seen.add(fn)
        ks = _dict_literal_keys(fn.node) | _subscript_keys(fn.node)
        ctx = CallCtx(p, fn, lg)
        for k in calls_in(fn.node):
            if isinstance(k.func, ast.Attribute) and k.func.attr == "tojson":
                for t in ctx.resolve_call(k):
                    ks |= chain_keys(t.func, seen)
        return ks
    chain = chain_keys(tj[2], set())
    need_graph = {"points", "connectivity", "labels", "landmarks"}
    r.check(need_graph <= chain, tj[2], tj[2].node, "following the calls LabelledPointUndirectedGraph.tojson actually makes, the keys %s are never written: a labelled graph comes back from "
            "LJSON without them (its edges are lost when `connectivity` is missing)" % sorted(need_graph - chain), {"chain_keys": sorted(chain)})
    # None <-> NaN
    exs = norm(ex.node)
    r.check("None if np.isnan(x) else x" in exs, ex, ex.node, "the exporter must map NaN coordinates to null")
    r.check("allow_nan=False" in exs, ex, ex.node, "the exporter must refuse raw NaN in the JSON (allow_nan=False)")
    nv = p.func("menpo.io.input.landmark._ljson_parse_null_values")
    r.instance(nv)
    r.check("np.nan if x is None else x" in norm(nv.node), nv, nv.node, "the importer must map null back to NaN")
    r.check(any((dotted(c.func) or "") == "_ljson_parse_null_values" and "points" in norm(c) for c in calls_in(pr.node)), pr, pr.node, "v3 points must go through the null->NaN mapping")
    # coordinates regrouped by the dimensionality
    r.check("filtered_points[::2], filtered_points[1::2]" in exs and "filtered_points[::3], filtered_points[1::3], filtered_points[2::3]" in exs, ex, ex.node,
            "flattened coordinates must be regrouped per point for 2-D and 3-D")
    # label order: list on export, ordered mapping on import
    lt = tj[2]
    comp = [n for n in walk_own(lt.node) if isinstance(n, ast.ListComp)]
    loops = [n for n in walk_own(lt.node) if isinstance(n, ast.For) and norm(n.iter) == "self._labels_to_masks.items()"
             and any(isinstance(k, ast.Call) and isinstance(k.func, ast.Attribute) and k.func.attr == "append" for k in ast.walk(n))]
    r.check(any(norm(c.generators[0].iter) == "self._labels_to_masks.items()" for c in comp) or bool(loops), lt, lt.node, "labels must be exported as a list in the group's own label order")
    r.check(any(kwarg(c, "object_pairs_hook") is not None and norm(kwarg(c, "object_pairs_hook")) == "OrderedDict" for c in calls_in(im.node)), im, im.node,
            "the importer must load JSON objects as ordered mappings")
    d = Defs(pr.node)
    # the mapping that receives  X[label['label']] = mask  (in the parser or in a helper it calls) is created as an OrderedDict
    created = []
    for fn_ in [pr] + [h for h, _k in helpers_of_pr]:
        dd = Defs(fn_.node)
        for n in walk_own(fn_.node):
            if isinstance(n, ast.Assign) and isinstance(n.targets[0], ast.Subscript) and norm(n.targets[0].slice) == "label['label']" and isinstance(n.targets[0].value, ast.Name):
                created += [norm(v_) for k_, v_, st_ in dd.of(n.targets[0].value.id) if k_ == "assign" and isinstance(v_, ast.AST) and not (isinstance(v_, ast.Call) and (dotted(v_.func) or "") in [h.name for h, _k in helpers_of_pr])]
    need(created, "C16.R3: the mapping that collects the parsed labels was not found")
    # one mapping per group: inside the loop over the groups the mapping is (re)created on every path before it is used
    gl = [n for n in walk_own(pr.node) if isinstance(n, ast.For) and "['groups']" in norm(n.iter)]
    need(len(gl) == 1, "C16.R3: the loop over the LJSON groups was not found")
    uses = [k for k in calls_in(gl[0]) if isinstance(k.func, ast.Attribute) and k.func.attr == "init_from_edges"]
    need(uses, "C16.R3: the construction of the parsed group was not found")
    gg = cfgmod.build(pr.node)
    for k in uses:
        mapping_args = [a_ for a_ in list(k.args) + [kw.value for kw in k.keywords] if isinstance(a_, ast.Name) and any(isinstance(x, ast.Assign) and isinstance(x.targets[0], ast.Name)
                        and x.targets[0].id == a_.id and isinstance(x.value, ast.Call) and ((dotted(x.value.func) or "") in ("OrderedDict", "dict") or (dotted(x.value.func) or "") in [h.name for h, _k in helpers_of_pr])
                        for x in walk_own(pr.node))]
        for a_ in mapping_args:
            fresh = [x for x in gl[0].body if isinstance(x, ast.Assign) and isinstance(x.targets[0], ast.Name) and x.targets[0].id == a_.id]
            r.check(bool(fresh) and fresh[0].lineno < stmt_of(k).lineno, pr, stmt_of(k), "`%s` is not re-created unconditionally for every group before `%s` uses it: a group without labels inherits the labels and masks "
                    "of the group parsed before it" % (a_.id, norm(k)[:50]), {"per_group_mapping": a_.id})
    r.check(all(c_ == "OrderedDict()" for c_ in created), pr, pr.node, "parsed labels must be collected in an ordered mapping, in file order (found %s)" % created)
    loops = [n for n in walk_own(pr.node) if isinstance(n, ast.For) and norm(n.iter) == "lms_dict_group['labels']"]
    for h, k_ in helpers_of_pr:
        from ..astutil import bind_call
        try:
            bound_ = bind_call(k_, h)
        except Exception:
            bound_ = {}
        for n in walk_own(h.node):
            if isinstance(n, ast.For) and isinstance(n.iter, ast.Name) and n.iter.id in bound_ and norm(bound_[n.iter.id]) == "lms_dict_group['labels']":
                loops.append(n)
    r.check(bool(loops), pr, pr.node, "labels must be parsed in list order")
    # the mask indices written are the ones set on import
    dl = Defs(lt.node)
    mask_vals = [v for n in ast.walk(lt.node) if isinstance(n, ast.Dict) for k_, v in zip(n.keys, n.values) if isinstance(k_, ast.Constant) and k_.value == "mask"]
    maskvars = {nm for nm, ds in dl.defs.items() if any(kd in ("for-unpack", "comp-unpack", "for", "comp") for kd, _v, _s in ds)}

    def indices_of_mask(v):
        e = expand(v, dl)
        t = norm(e)
        m_ = __import__("re").fullmatch(r"(\w+)\.nonzero\(\)\[0\]\.tolist\(\)|np\.nonzero\((\w+)\)\[0\]\.tolist\(\)|np\.flatnonzero\((\w+)\)\.tolist\(\)", t)
        return bool(m_) and (m_.group(1) or m_.group(2) or m_.group(3)) in maskvars

    r.check("mask.nonzero()[0].tolist()" in norm(lt.node) or (bool(mask_vals) and all(indices_of_mask(v) for v in mask_vals)), lt, lt.node,
            "a label's mask must be exported as the list of its point indices")
    closure_text = norm(pr.node) + "".join("\n" + norm(h.node) for h, _k in helpers_of_pr)
    r.check("mask[label['mask']] = True" in closure_text, pr, pr.node, "a parsed label must switch on exactly the listed indices")
    # edges: exported from .edges, imported through init_from_edges
    r.check("self.edges.tolist()" in norm(tj[1].node), tj[1], tj[1].node, "connectivity must be exported from the edge list")
    r.check(any(isinstance(c.func, ast.Attribute) and c.func.attr == "init_from_edges" for c in calls_in(pr.node)), pr, pr.node, "parsed connectivity must be used as an edge list")


def rule_r4(p, res):
    r = res.rule("C16.R4", "paired constants: .pts swap/offset; per-dtype pixel range")
    ex = p.func("menpo.io.output.landmark.pts_exporter")
    im = p.func("menpo.io.input.landmark.pts_importer")
    r.instance(ex)
    r.instance(im)
    d = Defs(ex.node)
    tr = [v for k, v, s in d.of("pts") if k == "assign" and isinstance(v, ast.BinOp)]
    ok = len(tr) == 1 and isinstance(tr[0].op, ast.Add) and const_value(tr[0].right) == 1 and norm(tr[0].left) == "pts[:, [1, 0]]"
    r.check(ok, ex, ex.node, ".pts export must swap the two columns and add 1 (1-based x y); found %s" % [norm(x) for x in tr], {"export": [norm(x) for x in tr]})
    sv = [c for c in calls_in(ex.node) if (dotted(c.func) or "") in ("np.savetxt", "numpy.savetxt")]
    r.check(len(sv) == 1 and const_value(kwarg(sv[0], "fmt")) == "%.3f", ex, ex.node, ".pts is written with three decimals")
    g = cfgmod.build(im.node)
    st = [n for n in walk_own(im.node) if isinstance(n, ast.Assign) and norm(n.targets[0]) == "points"]
    got = {}
    for n in st:
        gs = [(norm(t), pol) for t, pol in g.guards(n) if "image_origin" in norm(t)]
        got[tuple(gs)] = norm(n.value)
    want = {(("image_origin", True),): "np.hstack([ys - 1, xs - 1])", (("image_origin", False),): "np.hstack([xs - 1, ys - 1])"}
    r.check(got == want, im, im.node, ".pts import must subtract 1 and, for image origin, swap to (y, x); found %s" % got, {"import": {str(k): v for k, v in got.items()}})
    loop = [n for n in walk_own(im.node) if isinstance(n, ast.Assign) and norm(n.value) == "line.split()[:2]"]
    r.check(bool(loop) and norm(loop[0].targets[0]) == "(xpos, ypos)", im, im.node, "the first column of a .pts line is x, the second y")
    # pixel ranges
    nf = p.func("menpo.image.base.normalize_pixels_range")
    df = p.func("menpo.image.base.denormalize_pixels_range")
    r.instance(nf)
    r.instance(df)

    def ranges(f, var, _depth=0):
        """{dtype name: constant} -- the constants bound (or, in a helper the function calls with that variable, returned)
        under `<var> == np.<dtype>`"""
        g_ = cfgmod.build(f.node)
        out = {}
        for n in walk_own(f.node):
            val = None
            if isinstance(n, ast.Assign) and len(n.targets) == 1 and isinstance(n.targets[0], ast.Name):
                val = n.value
            elif isinstance(n, ast.Return) and _depth:
                val = n.value
            if val is None or const_value(val) is None:
                continue
            for t, pol in g_.guards(n):
                s = norm(t)
                if pol and s.startswith(var + " == np."):
                    out[s.split("np.")[1]] = const_value(val)
        if not out and _depth == 0:
            ctx = CallCtx(p, f, f.cls)
            for k in calls_in(f.node):
                if any(isinstance(a_, ast.Name) and a_.id == var for a_ in k.args):
                    for t in ctx.resolve_call(k):
                        h = t.func
                        if h.module is f.module and h.cls is None and h.params:
                            pos = [i for i, a_ in enumerate(k.args) if isinstance(a_, ast.Name) and a_.id == var][0]
                            if pos < len(h.params):
                                out.update(ranges(h, h.params[pos], 1))
        return out

    rn, rd = ranges(nf, "dtype"), ranges(df, "out_dtype")
    r.check(rn == rd == {"uint8": 255.0, "uint16": 65535.0}, df, df.node, "normalise and denormalise must use the same range per dtype (found %s / %s)" % (rn, rd),
            {"normalize": rn, "denormalize": rd})
    rets = returns_of(nf.node)
    r.check(any(norm(x.value) in ("pixels * (1.0 / max_range)", "pixels / max_range") for x in rets), nf, nf.node, "normalisation must divide by the dtype's maximum")


ROUNDERS = ("np.round", "np.rint", "np.around", "numpy.round", "numpy.rint", "numpy.around", "round")


def rule_r5(p, res):
    r = res.rule("C16.R5", "float -> integer pixel conversion rounds before casting")
    df = p.func("menpo.image.base.denormalize_pixels_range")
    r.instance(df)
    d = Defs(df.node)
    n = 0
    for ret in returns_of(df.node):
        v = ret.value
        if isinstance(v, ast.Call) and isinstance(v.func, ast.Attribute) and v.func.attr == "astype":
            base = v.func.value
            scaled = "max_range" in {x.id for x in ast.walk(base) if isinstance(x, ast.Name)} or any(isinstance(x, ast.BinOp) and isinstance(x.op, ast.Mult) for x in ast.walk(expand(base, d)))
            if not scaled:
                continue  # float -> float
            n += 1
            rounded = False
            for c in ast.walk(expand(base, d)):
                if isinstance(c, ast.Call) and ((dotted(c.func) or "") in ROUNDERS or (isinstance(c.func, ast.Attribute) and c.func.attr == "round")):
                    rounded = True
                if isinstance(c, ast.BinOp) and isinstance(c.op, ast.Add) and const_value(c.right) == 0.5:
                    rounded = True
            r.check(rounded, df, ret, "`%s` truncates: x/255*255 can land just below the integer, so 8-bit values do not survive import->export "
                    "(round before the cast)" % norm(v)[:60], {"conversion": norm(v)[:60]})
    if n < 1:
        raise AnalysisError("C16.R5: the float->integer conversion of denormalize_pixels_range was not recognised")


def rule_r6(p, res):
    r = res.rule("C16.R6", "numpy / scipy / PIL names reachable from export and import resolve in the installed libraries")
    entry = [p.func(OUT + n) for n in ("export_landmark_file", "export_image", "export_pickle", "_export", "_export_paths_only")]
    entry += [p.func("menpo.io.output.landmark.ljson_exporter"), p.func("menpo.io.output.landmark.pts_exporter"),
              p.func("menpo.io.output.image.pil_exporter"), p.func("menpo.io.output.pickle.pickle_exporter"),
              p.func("menpo.io.input.landmark.ljson_importer"), p.func("menpo.io.input.landmark.pts_importer"),
              p.func("menpo.io.input.landmark._parse_ljson_v3"), p.func("menpo.io.input.landmark._ljson_parse_null_values"),
              p.func("menpo.io.input.image.pillow_importer"), p.func("menpo.io.input.image._pil_to_numpy"),
              p.func("menpo.io.input.pickle.pickle_importer"), p.func("menpo.io.input.pickle.pickle_gzip_importer"),
              p.func("menpo.image.base.normalize_pixels_range"), p.func("menpo.image.base.denormalize_pixels_range"),
              p.own_method("Image", "as_PILImage"), p.func("menpo.image.base.channels_to_back"), p.func("menpo.image.base.channels_to_front"),
              p.own_method("PointCloud", "tojson"), p.own_method("PointGraph", "tojson"), p.own_method("LabelledPointUndirectedGraph", "tojson"),
              p.own_method("Image", "init_from_channels_at_back")]
    seen = {}
    for f in entry:
        for (fn, k), dpt in reachable_funcs(p, f, f.cls, max_depth=2).items():
            if fn.module.name.startswith(("menpo.io", "menpo.image.base")) or fn in entry:
                seen[fn] = True
    n_ok = 0
    for f in sorted(seen, key=lambda x: x.qualname):
        r.instance(f)
        bad, ok = apicompat.check_function(p, f)
        n_ok += ok
        for _ in range(ok):
            r.ok()
        for node, full, detail in bad:
            r.violation(f, node, "`%s` does not exist in the installed library (%s): every call that reaches this line raises AttributeError" % (full, detail))
    if n_ok < 25:
        raise AnalysisError("C16.R6: only %d third-party references resolved (floor 25)" % n_ok)


def rule_r7(p, res):
    r = res.rule("C16.R7", "pickle exporter restores Path.__reduce__ in a finally")
    f = p.func("menpo.io.output.pickle.pickle_paths_as_pure")
    r.instance(f)
    tries = [n for n in walk_own(f.node) if isinstance(n, ast.Try)]
    ok = False
    for t in tries:
        if any(isinstance(s, ast.Expr) and isinstance(s.value, ast.Yield) for s in t.body):
            ok = any(isinstance(s, ast.Assign) and norm(s.targets[0]) == "Path.__reduce__" and norm(s.value) == "default_reduce" for s in t.finalbody)
    r.check(ok, f, f.node, "Path.__reduce__ must be restored in a finally around the yield")
    d = Defs(f.node)
    v = d.single("default_reduce")
    r.check(v is not None and norm(v) == "Path.__reduce__", f, f.node, "the saved reduce must be the original one")
    pe = p.func("menpo.io.output.pickle.pickle_exporter")
    r.instance(pe)
    w = [n for n in walk_own(pe.node) if isinstance(n, ast.With)]
    r.check(bool(w) and any((dotted(c.func) or "") == "pickle.dump" for c in calls_in(w[0])), pe, pe.node, "pickle.dump must run inside the path-patching context")


def rule_r8(p, res):
    r = res.rule("C16.R8", "image export moves the channel axis to the back without permuting the spatial axes")
    f = p.func("menpo.image.base.channels_to_back")
    r.instance(f)
    px = f.params[0]
    ok = False
    bad = None
    for k in calls_in(f.node):
        nm = dotted(k.func) or ""
        if nm == "np.rollaxis" and len(k.args) == 3 and norm(k.args[0]) == px and norm(k.args[1]) == "0" and norm(k.args[2]) in ("%s.ndim" % px, "len(%s.shape)" % px):
            ok = True
        elif nm == "np.moveaxis" and len(k.args) == 3 and norm(k.args[0]) == px and norm(k.args[1]) == "0" and norm(k.args[2]) == "-1":
            ok = True
        elif nm in ("np.swapaxes", "np.transpose") or (isinstance(k.func, ast.Attribute) and k.func.attr in ("swapaxes", "transpose", "T")):
            bad = k
    r.check(ok and bad is None, f, bad if bad is not None else f.node, "channels_to_back must roll axis 0 to the end (rollaxis(pixels, 0, ndim) / moveaxis(pixels, 0, -1)); a swap or transpose also "
            "exchanges the spatial axes, so exported colour images come out transposed")


def _setstate_walk(body, guards, out):
    """(stmt, guards) for every statement of a body; guards = [(test expr, polarity, branch body)]"""
    for st in body:
        out.append((st, guards))
        if isinstance(st, ast.If):
            _setstate_walk(st.body, guards + [(st.test, True, st.body)], out)
            _setstate_walk(st.orelse, guards + [(st.test, False, st.orelse)], out)
        elif isinstance(st, (ast.For, ast.While)):
            _setstate_walk(st.body, guards, out)
            _setstate_walk(st.orelse, guards, out)
        elif isinstance(st, ast.With):
            _setstate_walk(st.body, guards, out)
        elif isinstance(st, ast.Try):
            for b in [st.body, st.orelse, st.finalbody] + [h.body for h in st.handlers]:
                _setstate_walk(b, guards, out)


def _membership(test, stv):
    """(key, present?) when `test` is `'k' in st` / `'k' not in st` / `not ('k' in st)` / hasattr(self, 'k')"""
    neg = False
    while isinstance(test, ast.UnaryOp) and isinstance(test.op, ast.Not):
        neg = not neg
        test = test.operand
    if isinstance(test, ast.Compare) and len(test.ops) == 1 and isinstance(test.left, ast.Constant) and isinstance(test.left.value, str) \
            and isinstance(test.comparators[0], ast.Name) and test.comparators[0].id == stv:
        if isinstance(test.ops[0], ast.In):
            return test.left.value, not neg
        if isinstance(test.ops[0], ast.NotIn):
            return test.left.value, neg
    if isinstance(test, ast.Call) and (dotted(test.func) or "") == "hasattr" and len(test.args) == 2 and norm(test.args[0]) == "self" \
            and isinstance(test.args[1], ast.Constant):
        return test.args[1].value, not neg
    return None


def _removed_keys(body, stv):
    out = set()
    for st in body:
        for n in ast.walk(st):
            if isinstance(n, ast.Delete):
                for t in n.targets:
                    if isinstance(t, ast.Subscript) and norm(t.value) == stv and isinstance(t.slice, ast.Constant):
                        out.add(t.slice.value)
            elif isinstance(n, ast.Call) and isinstance(n.func, ast.Attribute) and n.func.attr == "pop" and norm(n.func.value) == stv \
                    and n.args and isinstance(n.args[0], ast.Constant):
                out.add(n.args[0].value)
    return out


def rule_r9(p, res):
    r = res.rule("C16.R9", "unpickling hooks install the whole pickled state and only migrate legacy keys: no __setstate__ overwrites a value the pickle carries")
    hooks = [f for f in p.all_functions() if f.name == "__setstate__" and f.cls is not None and "/test/" not in f.module.relpath.replace("\\", "/")]
    if len(hooks) < 3:
        raise AnalysisError("C16.R9: only %d __setstate__ hooks found (PCAVectorModel, LabelledPointUndirectedGraph, LandmarkManager expected)" % len(hooks))
    for f in sorted(hooks, key=lambda x: x.qualname):
        r.instance(f)
        if len(f.params) != 2:
            raise AnalysisError("C16.R9: %s does not take (self, state)" % f.qualname)
        stv = f.params[1]
        stmts = []
        _setstate_walk(f.node.body, [], stmts)
        # 1. the state is installed on every path: an unconditional statement of the body
        installed = False
        for st in f.node.body:
            if isinstance(st, ast.Assign) and len(st.targets) == 1 and norm(st.targets[0]) == "self.__dict__" and norm(st.value) == stv:
                installed = True
            elif isinstance(st, ast.Expr) and isinstance(st.value, ast.Call) and norm(st.value.func) == "self.__dict__.update" \
                    and len(st.value.args) == 1 and norm(st.value.args[0]) == stv:
                installed = True
            elif isinstance(st, ast.For) and isinstance(st.iter, ast.Call) and norm(st.iter.func) == "%s.items" % stv:
                if any((isinstance(n, ast.Call) and (dotted(n.func) or "") == "setattr" and n.args and norm(n.args[0]) == "self")
                       or (isinstance(n, ast.Subscript) and isinstance(n.ctx, ast.Store) and norm(n.value) == "self.__dict__") for n in ast.walk(st)):
                    installed = True
        if not installed:
            cond = [st for st, g in stmts if g and isinstance(st, (ast.Assign, ast.Expr)) and "self.__dict__" in norm(st)]
            if cond:
                r.violation(f, cond[0], "%s installs the pickled state only on some paths: objects unpickled on the other paths come back empty" % f.short)
                continue
            raise AnalysisError("C16.R9: cannot see how %s installs the state (self.__dict__ = %s / self.__dict__.update(%s))" % (f.qualname, stv, stv))
        # 2. every store into the state is a migration
        locals_ = {}
        for st, guards in stmts:
            if isinstance(st, ast.Assign) and len(st.targets) == 1 and isinstance(st.targets[0], ast.Name):
                locals_.setdefault(st.targets[0].id, []).append(st.value)
        for st, guards in stmts:
            targets = []
            if isinstance(st, ast.Assign):
                targets = [(t, st.value) for t in st.targets]
            elif isinstance(st, ast.AugAssign):
                targets = [(st.target, None)]
            for t, val in targets:
                key = None
                if isinstance(t, ast.Subscript) and norm(t.value) in (stv, "self.__dict__") and isinstance(t.slice, ast.Constant) and isinstance(t.slice.value, str):
                    key = t.slice.value
                elif isinstance(t, ast.Attribute) and norm(t.value) == "self" and t.attr != "__dict__":
                    key = t.attr
                elif isinstance(t, ast.Subscript) and norm(t.value) in (stv, "self.__dict__"):
                    raise AnalysisError("C16.R9: %s stores under a computed key at line %d" % (f.qualname, st.lineno))
                if key is None:
                    continue
                ok = False
                for test, pol, branch in guards:
                    m = _membership(test, stv)
                    if m is None:
                        continue
                    k2, present = m
                    if not pol:
                        present = not present
                    if k2 == key and not present:
                        ok = True  # default for a key the pickle lacks
                    if k2 != key and present and k2 in _removed_keys(branch, stv):
                        ok = True  # legacy key renamed / unpacked and dropped
                if not ok and val is not None:
                    nodes, seen, todo = [], set(), [val]
                    while todo:
                        e = todo.pop()
                        for n in ast.walk(e):
                            nodes.append(n)
                            if isinstance(n, ast.Name) and n.id not in seen and n.id != stv:
                                seen.add(n.id)
                                todo.extend(locals_.get(n.id, ()))
                    for n in nodes:
                        if isinstance(n, ast.Subscript) and norm(n.value) in (stv, "self.__dict__") and isinstance(n.slice, ast.Constant) and n.slice.value == key:
                            ok = True  # same value, converted representation
                        if isinstance(n, ast.Attribute) and norm(n.value) == "self" and n.attr == key:
                            ok = True
                r.check(ok, f, st, "%s overwrites `%s` of the pickled state although the pickle carries it (not under `'%s' not in %s`, not a renamed legacy key, "
                        "not a conversion of the stored value): the imported object differs from the exported one" % (f.short, key, key, stv))
        # 3. nothing is removed from the state except legacy keys handled above
        for st, guards in stmts:
            for k in _removed_keys([st], stv) if not isinstance(st, (ast.If, ast.For, ast.While, ast.With, ast.Try)) else ():
                ok = any((_membership(t, stv) or (None, None))[0] == k for t, pol, b in guards)
                r.check(ok, f, st, "%s drops `%s` from the pickled state without `'%s' in %s` identifying it as a legacy key" % (f.short, k, k, stv))


RULES = [rule_r1, rule_r2, rule_r3, rule_r4, rule_r5, rule_r6, rule_r7, rule_r8, rule_r9]

WITNESSES = [
    Witness("C16.W1", "menpo/io/output/base.py", "_export",
            "export_function, extension = _validate_and_get_export_func(fp, extensions_map, extension, overwrite, return_extension=True)\n        with fp.open('wb') as file_handle:\n            export_function(",
            "with fp.open('wb') as file_handle:\n            export_function, extension = _validate_and_get_export_func(fp, extensions_map, extension, overwrite, return_extension=True)\n            export_function(",
            rule="C16.R1", construct="_export"),
    Witness("C16.W2", "menpo/io/output/base.py", "export_pickle", "path_filepath = _validate_filepath(fp, overwrite)", "path_filepath = _validate_filepath(fp, True)",
            rule="C16.R1", construct="export_pickle"),
    Witness("C16.W3", "menpo/io/input/landmark.py", "_parse_ljson_v3", "lms_dict_group['landmarks'].get('connectivity')", "lms_dict_group['landmarks'].get('connect')",
            rule="C16.R3", construct="_parse_ljson_v3"),
    Witness("C16.W4", "menpo/io/output/landmark.py", "pts_exporter", "pts = pts[:, [1, 0]] + 1", "pts = pts[:, [1, 0]] + 0", rule="C16.R4", construct="pts_exporter"),
    Witness("C16.W5", "menpo/image/base.py", "denormalize_pixels_range", "np.rint(pixels * max_range).astype(out_dtype)", "(pixels * max_range).astype(out_dtype)",
            rule="C16.R5", construct="denormalize_pixels_range", note="reverts the rounding repair of finding #12"),
    Witness("C16.W6", "menpo/image/base.py", "denormalize_pixels_range", "np.issubdtype(in_dtype, np.floating)", "np.issubclass_(in_dtype.type, np.floating)",
            rule="C16.R6", construct="denormalize_pixels_range", note="reverts the API repair of finding #12"),
    Witness("C16.W7", "menpo/io/output/base.py", "export_image", "_export(image, fp, image_types, extension, overwrite)", "_export(image, fp, image_types, extension, True)",
            rule="C16.R1", construct="export_image"),
    Witness("C16.W8", "menpo/io/output/base.py", "_validate_filepath", "if path_filepath.exists() and (not overwrite):", "if path_filepath.exists() and overwrite:",
            rule="C16.R1", construct="_validate_filepath"),
    Witness("C16.W9", "menpo/io/output/pickle.py", "pickle_paths_as_pure", "finally:\n        Path.__reduce__ = default_reduce", "finally:\n        pass",
            rule="C16.R7", construct="pickle_paths_as_pure"),
    Witness("C16.W10", "menpo/io/input/landmark.py", "pts_importer", "points = np.hstack([ys - 1, xs - 1])", "points = np.hstack([xs - 1, ys - 1])",
            rule="C16.R4", construct="pts_importer"),
    Witness("C16.W11", "menpo/io/output/base.py", "_export", "if isinstance(fp, str):\n        fp = Path(fp)", "if False:\n        fp = Path(fp)",
            rule="C16.R1", construct="_export"),
    Witness("C16.W12", "menpo/io/output/base.py", "export_image", "_export(image, fp, image_types, extension, overwrite)", "_export(image, fp, image_types, None, overwrite)",
            rule="C16.G1", construct="export_image", note="generic dropped-option rule"),
    Witness("C16.W13", "menpo/io/utils.py", "", "def _norm_path(filepath):", "import functools\n\n\n@functools.lru_cache(maxsize=None)\ndef _norm_path(filepath):", rule="C16.R1", construct="_norm_path", note="seeded change R2-C16-A"),
    Witness("C16.T1", "menpo/io/output/base.py", "_export", "if isinstance(fp, str):\n        fp = Path(fp)",
            "if isinstance(fp, str):\n        fp = Path(fp)\n    n_kwargs = len(exporter_kwargs)", kind="T"),
]

WITNESSES += [
    Witness("C16.W14", "menpo/shape/labelled.py", "LabelledPointUndirectedGraph.tojson", "lms_dict = PointUndirectedGraph.tojson(self)", "lms_dict = PointCloud.tojson(self)",
            rule="C16.R3", construct="LabelledPointUndirectedGraph.tojson", note="seeded change R3-C16-B"),
]

WITNESSES += [
    Witness("C16.W15", "menpo/io/input/landmark.py", "_parse_ljson_v3",
            "    all_lms = {}\n    for key, lms_dict_group in lms_dict['groups'].items():", "    all_lms = {}\n    labels_to_mask = OrderedDict()\n    for key, lms_dict_group in lms_dict['groups'].items():",
            rule=None, kind="T", note="an extra creation before the loop alone changes nothing"),
    Witness("C16.W16", "menpo/io/input/landmark.py", "_parse_ljson_v3",
            "        labels_to_mask = OrderedDict()\n        if len(lms_dict_group['labels']) != 0:\n            n_points = points.shape[0]",
            "        if len(lms_dict_group['labels']) != 0:\n            labels_to_mask = OrderedDict()\n            n_points = points.shape[0]",
            rule="C16.R3", construct="_parse_ljson_v3", note="seeded change C16-A (mapping only re-created for labelled groups)"),
]

WITNESSES += [
    Witness("C16.W17", "menpo/image/base.py", "channels_to_back", "np.rollaxis(pixels, 0, pixels.ndim)", "np.swapaxes(pixels, 0, -1)", rule="C16.R8", construct="channels_to_back", note="seeded change R5-C16-B"),
]

WITNESSES += [
    Witness("C16.W18", "menpo/model/pca.py", "PCAVectorModel.__setstate__", "    self.__dict__ = state",
            "    if '_n_active_components' in state:\n        state['_n_active_components'] = int(state['_components'].shape[0])\n    self.__dict__ = state",
            rule="C16.R9", construct="__setstate__", note="seeded change R5-C16-C (inverted legacy default resets the active components of every unpickled model)"),
    Witness("C16.W19", "menpo/model/pca.py", "PCAVectorModel.__setstate__", "    self.__dict__ = state",
            "    if '_n_active_components' not in state:\n        state['_n_active_components'] = int(state['_components'].shape[0])\n    self.__dict__ = state",
            rule=None, kind="T", note="twin: a default for a key the pickle lacks is a legitimate migration"),
    Witness("C16.W20", "menpo/landmark/base.py", "LandmarkManager.__setstate__", "    self.__dict__ = state",
            "    if len(state['_landmark_groups']) > 0:\n        self.__dict__ = state",
            rule="C16.R9", construct="__setstate__", note="state installed only on some paths"),
]
