"""C08 -- retargeting an alignment equals rebuilding it, whatever happened before.

 R1 set_target = verify, set, re-fit (in that order); verification rejects other n_dims / n_points; nobody overrides it
 R2 the fit in __init__ and the re-fit in _sync_state_from_target are the same computation (sibling comparison)
 R3 every constructor option that reaches the fit is persisted on self and read by the re-fit
 R4 retargeting writes only the transform's own state (never source, target or the caller's point sets)
 R5 generalized Procrustes: the reported target is the one every member transform was last fitted to
 R6 the re-fit never reads previously fitted state as a value
"""
import ast
import copy as _copy

from ..loader import AnalysisError, dotted, ClassInfo
from ..astutil import clone, walk_own, calls_in, norm, Defs, leaves, stmt_of, kwarg, need, returns_of, expand
from .. import cfg as cfgmod
from ..calls import CallCtx, reachable_funcs
from ..effects import Effects, get_effects
from ..variants import Witness
from .common import self_attr_stores, only_raises

PROP = "C08"
EXPLANATION = (
    "Targetable.set_target is verify -> set -> _sync_state_from_target and is not overridden; for each of the alignment "
    "classes the target-dependent computation of __init__ and of the resolved _sync_state_from_target are extracted, "
    "rewritten to self.source/self.target/self.<persisted option> and compared (same callee, same keyword set, same "
    "roles); every constructor option is stored on self and an attribute derived from it is read by the re-fit; the "
    "re-fit's mutation summary touches only the transform's own matrix/coefficients; the re-fit reads no previously "
    "fitted state; in generalized Procrustes the value assigned to self.target is the value passed to set_target of "
    "every member on the same path and is not mutated afterwards."
)
NOT_DECIDED = "numerical indistinguishability from a fresh build"
TECHNIQUE = "sibling comparison of canonicalised fit expressions + option def-use + mutation summaries (static analysis)"

WRAPPERS = {"__init__", "_set_h_matrix", "set_h_matrix", "set_rotation_matrix", "fill_diagonal", "copyto"}
IGNORED_KW = {"copy", "skip_checks"}
SHAPE_ONLY = {"shape", "ndim", "dtype", "size"}
META_PROPS = {"n_dims", "n_dims_output", "n_points", "n_tris", "trilist", "n_parameters", "has_true_inverse", "composes_with", "composes_inplace_with"}


def alignment_classes(p):
    al = p.cls("Alignment")
    out = []
    for c in p.descendants(al, include_self=False):
        f = p.lookup(c, "_sync_state_from_target")
        if f is None or only_raises(f.node):
            continue
        init = p.lookup(c, "__init__")
        if init is None:
            continue
        out.append(c)
    return out


# -------------------------------------------------------------------- R1
def rule_r1(p, res):
    r = res.rule("C08.R1", "set_target = verify, set, re-fit; mismatching targets are refused; not overridden")
    st = p.own_method("Targetable", "set_target")
    r.instance(st)
    body = [s for s in st.node.body if not (isinstance(s, ast.Expr) and isinstance(s.value, ast.Constant))]
    names = [dotted(s.value.func) if isinstance(s, ast.Expr) and isinstance(s.value, ast.Call) else None for s in body]
    r.check(names == ["self._target_setter_with_verification", "self._sync_state_from_target"], st, st.node,
            "set_target must be exactly: verified setter, then _sync_state_from_target (found %s)" % names, {"set_target": names})
    if body and isinstance(body[0], ast.Expr) and isinstance(body[0].value, ast.Call):
        a = body[0].value.args
        r.check(len(a) == 1 and isinstance(a[0], ast.Name) and a[0].id == st.params[1], st, body[0], "the new target must be passed on unchanged")
    sv = p.own_method("Targetable", "_target_setter_with_verification")
    r.instance(sv)
    body = [s for s in sv.node.body if not (isinstance(s, ast.Expr) and isinstance(s.value, ast.Constant))]
    names = [dotted(s.value.func) if isinstance(s, ast.Expr) and isinstance(s.value, ast.Call) else None for s in body]
    r.check(names == ["self._verify_target", "self._target_setter"], sv, sv.node, "verified setter must verify before setting (found %s)" % names)
    vt = p.own_method("Targetable", "_verify_target")
    r.instance(vt)
    g = cfgmod.build(vt.node)
    want = {"n_dims": False, "n_points": False}
    for n in walk_own(vt.node):
        if isinstance(n, ast.Raise):
            for test, pol in g.guards(n):
                if pol and isinstance(test, ast.Compare) and len(test.ops) == 1 and isinstance(test.ops[0], ast.NotEq):
                    a, b = norm(test.left), norm(test.comparators[0])
                    for k in want:
                        if {a, b} == {"new_target." + k, "self.target." + k}:
                            want[k] = True
    for k, ok in want.items():
        r.check(ok, vt, vt.node, "_verify_target must raise when the new target has a different %s" % k, {"verify": k})
    # the early return is only for a transform that has no target yet
    for n in walk_own(vt.node):
        if isinstance(n, ast.Return):
            gs = [(norm(t), pol) for t, pol in g.guards(n)]
            r.check(gs == [("self.target is None", True)], vt, n, "verification may be skipped only while no target exists (guards %s)" % gs)
    tg = p.cls("Targetable")
    for c in p.descendants(tg, include_self=False):
        for m in ("set_target", "_target_setter_with_verification", "_verify_target", "_sync_target_from_state"):
            if m in c.methods:
                r.violation(c.methods[m], c.methods[m].node, "%s overrides %s: retargeting would bypass verification / re-fit" % (c.name, m))
    al = p.own_method("Alignment", "_target_setter")
    r.instance(al)
    stores = self_attr_stores(al.node)
    r.check(len(stores) == 1 and stores[0][0] == "_target" and isinstance(stores[0][2], ast.Name) and stores[0][2].id == al.params[1], al, al.node,
            "Alignment._target_setter must store exactly the new target")
    tp = p.own_method("Alignment", "target")
    rets = returns_of(tp.node)
    r.check(len(rets) == 1 and norm(rets[0].value) == "self._target", tp, tp.node, "Alignment.target must return the stored target")
    sp = p.own_method("Alignment", "source")
    rets = returns_of(sp.node)
    r.check(len(rets) == 1 and norm(rets[0].value) == "self._source", sp, sp.node, "Alignment.source must return the stored source")


# ------------------------------------------------------------------ R2/R3
class _Canon(ast.NodeTransformer):
    def __init__(self, mapping):
        self.mapping = mapping

    def visit_Name(self, n):
        if n.id in self.mapping:
            return ast.parse(self.mapping[n.id], mode="eval").body
        return n

    def visit_Attribute(self, n):
        self.generic_visit(n)
        s = norm(n)
        if s == "self._source":
            return ast.parse("self.source", mode="eval").body
        if s == "self._target":
            return ast.parse("self.target", mode="eval").body
        return n

    def visit_Call(self, n):
        self.generic_visit(n)
        n.keywords = sorted([k for k in n.keywords if k.arg not in IGNORED_KW], key=lambda k: k.arg or "")
        # Base.m(self, ...) -> self.m(...)
        if isinstance(n.func, ast.Attribute) and n.args and isinstance(n.args[0], ast.Name) and n.args[0].id == "self" \
                and isinstance(n.func.value, ast.Name) and n.func.value.id[:1].isupper():
            n.func = ast.Attribute(value=ast.Name(id="self", ctx=ast.Load()), attr=n.func.attr, ctx=ast.Load())
            n.args = n.args[1:]
        return n


def _canon(e, mapping):
    t = _Canon(mapping).visit(clone(e))
    return t


def _climb(node, stop_stmt=True):
    """maximal expression around `node` below a statement or a state-writing wrapper call"""
    cur = node
    while True:
        par = getattr(cur, "_parent", None)
        if par is None or isinstance(par, ast.stmt):
            return cur
        if isinstance(par, ast.keyword):
            cur = par
            continue
        if isinstance(par, ast.Call):
            last = par.func.attr if isinstance(par.func, ast.Attribute) else getattr(par.func, "id", None)
            if last in WRAPPERS and cur is not par.func:
                return cur.value if isinstance(cur, ast.keyword) else cur
        if isinstance(par, (ast.expr, ast.keyword)):
            cur = par
            continue
        return cur


def _reads_target(p, f, cls, depth=0, seen=None):
    """does f (with self of class cls) read self.target / self._target, directly or through self helpers"""
    seen = seen if seen is not None else set()
    if (f, cls) in seen or depth > 6:
        return False
    seen.add((f, cls))
    for n in walk_own(f.node):
        if isinstance(n, ast.Attribute) and isinstance(n.value, ast.Name) and n.value.id == "self" and n.attr in ("target", "_target"):
            return True
    ctx = CallCtx(p, f, cls)
    for c in calls_in(f.node):
        for t in ctx.resolve_call(c):
            if t.func.cls is not None and t.recv_cls is cls and _reads_target(p, t.func, cls, depth + 1, seen):
                return True
    return False


def _fit_exprs(p, f, cls, tname):
    """canonical fit expressions of f: maximal expressions mentioning the target (`tname` a bare param
    or 'self.target'), plus self-helper calls that read the target"""
    out = []
    ctx = CallCtx(p, f, cls)
    seen = set()
    for n in walk_own(f.node):
        hit = False
        if tname == "self.target":
            hit = isinstance(n, ast.Attribute) and norm(n) in ("self.target", "self._target") and isinstance(n.ctx, ast.Load)
        else:
            hit = isinstance(n, ast.Name) and n.id == tname and isinstance(n.ctx, ast.Load)
        if hit:
            e = _climb(n)
            # the plain registration of source/target is not part of the fit
            par = getattr(e, "_parent", None)
            if isinstance(par, ast.Call) and isinstance(par.func, ast.Attribute) and par.func.attr == "__init__":
                owner = dotted(par.func.value) or ""
                if owner.split(".")[-1] in ("Alignment", "HomogFamilyAlignment") or "super" in norm(par.func.value):
                    if e in par.args and isinstance(e, ast.Name):
                        continue
            if isinstance(e, ast.Name) and isinstance(par, ast.Call) and isinstance(par.func, ast.Attribute) and par.func.attr in ("_verify_source_and_target",):
                continue
            if id(e) not in seen:
                seen.add(id(e))
                out.append(e)
    for c in calls_in(f.node):
        if isinstance(c.func, ast.Attribute) and isinstance(c.func.value, ast.Name) and c.func.value.id == "self" and id(c) not in seen:
            if any(id(c) == id(x) or any(c is y for y in ast.walk(x)) for x in out):
                continue
            for t in ctx.resolve_call(c):
                if t.func.cls is not None and _reads_target(p, t.func, cls):
                    seen.add(id(c))
                    out.append(c)
                    break
    return out


def _option_map(p, cls, init):
    """constructor option -> self attribute it is stored in (searching the __init__ chain of the class)"""
    opts = [q for q in init.params[1:] if q not in ("source", "target")]
    mapping = {}
    for attr, st, v in self_attr_stores(init.node):
        if isinstance(v, ast.Name) and v.id in opts:
            mapping[v.id] = attr
        elif isinstance(v, ast.IfExp):
            pass
    # `if kernel is None: kernel = default` then self.kernel = kernel is covered by the Name case
    return opts, mapping


def _compare(r, f_init, f_sync, cls, ei, es, mapping_missing):
    a, b = norm(ei), norm(es)
    if a == b:
        r.ok({"class": cls.name, "fit": a[:90]})
        return
    if isinstance(ei, ast.Call) and isinstance(es, ast.Call):
        ca, cb = norm(ei.func), norm(es.func)
        if ca != cb:
            r.violation(f_sync, es, "%s: construction fits with `%s` but retargeting re-fits with `%s`" % (cls.name, ca, cb))
            return
        pa, pb = [norm(x) for x in ei.args], [norm(x) for x in es.args]
        ka, kb = {k.arg: norm(k.value) for k in ei.keywords}, {k.arg: norm(k.value) for k in es.keywords}
        msgs = []
        if pa != pb:
            msgs.append("positional arguments %s vs %s" % (pa, pb))
        for k in sorted(set(ka) | set(kb)):
            if ka.get(k) != kb.get(k):
                if k not in kb:
                    msgs.append("option `%s` is used at construction (%s) but not passed on re-fit" % (k, ka[k]))
                elif k not in ka:
                    msgs.append("option `%s` only on re-fit" % k)
                else:
                    msgs.append("option `%s`: %s at construction, %s on re-fit" % (k, ka[k], kb[k]))
        r.violation(f_sync, es, "%s: set_target does not rebuild what the constructor builds: %s" % (cls.name, "; ".join(msgs)))
        return
    if type(ei) is type(es) and isinstance(ei, ast.BinOp) and type(ei.op) is type(es.op):
        la, ra_, lb, rb = norm(ei.left), norm(ei.right), norm(es.left), norm(es.right)
        if isinstance(ei.op, (ast.Add, ast.Mult)) and {la, ra_} == {lb, rb}:
            r.ok({"class": cls.name, "fit": a[:90], "commuted": True})
            return
        if {la, ra_} == {lb, rb}:
            r.violation(f_sync, es, "%s: operands swapped between construction (`%s`) and re-fit (`%s`)" % (cls.name, a, b))
            return
        # same shape, same roles, but another measure of the point sets (e.g. centre vs centre_of_bounds, norm() vs an un-centred norm)
        def _roles(e):
            lv = leaves(e, None)
            return ("self.target" in lv or any(x.startswith("self.target.") for x in lv), "self.source" in lv or any(x.startswith("self.source.") for x in lv))
        if _roles(ei.left) == _roles(es.left) and _roles(ei.right) == _roles(es.right) and _roles(ei.left) != _roles(ei.right):
            r.violation(f_sync, es, "%s: construction fits with `%s` but retargeting re-fits with `%s`: the two use different measures of the point sets, so set_target does not "
                        "rebuild what the constructor builds" % (cls.name, a, b))
            return
    raise AnalysisError("C08.R2: cannot relate construction fit `%s` and re-fit `%s` of %s" % (a[:80], b[:80], cls.name))


def rule_r2_r3(p, res):
    r2 = res.rule("C08.R2", "construction fit and re-fit are the same computation")
    r3 = res.rule("C08.R3", "constructor options are persisted and read by the re-fit")
    for cls in alignment_classes(p):
        init = p.lookup(cls, "__init__")
        sync = p.lookup(cls, "_sync_state_from_target")
        r2.instance(cls)
        r3.instance(cls)
        if "target" not in init.params or "source" not in init.params:
            raise AnalysisError("C08.R2: %s.__init__ has no source/target parameters" % cls.name)
        # the class that owns the fit may be a base (PythonPWA inherits AbstractPWA's); follow the __init__ chain
        chain = _init_chain(p, cls, init)
        opts, omap = [], {}
        for fi in chain:
            o, m = _option_map(p, cls, fi)
            for q in o:
                if q not in opts:
                    opts.append(q)
            omap.update(m)
        mapping = {"source": "self.source", "target": "self.target"}
        for q in opts:
            mapping[q] = "self.%s" % omap[q] if q in omap else "UNPERSISTED_%s" % q
        fits_i = []
        for fi in chain:
            fits_i += [(_canon(e, mapping), e, fi) for e in _fit_exprs(p, fi, cls, "target")]
        fits_s = [(_canon(e, {}), e, sync) for e in _fit_exprs(p, sync, cls, "self.target")]
        need(fits_i, "C08.R2: no target-dependent computation found in %s.__init__" % cls.name)
        need(fits_s, "C08.R2: no target-dependent computation found in %s._sync_state_from_target" % cls.name)
        # pair by callee / shape
        used = set()
        for ci, ei, fi in fits_i:
            best = None
            for j, (cs, es, fs) in enumerate(fits_s):
                if j in used:
                    continue
                if norm(ci) == norm(cs):
                    best = j
                    break
                if best is None and type(ci) is type(cs):
                    if isinstance(ci, ast.Call) and norm(ci.func) == norm(cs.func):
                        best = j
                    elif not isinstance(ci, ast.Call):
                        best = j
            if best is None:
                if len(fits_s) == 1 and 0 not in used:
                    best = 0
                else:
                    r2.violation(sync, sync.node, "%s: construction computes `%s` from the target but the re-fit has no counterpart" % (cls.name, norm(ci)[:80]))
                    continue
            used.add(best)
            _compare(r2, fi, sync, cls, ci, fits_s[best][0], None)
        for j, (cs, es, fs) in enumerate(fits_s):
            if j not in used:
                r2.violation(sync, es, "%s: re-fit computes `%s` which the constructor does not" % (cls.name, norm(cs)[:80]))
        # ---- R3 options
        if not opts:
            continue
        refit_reads = _refit_attr_reads(p, sync, cls)
        for q in opts:
            uses = []
            for fi in chain:
                uses += [n for n in walk_own(fi.node) if isinstance(n, ast.Name) and n.id == q and isinstance(n.ctx, ast.Load)]
            if not uses:
                continue
            if q not in omap:
                r3.violation(chain[0], uses[0], "%s: constructor option `%s` is used to fit but never stored on self, so set_target cannot honour it" % (cls.name, q))
                continue
            derived = _derived_attrs(p, cls, chain, omap[q], q)
            r3.check(bool(derived & refit_reads), sync, sync.node,
                     "%s: option `%s` is stored as self.%s but the re-fit reads none of %s: retargeting ignores the option"
                     % (cls.name, q, omap[q], sorted(derived)), {"class": cls.name, "option": q, "read_by_refit": sorted(derived & refit_reads)})
    r2.floor(8, "alignment classes")


def _init_chain(p, cls, init):
    """own __init__ plus the base-class __init__s it calls explicitly, in call order (alignment/transform bases)"""
    chain = [init]
    ctx = CallCtx(p, init, cls)
    for c in calls_in(init.node):
        if isinstance(c.func, ast.Attribute) and c.func.attr == "__init__":
            for t in ctx.resolve_call(c):
                if t.func.name == "__init__" and t.func not in chain and t.func.cls.name not in ("Alignment", "HomogFamilyAlignment"):
                    if "target" in t.func.params:
                        chain += [x for x in _init_chain(p, cls, t.func) if x not in chain]
    return chain


def _self_reads(p, f, cls, seen=None, depth=0):
    """attributes of self read (Load, not as the base of a store) in f and the self helpers it calls"""
    seen = seen if seen is not None else set()
    out = set()
    if (f, cls) in seen or depth > 6:
        return out
    seen.add((f, cls))
    store_bases = set()
    for n in walk_own(f.node):
        if isinstance(n, (ast.Assign, ast.AugAssign)):
            ts = n.targets if isinstance(n, ast.Assign) else [n.target]
            for t in ts:
                for x in ast.walk(t):
                    if isinstance(x, ast.Attribute) and isinstance(x.ctx, ast.Load) and isinstance(t, ast.Subscript):
                        if any(x is y for y in ast.walk(t.value)):
                            store_bases.add(id(x))
    for n in walk_own(f.node):
        if isinstance(n, ast.Attribute) and isinstance(n.value, ast.Name) and n.value.id == "self" and isinstance(n.ctx, ast.Load) and id(n) not in store_bases:
            par = getattr(n, "_parent", None)
            if isinstance(par, ast.Call) and par.func is n:
                continue  # method call, handled below
            out.add(n.attr)
            m = p.lookup(cls, n.attr)
            if m is not None and m.is_property():
                out |= _self_reads(p, m, cls, seen, depth + 1)
    ctx = CallCtx(p, f, cls)
    for c in calls_in(f.node):
        for t in ctx.resolve_call(c):
            if t.func.cls is not None and t.recv_cls is cls:
                out |= _self_reads(p, t.func, cls, seen, depth + 1)
    return out


def _refit_attr_reads(p, sync, cls):
    return _self_reads(p, sync, cls)


def _derived_attrs(p, cls, chain, attr, option=None):
    """attributes of self whose stored value (in the __init__ chain) derives from self.<attr> (or from the constructor
    parameter `option` that self.<attr> is a copy of)"""
    out = {attr}
    changed = True
    stores = []
    for fi in chain:
        d = Defs(fi.node)
        for a, st, v in self_attr_stores(fi.node):
            stores.append((a, leaves(v, d)))
    while changed:
        changed = False
        for a, lv in stores:
            if a in out:
                continue
            if any(l == "self." + x or l.startswith("self." + x + ".") for x in out for l in lv) or (option is not None and ("param:" + option) in lv):
                out.add(a)
                changed = True
    return out


# -------------------------------------------------------------------- R4
def rule_r4(p, res):
    r = res.rule("C08.R4", "retargeting writes only the transform's own fitted state")
    eff = get_effects(p)
    for cls in alignment_classes(p):
        r.instance(cls)
        sync = p.lookup(cls, "_sync_state_from_target")
        s = eff.summary(sync, cls)
        bad = [e for e in s.on(sync.params[0]) if (e.path[:1] and e.path[0] in ("_source", "_target", "source", "target"))
               or e.kind in ("set:_source", "set:_target", "set:source", "set:target")]
        r.check(not bad, sync, bad[0].node if bad else sync.node, "%s re-fit writes the alignment's end points: %s" % (cls.name, bad[0].describe() if bad else ""),
                {"class": cls.name, "self_effects": sorted({e.where() + ":" + e.kind for e in s.on(sync.params[0])})[:6]})
        st = p.lookup(cls, "set_target")
        s2 = eff.summary(st, cls)
        bad2 = s2.on(st.params[1])
        r.check(not bad2, st, bad2[0].node if bad2 else st.node, "%s.set_target writes into the target it was given: %s" % (cls.name, bad2[0].describe() if bad2 else ""))
    r.floor(8, "alignment classes")


# -------------------------------------------------------------------- R5
def rule_r5(p, res):
    r = res.rule("C08.R5", "generalized Procrustes: reported target = target of every member transform")
    f = p.own_method("GeneralizedProcrustesAnalysis", "_recursive_procrustes")
    init = p.own_method("GeneralizedProcrustesAnalysis", "__init__")
    r.instance(f)
    r.instance(init)
    g = cfgmod.build(f.node)
    stores = [(a, st, v) for a, st, v in self_attr_stores(f.node) if a == "target"]
    need(stores, "C08.R5: _recursive_procrustes no longer updates self.target")
    eff = get_effects(p)
    for a, st, v in stores:
        need(isinstance(v, ast.Name), "C08.R5: self.target is assigned a non-name expression")
        loops = []
        for n in walk_own(f.node):
            if isinstance(n, ast.For) and norm(n.iter) == "self.transforms" and isinstance(n.target, ast.Name):
                calls = [c for c in calls_in(n) if isinstance(c.func, ast.Attribute) and c.func.attr == "set_target"
                         and isinstance(c.func.value, ast.Name) and c.func.value.id == n.target.id]
                if calls and all(len(c.args) == 1 and isinstance(c.args[0], ast.Name) and c.args[0].id == v.id for c in calls):
                    loops.append(n)
        ok = any(g.dominates(lp, st) or g.all_paths_after_pass(st, [lp]) for lp in loops)
        r.check(ok, f, st, "self.target = %s is not paired with set_target(%s) on every member of self.transforms on the same path: "
                "GPA would report a target its transforms were not fitted to" % (v.id, v.id), {"store": norm(st), "paired_loops": len(loops)})
        # the shared target must not be mutated after the transforms were fitted to it
        for lp in loops:
            for n in walk_own(f.node):
                if isinstance(n, ast.stmt) and n is not lp and g.reaches(lp, n) and not isinstance(n, (ast.For, ast.If, ast.While)):
                    for c in calls_in(n):
                        if isinstance(c.func, ast.Attribute) and c.func.attr in ("_apply_inplace", "apply_inplace", "_transform_inplace", "_from_vector_inplace") \
                                and any(isinstance(x, ast.Name) and x.id == v.id for x in c.args):
                            # only a problem if it is the same binding (recursion re-binds new_tgt): same function body => flag if no redefinition in between
                            d = Defs(f.node)
                            redefs = [s_ for k, val, s_ in d.of(v.id) if s_ is not None]
                            if not all(g.must_pass(redefs, n, start=cfgmod.ENTRY) for _ in [0]):
                                r.violation(f, n, "the common target is modified in place after the member transforms were fitted to it")
    # a fresh target in every round (it is scaled in place before being shared)
    d = Defs(f.node)
    for a, st, v in stores:
        vd = d.of(v.id)
        r.check(len(vd) == 1 and vd[0][0] == "assign" and isinstance(vd[0][1], ast.Call), f, st, "the new common target must be a freshly built shape")
    # __init__: any later overwrite of self.target only for a caller-fixed target
    gi = cfgmod.build(init.node)
    rec = [stmt_of(c) for c in calls_in(init.node) if isinstance(c.func, ast.Attribute) and c.func.attr == "_recursive_procrustes"]
    need(rec, "C08.R5: GPA.__init__ no longer runs _recursive_procrustes")
    for a, st, v in self_attr_stores(init.node):
        if a == "target" and gi.reaches(rec[0], st):
            gs = [(norm(t), pol) for t, pol in gi.guards(st)]
            r.check(("target is not None", True) in gs or ("target is None", False) in gs, init, st, "after the iteration self.target may be replaced only when the caller fixed the target (guards: %s)" % gs)
    # members are built towards self.target
    ctor = [c for c in calls_in(init.node) if (dotted(c.func) or "").endswith("AlignmentSimilarity")]
    need(ctor, "C08.R5: GPA no longer builds AlignmentSimilarity members")
    di_ = Defs(init.node)
    for c in ctor:
        a1 = c.args[1] if len(c.args) >= 2 else kwarg(c, "target")
        a1x = expand(a1, di_) if a1 is not None else None
        r.check(a1x is not None and str(norm(a1x)) == "self.target", init, c, "member transforms must be built towards self.target (found `%s`)" % (norm(a1x) if a1x is not None else None))


# -------------------------------------------------------------------- R6
def rule_r6(p, res):
    r = res.rule("C08.R6", "re-fit reads no previously fitted state")
    eff = get_effects(p)
    for cls in alignment_classes(p):
        r.instance(cls)
        sync = p.lookup(cls, "_sync_state_from_target")
        s = eff.summary(sync, cls)
        fitted = set()
        for e in s.on(sync.params[0]):
            if e.path:
                fitted.add(e.path[0])
            elif e.kind.startswith("set:"):
                fitted.add(e.kind[4:])
        fitted -= {"_target"}
        # properties that expose fitted attributes
        exposing = set()
        for k in cls.mro:
            for name, m in k.methods.items():
                if m.is_property() and name not in META_PROPS:
                    if _self_reads(p, m, cls) & fitted:
                        exposing.add(name)
        bad = _stale_reads(p, sync, cls, fitted | exposing, set(), 0)
        if bad:
            f, n, attr = bad[0]
            r.violation(f, n, "%s: the re-fit reads self.%s, state fitted to an earlier target, as a value: the result would depend on the "
                        "history of targets" % (cls.name, attr))
        else:
            r.ok({"class": cls.name, "fitted_state": sorted(fitted), "stale_reads": 0})
    r.floor(8, "alignment classes")


def _stale_reads(p, f, cls, fitted, seen, depth):
    out = []
    if (f, cls) in seen or depth > 6:
        return out
    seen.add((f, cls))
    g = cfgmod.build(f.node)
    own_stores = {}
    for a, st, v in self_attr_stores(f.node):
        own_stores.setdefault(a, []).append(st)
    write_bases = set()
    for n in walk_own(f.node):
        if isinstance(n, ast.AugAssign):
            # an augmented store reads what it overwrites: previously fitted state used as a value
            for x in ast.walk(n.target):
                if isinstance(x, ast.Attribute) and isinstance(x.value, ast.Name) and x.value.id == "self" and x.attr in fitted:
                    out.append((f, n, x.attr))
                    for y in ast.walk(n.target):
                        write_bases.add(id(y))
        if isinstance(n, (ast.Assign, ast.AugAssign)):
            ts = n.targets if isinstance(n, ast.Assign) else [n.target]
            for t in ts:
                if isinstance(t, ast.Subscript):
                    for x in ast.walk(t.value):
                        write_bases.add(id(x))
        elif isinstance(n, ast.Call):
            d = dotted(n.func) or ""
            if d.split(".")[-1] in ("fill_diagonal", "copyto") and n.args:
                for x in ast.walk(n.args[0]):
                    write_bases.add(id(x))
    for n in walk_own(f.node):
        if isinstance(n, ast.Attribute) and isinstance(n.value, ast.Name) and n.value.id == "self" and isinstance(n.ctx, ast.Load) and n.attr in fitted:
            if id(n) in write_bases:
                continue
            par = getattr(n, "_parent", None)
            if isinstance(par, ast.Attribute) and par.attr in SHAPE_ONLY:
                continue
            if isinstance(par, ast.Compare) and any(isinstance(c, ast.Constant) and c.value is None for c in par.comparators):
                continue
            if isinstance(par, ast.Call) and par.func is n:
                continue
            st = stmt_of(n)
            if any(g.dominates(w, st) and w is not st for w in own_stores.get(n.attr, [])):
                continue
            out.append((f, n, n.attr))
    ctx = CallCtx(p, f, cls)
    for c in calls_in(f.node):
        for t in ctx.resolve_call(c):
            if t.func.cls is not None and t.recv_cls is cls and t.func.name not in ("_set_h_matrix", "set_rotation_matrix"):
                out += _stale_reads(p, t.func, cls, fitted, seen, depth + 1)
    return out


# rules of sibling properties over code paths this property's statement also quantifies over (DESIGN.md section 3, shared rules)
ALSO = ['C06.R2']

RULES = [rule_r1, rule_r2_r3, rule_r4, rule_r5, rule_r6]

WITNESSES = [
    Witness("C08.W1", "menpo/transform/homogeneous/rotation.py", "AlignmentRotation._sync_state_from_target",
            "optimal_rotation_matrix(self.source, self.target, allow_mirror=self.allow_mirror)", "optimal_rotation_matrix(self.source, self.target)",
            rule="C08.R2", construct="AlignmentRotation"),
    Witness("C08.W2", "menpo/transform/thinplatesplines.py", "ThinPlateSplines._build_coefficients",
            "sum(_s < self.min_singular_val)", "sum(_s < 0.0001)", rule="C08.R3", construct="ThinPlateSplines"),
    Witness("C08.W3", "menpo/base.py", "Targetable.set_target",
            "self._target_setter_with_verification(new_target)\n    self._sync_state_from_target()",
            "self._sync_state_from_target()\n    self._target_setter_with_verification(new_target)", rule="C08.R1", construct="Targetable.set_target"),
    Witness("C08.W4", "menpo/base.py", "Targetable._verify_target",
            "elif new_target.n_points != self.target.n_points:\n        raise ValueError(", "elif new_target.n_points != self.target.n_points:\n        ValueError(",
            rule="C08.R1", construct="Targetable._verify_target"),
    Witness("C08.W5", "menpo/transform/groupalign/procrustes.py", "GeneralizedProcrustesAnalysis._recursive_procrustes",
            "for t in self.transforms:\n            t.set_target(new_tgt)", "pass", rule="C08.R5", construct="_recursive_procrustes"),
    Witness("C08.W6", "menpo/transform/homogeneous/translation.py", "AlignmentTranslation._sync_state_from_target",
            "translation = self.target.centre() - self.source.centre()", "translation = self.target.centre() - self.source.centre() + self.translation_component * 0",
            rule="C08.R6", construct="AlignmentTranslation"),
    Witness("C08.W7", "menpo/transform/homogeneous/similarity.py", "AlignmentSimilarity._sync_state_from_target",
            "rotation=self.rotation, ", "", rule="C08.R2", construct="AlignmentSimilarity", note="reverts the repair of finding #4"),
    Witness("C08.W8", "menpo/transform/homogeneous/scale.py", "AlignmentUniformScale._sync_state_from_target",
            "new_scale = self.target.norm() / self.source.norm()", "new_scale = self.source.norm() / self.target.norm()", rule="C08.R2", construct="AlignmentUniformScale"),
    Witness("C08.W9", "menpo/transform/piecewiseaffine/base.py", "AbstractPWA._rebuild_target_vectors",
            "t = self.target.points[self.trilist]", "t = self.target.points[self.trilist]\n    self.source.points[0] = t[0, 0]", rule="C08.R4", construct="PWA"),
    Witness("C08.W10", "menpo/transform/homogeneous/translation.py", "AlignmentTranslation._sync_state_from_target",
            "self.h_matrix[:-1, -1] = translation", "self.h_matrix[:-1, -1] += translation", rule="C08.R6", construct="AlignmentTranslation", note="seeded change C08-B"),
    Witness("C08.W11", "menpo/transform/homogeneous/scale.py", "AlignmentUniformScale._sync_state_from_target", "new_scale = self.target.norm() / self.source.norm()",
            "new_scale = np.linalg.norm(self.target.points) / np.linalg.norm(self.source.points)", rule="C08.R2", construct="AlignmentUniformScale", note="seeded change R2-C08-B"),
    Witness("C08.T1", "menpo/transform/homogeneous/rotation.py", "AlignmentRotation._sync_state_from_target",
            "optimal_rotation_matrix(self.source, self.target, allow_mirror=self.allow_mirror)", "optimal_rotation_matrix(self._source, self._target, allow_mirror=self.allow_mirror)", kind="T"),
]
