"""C06 -- copies are equal and fully independent; attached landmarks are owned copies.

 R1 generic copy is attribute-wise `.copy()`; every container-valued attribute of a Copyable class is deepened by the
    class's resolved copy override (or is in the shared-by-design table)
 R2 copy overrides stay deep: start from the generic copy / duplicate __dict__, re-copy each element, fresh matrix
 R3 copy-on-set: what a landmark manager / a landmarkable object stores is a fresh copy of the assigned value
 R4 guards of LandmarkManager.__setitem__ / __getitem__(None); insertion order is never re-arranged
 R5 owned private state is written only by its owning class family
"""
import ast
import re

from ..loader import AnalysisError, dotted, ClassInfo
from ..astutil import walk_own, calls_in, norm, Defs, leaves, stmt_of, kwarg, need, returns_of, expand
from .. import cfg as cfgmod
from ..effects import get_effects
from ..variants import Witness
from .common import self_attr_stores

PROP = "C06"
EXPLANATION = (
    "Copyable.copy must build a new instance and copy every attribute with .copy() (sharing only what has no copy()); for "
    "all Copyable classes every attribute defined as a container (dict/list/OrderedDict display, constructor or "
    "comprehension) must be re-copied element-wise by the class's resolved copy override; the known overrides "
    "(LandmarkManager, LabelledPointUndirectedGraph, LazyList, HomogFamilyAlignment) start from the generic copy or a "
    "duplicated __dict__ and store .copy() results / a fresh matrix; LandmarkManager.__setitem__ and the landmarks setter "
    "store value.copy(); the store in __setitem__ is dominated by the None-key, dimensionality and PointCloud-type "
    "refusals; __getitem__(None) resolves only for exactly one group; the group mapping is an ordered mapping that no "
    "method re-orders; _landmarks/_landmark_groups/_labels_to_masks/_callables/_h_matrix are written only inside their "
    "owning class family."
)
NOT_DECIDED = "equality of observable state after copy; arbitrary operation histories beyond the write-set argument"
TECHNIQUE = "attribute inventory per class + copy-override structure + CFG dominance of guards + who-may-write scan (static analysis)"

# attributes that are shared between an object and its copy by documented design (one reason each)
SHARED_BY_DESIGN = {
    ("Alignment", "_source"): "the point sets an alignment was fitted to are shared by documented design",
    ("Alignment", "_target"): "the point sets an alignment was fitted to are shared by documented design",
    ("TransformChain", "transforms"): "members of a chain are shared by documented design; the list itself is copied by list.copy()",
    ("CachedPWA", "_iab"): "memo that is only ever rebound, never mutated (C09.R3)",
}
OWNERS = {
    "_landmarks": ("Landmarkable",),
    "_landmark_groups": ("LandmarkManager",),
    "_labels_to_masks": ("LabelledPointUndirectedGraph",),
    "_callables": ("LazyList",),
    "_h_matrix": ("Homogeneous", "HomogFamilyAlignment"),
}
CONTAINER_CTORS = {"OrderedDict", "dict", "list", "defaultdict", "set", "deque", "collections.OrderedDict", "collections.defaultdict"}


def copyable_classes(p):
    return p.descendants(p.cls("Copyable"))


def _is_container_value(v):
    if isinstance(v, (ast.Dict, ast.List, ast.ListComp, ast.DictComp, ast.Set, ast.SetComp)):
        return True
    if isinstance(v, ast.Call) and (dotted(v.func) or "") in CONTAINER_CTORS:
        return True
    return False


def _override_deepens(f, attr):
    """does copy override `f` re-copy the elements of attribute `attr` of the new object?"""
    d_ = Defs(f.node)
    for n in walk_own(f.node):
        if isinstance(n, ast.For) and attr in norm(expand(n.iter, d_)) and not n.orelse and not any(isinstance(x, (ast.Break, ast.If, ast.Continue, ast.Return)) for x in walk_own(n)):
            for s in walk_own(n):
                if isinstance(s, ast.Assign) and isinstance(s.targets[0], ast.Subscript) and norm(expand(s.targets[0].value, d_)).endswith("." + attr):
                    if isinstance(s.value, ast.Call) and isinstance(s.value.func, ast.Attribute) and s.value.func.attr == "copy":
                        return True
        if isinstance(n, ast.Assign) and isinstance(n.targets[0], ast.Attribute) and n.targets[0].attr == attr and not (isinstance(n.targets[0].value, ast.Name) and n.targets[0].value.id == "self"):
            v = n.value
            if isinstance(v, (ast.ListComp, ast.DictComp)) and ".copy()" in norm(v):
                return True
            if isinstance(v, ast.Call) and (dotted(v.func) or "") in CONTAINER_CTORS and ".copy()" in norm(v):
                return True
            if isinstance(v, ast.Call) and (dotted(v.func) or "") in ("list", "dict") or (isinstance(v, ast.Subscript) and norm(v).endswith("[:]")):
                return "shallow"
        # new.attr.update({k: v.copy() for k, v in new.attr.items()})  -- every value replaced by its copy, keys and order kept
        if isinstance(n, ast.Expr) and isinstance(n.value, ast.Call) and isinstance(n.value.func, ast.Attribute) and n.value.func.attr == "update" \
                and norm(n.value.func.value).endswith("." + attr) and len(n.value.args) == 1 and isinstance(n.value.args[0], (ast.DictComp, ast.GeneratorExp, ast.ListComp)):
            comp = n.value.args[0]
            it = norm(comp.generators[0].iter)
            val = comp.value if isinstance(comp, ast.DictComp) else (comp.elt.elts[1] if isinstance(comp.elt, ast.Tuple) and len(comp.elt.elts) == 2 else None)
            if it.endswith("." + attr + ".items()") and isinstance(val, ast.Call) and isinstance(val.func, ast.Attribute) and val.func.attr == "copy" and not comp.generators[0].ifs:
                return True
    return False


def rule_r1(p, res):
    r = res.rule("C06.R1", "generic copy is attribute-wise; container-valued attributes are deepened by the resolved copy")
    gen = p.own_method("Copyable", "copy")
    r.instance(gen)
    s = norm(gen.node)
    d = Defs(gen.node)
    new = returns_of(gen.node)[0].value
    need(isinstance(new, ast.Name), "C06.R1: Copyable.copy must return a local")
    v = d.single(new.id)
    r.check(v is not None and norm(v) in ("self.__class__.__new__(self.__class__)", "type(self).__new__(type(self))"), gen, gen.node, "Copyable.copy must create a new instance of the same class")
    loop = [n for n in walk_own(gen.node) if isinstance(n, ast.For) and norm(n.iter) == "self.__dict__.items()"]
    ok = False
    if len(loop) == 1:
        tr = [n for n in walk_own(loop[0]) if isinstance(n, ast.Try)]
        if len(tr) == 1:
            body = [norm(x) for x in tr[0].body]
            hs = tr[0].handlers
            ok = body == ["%s.__dict__[k] = v.copy()" % new.id] and len(hs) == 1 and norm(hs[0].type) == "AttributeError" and [norm(x) for x in hs[0].body] == ["%s.__dict__[k] = v" % new.id]
    r.check(ok, gen, gen.node, "Copyable.copy must copy every attribute with .copy() and share only attributes that have no copy()", {"generic_copy": "attribute-wise"})
    if ok:
        # the copying try is reached for every attribute: it is a statement of the loop body itself, nothing leaves the iteration early,
        # and no attribute is installed in the new object anywhere else in the loop
        lp, t = loop[0], tr[0]
        inside = set(id(n) for n in ast.walk(t))
        early = [n for n in walk_own(lp) if isinstance(n, (ast.Continue, ast.Break, ast.Return)) and id(n) not in inside]
        other = [n for n in walk_own(lp) if id(n) not in inside and (
            (isinstance(n, ast.Subscript) and isinstance(n.ctx, ast.Store) and norm(n.value) == "%s.__dict__" % new.id)
            or (isinstance(n, ast.Call) and (dotted(n.func) or "") == "setattr" and n.args and norm(n.args[0]) == new.id)
            or (isinstance(n, ast.Call) and norm(n.func) == "%s.__dict__.update" % new.id))]
        bad = (early + other) or ([lp] if not any(x is t for x in lp.body) else [])
        r.check(not bad, gen, bad[0] if bad else gen.node, "Copyable.copy shares some attributes without trying .copy(): the attribute-wise copy is skipped (early `continue` / a store "
                "outside the try / a conditional try), so for those values the copy aliases the original's buffer")
    n_cls = 0
    for c in copyable_classes(p):
        n_cls += 1
        r.instance(c)
        cp = p.lookup(c, "copy")
        seen = set()
        for k in c.mro:
            for f in list(k.methods.values()):
                if not f.params:
                    continue
                for a, st, v in self_attr_stores(f.node, f.params[0]):
                    if (a, id(st)) in seen:
                        continue
                    seen.add((a, id(st)))
                    if not _is_container_value(v):
                        continue
                    if any((o.name, a) in SHARED_BY_DESIGN for o in c.mro):
                        r.ok({"class": c.name, "attr": a, "shared_by_design": True})
                        continue
                    # elements provably immutable? (container of ints / strings / None literals only)
                    if isinstance(v, (ast.List, ast.Dict)) and all(isinstance(e, ast.Constant) for e in (v.elts if isinstance(v, ast.List) else v.values)) and (v.elts if isinstance(v, ast.List) else v.values):
                        r.ok()
                        continue
                    deep = cp is not gen and _override_deepens(cp, a)
                    r.check(deep is True, f, st, "%s.%s is a container (`%s`) but %s.copy() (resolved to %s) does not re-copy its elements: the copy "
                            "and the original would share them" % (c.name, a, norm(v)[:40], c.name, cp.short), {"class": c.name, "attr": a, "deepened_by": cp.short if deep else None})
    if n_cls < 45:
        raise AnalysisError("C06.R1: only %d Copyable classes (floor 45)" % n_cls)


def rule_r2(p, res):
    r = res.rule("C06.R2", "copy overrides stay deep")
    gen = p.own_method("Copyable", "copy")
    known = {}
    for c in copyable_classes(p):
        f = c.methods.get("copy")
        if f is not None and f is not gen:
            known[c.name] = f
    for cname, f in sorted(known.items()):
        r.instance(f)
        s = norm(f.node)
        d = Defs(f.node)
        rets = returns_of(f.node)
        if len(rets) == 1 and isinstance(rets[0].value, ast.Call) and isinstance(rets[0].value.func, ast.Name) and rets[0].value.func.id in (cname, "type", "cls"):
            # copy written as a constructor call: every piece of the receiver's state handed over must itself be copied
            shared = [a_ for a_ in list(rets[0].value.args) + [kw.value for kw in rets[0].value.keywords] if isinstance(a_, ast.Attribute) and isinstance(a_.value, ast.Name) and a_.value.id == "self"]
            r.check(not shared, f, rets[0], "%s builds the copy by calling the constructor with the receiver's own `%s`: unless the constructor copies it (it is not asked to), copy and original share "
                    "that object and a change to either shows in both" % (f.short, norm(shared[0]) if shared else ""), {"override": f.short, "base": "constructor"})
            continue
        need(len(rets) == 1 and isinstance(rets[0].value, ast.Name), "C06.R2: %s must return a local" % f.short)
        new = rets[0].value.id
        v = d.single(new)
        base_generic = v is not None and norm(v) in ("Copyable.copy(self)", "super().copy()", "super(%s, self).copy()" % cname)
        base_new = v is not None and norm(v) in ("self.__class__.__new__(self.__class__)", "type(self).__new__(type(self))")
        if base_generic:
            r.ok({"override": f.short, "base": "generic copy"})
        elif base_new:
            dup = [n for n in walk_own(f.node) if isinstance(n, ast.Assign) and norm(n.targets[0]) == "%s.__dict__" % new]
            r.check(len(dup) == 1 and norm(dup[0].value) == "self.__dict__.copy()", f, f.node, "%s builds a bare instance: it must duplicate self.__dict__ (not alias it)" % f.short, {"override": f.short, "base": "__dict__ copy"})
        else:
            r.violation(f, f.node, "%s neither starts from the generic copy nor duplicates __dict__: attributes may be shared or lost" % f.short)
    # the element loops
    for cname, attr in (("LandmarkManager", "_landmark_groups"), ("LabelledPointUndirectedGraph", "_labels_to_masks")):
        f = known.get(cname)
        need(f is not None, "C06.R2: copy override of %s missing" % cname)
        for lp in [n for n in walk_own(f.node) if isinstance(n, ast.For)]:
            inner = [x for x in ast.walk(lp) if isinstance(x, (ast.Return, ast.Break))]
            r.check(not inner, f, inner[0] if inner else lp, "%s.copy leaves its element loop early (`%s` inside the loop): only the first element is copied, the others stay shared" % (cname, norm(inner[0])[:30] if inner else ""))
        r.check(_override_deepens(f, attr) is True, f, f.node, "%s.copy must re-copy every element of %s" % (cname, attr), {"override": f.short, "deepens": attr})
        # it must write into the *new* object
        for n in walk_own(f.node):
            if isinstance(n, ast.Assign) and isinstance(n.targets[0], ast.Subscript) and norm(n.targets[0].value).endswith("." + attr):
                r.check(not norm(n.targets[0].value).startswith("self."), f, n, "%s.copy writes the copied elements back into self" % cname)
    h = known.get("HomogFamilyAlignment")
    need(h is not None, "C06.R2: HomogFamilyAlignment.copy missing")
    st = [n for n in walk_own(h.node) if isinstance(n, ast.Assign) and isinstance(n.targets[0], ast.Attribute) and n.targets[0].attr == "_h_matrix"]
    r.check(len(st) == 1 and norm(st[0].value).endswith("._h_matrix.copy()") and not norm(st[0].targets[0]).startswith("self."), h, h.node,
            "the copy of a homogeneous alignment must own a fresh matrix (its re-fit writes the matrix in place)")
    # effects: no copy() writes its receiver
    eff = get_effects(p)
    for cname, f in sorted(known.items()):
        s = eff.summary(f, p.cls(cname))
        bad = s.on(f.params[0])
        r.check(not bad, f, bad[0].node if bad else f.node, "%s modifies the object being copied: %s" % (f.short, bad[0].describe() if bad else ""))
    r.floor(4, "copy overrides")


def rule_r3(p, res):
    r = res.rule("C06.R3", "copy-on-set: stored landmarks are fresh copies of the assigned value")
    si = p.own_method("LandmarkManager", "__setitem__")
    r.instance(si)
    d = Defs(si.node)
    val = si.params[2]
    st = [n for n in walk_own(si.node) if isinstance(n, ast.Assign) and isinstance(n.targets[0], ast.Subscript) and norm(n.targets[0].value) == "self._landmark_groups"]
    need(len(st) == 1, "C06.R3: the store into _landmark_groups was not found")
    v = st[0].value
    src = v
    if isinstance(v, ast.Name):
        src = d.single(v.id)
    ok = src is not None and isinstance(src, ast.Call) and norm(src) == "%s.copy()" % val
    r.check(ok, si, st[0], "LandmarkManager.__setitem__ stores `%s`: the manager must own a copy, otherwise later edits of the assigned shape reach the stored "
            "landmarks" % (norm(src) if src is not None else norm(v)), {"stored": norm(src) if src is not None else norm(v)})
    r.check(norm(st[0].targets[0].slice) == si.params[1], si, st[0], "the group must be stored under the given key")
    ls = p.cls("Landmarkable").setters.get("landmarks")
    need(ls is not None, "C06.R3: landmarks setter missing")
    r.instance(ls)
    stores = self_attr_stores(ls.node)
    ok = len(stores) == 1 and stores[0][0] == "_landmarks" and norm(stores[0][2]) == "%s.copy()" % ls.params[1]
    r.check(ok, ls, stores[0][1] if stores else ls.node, "assigning a landmark manager to an object must store a copy (found `%s`)" % (norm(stores[0][2]) if stores else None),
            {"stored": norm(stores[0][2]) if stores else None})
    g = cfgmod.build(ls.node)
    raises = [n for n in walk_own(ls.node) if isinstance(n, ast.Raise)]
    okd = any(any(pol and "!= self.n_dims" in norm(t) for t, pol in g.guards(n)) for n in raises) and bool(stores) and all(g.must_pass([stmt_of(n.exc) if False else n for n in []] + [x for x in walk_own(ls.node) if isinstance(x, ast.If)], stores[0][1]) for _ in [0])
    r.check(okd, ls, ls.node, "landmarks of another dimensionality must be refused before being stored")
    gt = p.own_method("Landmarkable", "landmarks")
    r.instance(gt)
    r.check(norm(returns_of(gt.node)[0].value) == "self._landmarks", gt, gt.node, "the landmarks getter returns the owned manager")
    ggt = cfgmod.build(gt.node)
    for a_, st_, v_ in self_attr_stores(gt.node):
        if a_ == "_landmarks":
            gs_ = [(str(norm(t_)), pol) for t_, pol in ggt.guards(st_)]
            r.check(gs_ in ([("self._landmarks is None", True)], [("self._landmarks is not None", False)]), gt, st_, "the landmarks getter replaces the manager under %s: a manager may only be created "
                    "when there is none (`is None`); a truthiness test also replaces an *empty* manager, orphaning every handle taken earlier" % gs_, {"lazy_guard": gs_})


def rule_r6(p, res):
    r = res.rule("C06.R6", "array-valued property setters copy the assigned value into storage the object owns (no aliasing of the caller's array)")
    n = 0
    for c in p.classes.values():
        for name, f in sorted(c.setters.items()):
            if len(f.params) < 2:
                continue
            val = f.params[1]
            # array / shape evidence: the setter inspects the value's shape
            ev = [x for x in ast.walk(f.node) if isinstance(x, ast.Attribute) and isinstance(x.value, ast.Name) and x.value.id == val and x.attr in ("shape", "dtype", "ndim")]
            if not ev:
                continue
            n += 1
            r.instance(f)
            d = Defs(f.node)
            owned = False
            for st in walk_own(f.node):
                if isinstance(st, ast.Assign) and isinstance(st.targets[0], ast.Attribute) and norm(st.targets[0].value) == "self" and ("param:" + val) in leaves(st.value, d):
                    v = expand(st.value, d)
                    fresh = isinstance(v, ast.Call) and ((isinstance(v.func, ast.Attribute) and v.func.attr in ("copy", "astype")) or (dotted(v.func) or "") in ("np.array", "np.copy", "numpy.array", "numpy.copy"))
                    r.check(fresh, f, st, "the %s setter of %s stores the caller's array itself (`%s`): two objects assigned the same array (or a copy assigned its original's array) then share "
                            "their data, and an in-place edit of one shows in the other" % (name, c.name, norm(st)[:60]), {"setter": f.short, "stored": norm(st.value)[:50]})
                    owned = owned or fresh
                elif isinstance(st, ast.Expr) and isinstance(st.value, ast.Call) and (dotted(st.value.func) or "") in ("np.copyto", "numpy.copyto"):
                    a_ = st.value.args
                    ok = len(a_) >= 2 and norm(a_[0]).startswith("self.") and ("param:" + val) in leaves(a_[1], d)
                    r.check(ok, f, st, "np.copyto in the %s setter must copy the assigned value into the object's own array" % name, {"setter": f.short, "copied_into": norm(a_[0]) if a_ else None})
                    owned = owned or ok
            if not owned and not any(fd.rule == "C06.R6" and fd.construct == f.qualname for fd in res.findings):
                raise AnalysisError("C06.R6: cannot see how the %s setter of %s stores its value" % (name, c.name))
    if n < 2:
        raise AnalysisError("C06.R6: only %d array-valued setters found (floor 2)" % n)


def _conjuncts(t):
    if isinstance(t, ast.BoolOp) and isinstance(t.op, ast.And):
        return sorted(str(norm(v)) for v in t.values)
    return [str(norm(t))]


def rule_r4(p, res):
    r = res.rule("C06.R4", "__setitem__ guards dominate the store; None key only for a single group; order never re-arranged")
    si = p.own_method("LandmarkManager", "__setitem__")
    r.instance(si)
    g = cfgmod.build(si.node)
    grp, val = si.params[1], si.params[2]
    st = [n for n in walk_own(si.node) if isinstance(n, ast.Assign) and isinstance(n.targets[0], ast.Subscript) and norm(n.targets[0].value) == "self._landmark_groups"]
    need(len(st) == 1, "C06.R4: store not found")
    from ..astutil import raising_ifs
    want = {
        "None key": lambda t, pol: pol and norm(t) == "%s is None" % grp,
        "dimensionality": lambda t, pol: pol and _conjuncts(t) in (["n_dims is not None", "%s.n_dims != n_dims" % val], ["self.n_dims is not None", "%s.n_dims != self.n_dims" % val]),
        "PointCloud type": lambda t, pol: (not pol) and norm(t) == "isinstance(%s, PointCloud)" % val,
    }
    rifs = raising_ifs(si.node)
    nd = Defs(si.node).single("n_dims")
    r.check(nd is None or norm(nd) == "self.n_dims", si, si.node, "the dimensionality a new group is checked against must be the manager's own (found `%s`): a group could be stored next to groups "
            "of another dimensionality" % (norm(nd) if nd is not None else None), {"n_dims_source": norm(nd) if nd is not None else None})
    for what, pred in want.items():
        ifs = [n for t, pol, n in rifs if pred(t, pol)]
        raise_stmts = []
        for n in ifs:
            raise_stmts += [x for x in (n.body + n.orelse) if isinstance(x, ast.Raise)]
        ok = len(ifs) == 1 and g.dominates(ifs[0], st[0]) and not any(g.reaches(x, st[0]) for x in raise_stmts)
        r.check(ok, si, st[0], "the %s refusal does not dominate the store into the manager: an invalid group could be stored" % what, {"guard": what})
    gi = p.own_method("LandmarkManager", "__getitem__")
    r.instance(gi)
    gg = cfgmod.build(gi.node)
    grp = gi.params[1]
    # wherever the sole group's label is looked up, the key is None and there is exactly one group (spelling of the tests is free)
    def _pos(t, pol):
        s_ = str(norm(t))
        for neg, posop in ((" is not ", " is "), (" != ", " == ")):
            if neg in s_:
                return s_.replace(neg, posop), not pol
        return s_, pol
    uses = [stmt_of(n) for n in ast.walk(gi.node) if isinstance(n, ast.Subscript) and norm(n) == "self.group_labels[0]"]
    need(uses, "C06.R4: the resolution of the None key (self.group_labels[0]) was not found in __getitem__")
    okn = all({_pos(t, pol) for t, pol in gg.guards(u)} == {("%s is None" % grp, True), ("self.n_groups == 1", True)} for u in uses)
    r.check(okn, gi, uses[0], "the None key may resolve to a group only when exactly one group exists (guards found: %s)" % [sorted(_pos(t, pol) for t, pol in gg.guards(u)) for u in uses])
    rs = [n for n in walk_own(gi.node) if isinstance(n, ast.Raise)]
    r.check(any({_pos(t, pol) for t, pol in gg.guards(n)} == {("%s is None" % grp, True), ("self.n_groups == 1", False)} for n in rs), gi, gi.node, "the None key must be refused for zero or several groups")
    r.check(norm(returns_of(gi.node)[0].value) == "self._landmark_groups[%s]" % grp, gi, gi.node, "lookup must read the stored group")
    dflt = gi.defaults().get(grp)
    r.check(isinstance(dflt, ast.Constant) and dflt.value is None, gi, gi.node, "the group key defaults to None")
    # ordered mapping, never re-ordered
    ini = p.own_method("LandmarkManager", "__init__")
    r.instance(ini)
    stores = [x for x in self_attr_stores(ini.node) if x[0] == "_landmark_groups"]
    r.check(len(stores) == 1 and norm(stores[0][2]) == "OrderedDict()", ini, ini.node, "groups must be kept in an ordered mapping")
    lm = p.cls("LandmarkManager")
    for name, f in lm.methods.items():
        for c in calls_in(f.node):
            if isinstance(c.func, ast.Attribute) and c.func.attr in ("move_to_end", "sort", "reverse", "popitem", "clear") and "_landmark_groups" in norm(c.func.value):
                r.violation(f, c, "%s re-arranges the group mapping (%s): insertion order is part of the contract" % (f.short, c.func.attr))
        for a, st_, v in self_attr_stores(f.node):
            if a == "_landmark_groups" and name not in ("__init__",):
                r.violation(f, st_, "%s replaces the group mapping" % f.short)
    it = p.own_method("LandmarkManager", "__iter__")
    r.check(norm(returns_of(it.node)[0].value) == "iter(self._landmark_groups)", it, it.node, "iteration must follow the ordered mapping")
    gl = p.own_method("LandmarkManager", "group_labels")
    r.check(norm(returns_of(gl.node)[0].value) == "list(self._landmark_groups.keys())", gl, gl.node, "group_labels must list the keys in insertion order")
    dl = p.own_method("LandmarkManager", "__delitem__")
    r.check([norm(x) for x in dl.node.body if not (isinstance(x, ast.Expr) and isinstance(x.value, ast.Constant))] == ["del self._landmark_groups[%s]" % dl.params[1]], dl, dl.node, "deleting a group removes exactly that key")
    nd = p.own_method("LandmarkManager", "n_dims")
    s = norm(nd.node)
    # some return yields the n_dims of a stored group (loop variable over the values, or next(iter(values))), another None / nothing
    rets_nd = returns_of(nd.node)
    dnd = Defs(nd.node)
    from_group = False
    for rt in rets_nd:
        v = rt.value
        if isinstance(v, ast.Attribute) and v.attr == "n_dims":
            base = v.value
            if isinstance(base, ast.Name):
                lp = [n_ for n_ in walk_own(nd.node) if isinstance(n_, ast.For) and norm(n_.target) == base.id and norm(n_.iter) in ("self._landmark_groups.values()", "self.values()")]
                bd = dnd.single(base.id)
                from_group = from_group or bool(lp) or (bd is not None and "self._landmark_groups" in norm(bd))
            else:
                from_group = from_group or "self._landmark_groups" in norm(base)
    none_path = any(rt.value is None or (isinstance(rt.value, ast.Constant) and rt.value.value is None) for rt in rets_nd) or not isinstance(nd.node.body[-1], ast.Return)
    r.check(from_group and none_path, nd, nd.node, "the manager's dimensionality is that of its groups (None when empty)")


def rule_r5(p, res):
    r = res.rule("C06.R5", "owned private state is written only by its owning class family")
    n_writes = 0
    for f in p.all_functions():
        for x in walk_own(f.node, include_nested=True):
            tgts = []
            if isinstance(x, (ast.Assign, ast.AugAssign, ast.Delete)):
                ts = x.targets if isinstance(x, (ast.Assign, ast.Delete)) else [x.target]
                for t in ts:
                    for y in ast.walk(t):
                        if isinstance(y, ast.Attribute) and y.attr in OWNERS:
                            # attribute rebinding, or item store through it
                            par = getattr(y, "_parent", None)
                            if isinstance(y.ctx, (ast.Store, ast.Del)) or (isinstance(par, ast.Subscript) and isinstance(par.ctx, (ast.Store, ast.Del))):
                                tgts.append(y)
            elif isinstance(x, ast.Call) and isinstance(x.func, ast.Attribute) and isinstance(x.func.value, ast.Attribute) and x.func.value.attr in OWNERS \
                    and x.func.attr in ("append", "extend", "insert", "pop", "remove", "sort", "reverse", "clear", "update", "setdefault", "popitem", "fill", "move_to_end"):
                tgts.append(x.func.value)
            elif isinstance(x, ast.Call) and (dotted(x.func) or "") in ("np.fill_diagonal", "np.copyto") and x.args:
                for y in ast.walk(x.args[0]):
                    if isinstance(y, ast.Attribute) and y.attr in OWNERS:
                        tgts.append(y)
            for y in tgts:
                n_writes += 1
                owners = [p.cls(o) for o in OWNERS[y.attr]]
                ok = f.cls is not None and any(o in f.cls.mro for o in owners)
                r.check(ok, f, x, "%s writes `%s` although it is not part of %s: the owning class can no longer guarantee what it stores" % (f.qualname, norm(y), "/".join(OWNERS[y.attr])),
                        {"writer": f.short, "attr": y.attr})
    r.instance("package-wide scan: %d writes of owned attributes" % n_writes)
    if n_writes < 12:
        raise AnalysisError("C06.R5: only %d writes of owned attributes found (floor 12)" % n_writes)


def rule_r7(p, res):
    r = res.rule("C06.R7", "a `copy` option is honoured whatever the other flags say: the statement that copies the argument is guarded by `copy` alone")
    n = 0
    for f in p.all_functions():
        if "copy" not in f.params:
            continue
        dflt = f.defaults()
        flags = {q for q in f.params if q != "copy" and isinstance(dflt.get(q), ast.Constant) and isinstance(dflt[q].value, bool)}
        if not flags:
            continue
        g = None
        for st in walk_own(f.node):
            if isinstance(st, ast.Assign) and isinstance(st.targets[0], ast.Name) and st.targets[0].id in f.params and isinstance(st.value, ast.Call) \
                    and ((isinstance(st.value.func, ast.Attribute) and st.value.func.attr == "copy" and norm(st.value.func.value) == st.targets[0].id)
                         or ((dotted(st.value.func) or "") in ("np.array", "numpy.array") and st.value.args and norm(st.value.args[0]) == st.targets[0].id)):
                g = g or cfgmod.build(f.node)
                gs = [(str(norm(t_)), pol) for t_, pol in g.guards(st)]
                if not any(t_ == "copy" for t_, pol in gs):
                    continue
                n += 1
                r.instance(f)
                others = [(t_, pol) for t_, pol in gs if t_ != "copy" and any(re.search(r"\b%s\b" % q, t_) for q in flags)]
                r.check(not others, f, st, "%s copies `%s` only under %s: with that flag set the other way the `copy` option is silently ignored and the object keeps the caller's array"
                        % (f.short, st.targets[0].id, others), {"function": f.short, "guards": gs})
    if n < 2:
        raise AnalysisError("C06.R7: only %d guarded copies of arguments found (floor 2)" % n)
    # a rebuilt object that is handed part of the receiver's own state (self.mask, self.trilist ...) must let the constructor copy it
    m = 0
    for c in p.classes.values():
        f = c.methods.get("from_vector")
        if f is None:
            continue
        for k in calls_in(f.node):
            tgt = p.resolve_expr(f.module, k.func) if isinstance(k.func, (ast.Name, ast.Attribute)) else None
            if not isinstance(tgt, ClassInfo):
                continue
            shared = [a_ for a_ in list(k.args) + [kw.value for kw in k.keywords if kw.arg != "copy"] if isinstance(a_, ast.Attribute) and isinstance(a_.value, ast.Name) and a_.value.id == f.params[0]]
            if not shared:
                continue
            m += 1
            r.instance(f)
            cp = kwarg(k, "copy")
            r.check(cp is None or (isinstance(cp, ast.Constant) and cp.value is True), f, k, "%s rebuilds the object with `%s` while handing it `%s` of the receiver: with copying switched off the new object "
                    "shares that state with the one from_vector was called on" % (f.short, norm(k)[:60], norm(shared[0])), {"rebuild": f.short, "shared": norm(shared[0])})
    if m < 2:
        raise AnalysisError("C06.R7: only %d rebuilding from_vector methods that pass receiver state found (floor 2)" % m)


def rule_r8(p, res):
    r = res.rule("C06.R8", "a method that works on self.copy() takes what it stores in the copy from the copy (or from fresh arrays), not from views of the receiver")
    for cname, mname in (("Image", "as_greyscale"),):
        f = p.own_method(cname, mname)
        r.instance(f)
        d = Defs(f.node)
        cp = [nm for nm, ds in d.defs.items() if any(kd == "assign" and isinstance(v, ast.Call) and norm(v) == "self.copy()" for kd, v, st in ds)]
        need(len(cp) == 1, "C06.R8: %s.%s no longer starts from self.copy()" % (cname, mname))
        new = cp[0]
        stores = [n for n in walk_own(f.node) if isinstance(n, ast.Assign) and any(isinstance(t, ast.Attribute) and isinstance(t.value, ast.Name) and t.value.id == new for t in n.targets)]
        need(stores, "C06.R8: %s.%s stores nothing in its copy" % (cname, mname))
        for st in stores:
            lv = leaves(st.value, d)
            views = sorted(x for x in lv if x.startswith("self.") and not x.startswith("self.copy"))
            # a leaf `self.pixels` is harmless only below an operation that allocates (dot, mean, arithmetic); plain indexing and
            # astype(copy=False) do not
            bad = []
            for nm in [x.id for x in ast.walk(st.value) if isinstance(x, ast.Name)]:
                for kd, v, s_ in d.of(nm):
                    if kd == "assign" and isinstance(v, ast.Subscript) and norm(v.value).startswith("self.") :
                        bad.append(norm(v))
            r.check(not bad, f, st, "%s.%s stores `%s` (a view of the receiver's own array) in the copy it returns: the two images then share pixel storage" % (cname, mname, bad[0] if bad else ""))


# rules of sibling properties over code paths this property's statement also quantifies over (DESIGN.md section 3, shared rules)
ALSO = ['C15.R3']

RULES = [rule_r1, rule_r2, rule_r3, rule_r4, rule_r5, rule_r6, rule_r7, rule_r8]

WITNESSES = [
    Witness("C06.W1", "menpo/landmark/base.py", "LandmarkManager.copy", "for k, v in new._landmark_groups.items():\n        new._landmark_groups[k] = v.copy()", "pass",
            rule="C06.R2", construct="LandmarkManager.copy"),
    Witness("C06.W2", "menpo/landmark/base.py", "LandmarkManager.__setitem__", "lmark_group = value.copy()", "lmark_group = value", rule="C06.R3", construct="LandmarkManager.__setitem__"),
    Witness("C06.W3", "menpo/landmark/base.py", "Landmarkable.landmarks", "self._landmarks = value.copy()", "self._landmarks = value", rule="C06.R3", construct="landmarks", count=1),
    Witness("C06.W4", "menpo/landmark/base.py", "LandmarkManager.__setitem__",
            "if n_dims is not None and value.n_dims != n_dims:\n        raise ValueError(", "if n_dims is not None and value.n_dims != n_dims:\n        ValueError(", rule="C06.R4", construct="__setitem__"),
    Witness("C06.W5", "menpo/shape/pointcloud.py", "PointCloud.__init__", "self.points = points", "self.points = points\n    self._cache = {}", rule="C06.R1", construct="PointCloud.__init__"),
    Witness("C06.W6", "menpo/base.py", "copy_landmarks_and_path", "target.landmarks = source.landmarks", "target._landmarks = source._landmarks", rule="C06.R5", construct="copy_landmarks_and_path"),
    Witness("C06.W7", "menpo/transform/homogeneous/base.py", "HomogFamilyAlignment.copy", "new._h_matrix = new._h_matrix.copy()", "pass", rule="C06.R2", construct="HomogFamilyAlignment.copy"),
    Witness("C06.W8", "menpo/base.py", "Copyable.copy", "new.__dict__[k] = v.copy()", "new.__dict__[k] = v", rule="C06.R1", construct="Copyable.copy"),
    Witness("C06.W9", "menpo/landmark/base.py", "LandmarkManager.__getitem__", "if self.n_groups == 1:", "if self.n_groups >= 1:", rule="C06.R4", construct="__getitem__"),
    Witness("C06.W10", "menpo/shape/labelled.py", "LabelledPointUndirectedGraph.copy", "        new._labels_to_masks[k] = v.copy()\n    return new", "        new._labels_to_masks[k] = v.copy()\n        return new",
            rule="C06.R2", construct="LabelledPointUndirectedGraph.copy", note="seeded change R2-C06-B"),
    Witness("C06.W11", "menpo/landmark/base.py", "LandmarkManager.__setitem__", "n_dims = self.n_dims", "n_dims = self.n_dims if group not in self._landmark_groups else None",
            rule="C06.R4", construct="__setitem__", note="seeded change R2-C06-A"),
    Witness("C06.T1", "menpo/landmark/base.py", "LandmarkManager.__setitem__", "lmark_group = value.copy()\n    self._landmark_groups[group] = lmark_group", "self._landmark_groups[group] = value.copy()", kind="T"),
]

WITNESSES += [
    Witness("C06.W12", "menpo/model/linear.py", "LinearVectorModel.components", "np.copyto(self._components, value, casting='safe')", "self._components = value",
            rule="C06.R6", construct="LinearVectorModel.components", note="seeded change R3-C06-C"),
    Witness("C06.T2", "menpo/model/linear.py", "LinearVectorModel.components", "np.copyto(self._components, value, casting='safe')", "self._components = value.copy()", kind="T", note="not identical behaviour (rebinds) but still an owned copy: the rule must accept it"),
]

WITNESSES += [
    Witness("C06.W13", "menpo/landmark/base.py", "", "        if self._landmarks is None:\n            self._landmarks = LandmarkManager()", "        if not self._landmarks:\n            self._landmarks = LandmarkManager()",
            rule="C06.R3", construct="Landmarkable.landmarks", note="seeded change R4-C06-C"),
    Witness("C06.W14", "menpo/transform/homogeneous/affine.py", "Affine._set_h_matrix", "    if copy:\n        value = value.copy()", "        if copy:\n            value = value.copy()",
            rule="C06.R7", construct="Affine._set_h_matrix", note="seeded change R4-C06-A"),
]

WITNESSES += [
    Witness("C06.W15", "menpo/image/masked.py", "MaskedImage.from_vector", "MaskedImage(image_data, mask=self.mask)", "MaskedImage(image_data, mask=self.mask, copy=False)",
            rule="C06.R7", construct="MaskedImage.from_vector", note="seeded change R4-C06-B"),
]

EXTRA_SCOPE = ["menpo.shape.graph.PointTree.__init__", "menpo.shape.graph.PointDirectedGraph.__init__", "menpo.shape.graph.PointUndirectedGraph.__init__", "menpo.shape.graph.Tree.__init__",
               "menpo.shape.graph.Graph.__init__"]

WITNESSES += [
    Witness("C06.W16", "menpo/image/base.py", "Image.as_greyscale", "pixels = greyscale.pixels[channel]", "pixels = self.pixels[channel]", rule="C06.R8", construct="as_greyscale", note="seeded change R5-C06-C"),
    Witness("C06.W17", "menpo/shape/graph.py", "PointTree.__init__", "root_vertex, copy=copy, skip_checks=skip_checks)", "root_vertex, copy=False, skip_checks=skip_checks)", rule="C06.G7", construct="PointTree.__init__",
            note="seeded change R5-C06-B (generic: copy=False where the caller's flag was forwarded)"),
]

WITNESSES += [
    Witness("C06.W_R1b", "menpo/base.py", "Copyable.copy", "    try:\n            new.__dict__[k] = v.copy()",
            "    if not getattr(getattr(v, 'flags', None), 'writeable', True):\n            new.__dict__[k] = v\n            continue\n        try:\n            new.__dict__[k] = v.copy()",
            rule="C06.R1", construct="Copyable.copy", note="seeded change R6-C06-A (read-only arrays shared instead of copied)"),
]
