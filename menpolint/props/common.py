"""Helpers shared by the property modules."""
import ast
import builtins

from ..loader import ClassInfo, dotted, AnalysisError
from ..astutil import walk_own

_BUILTIN_EXC = {n for n in dir(builtins) if isinstance(getattr(builtins, n), type) and issubclass(getattr(builtins, n), BaseException)}


def exception_classes(p):
    """menpo classes deriving (transitively) from a builtin exception."""
    out = set()
    for c in p.classes.values():
        for k in c.mro:
            if any(isinstance(b, tuple) and b[1].split(".")[-1] in _BUILTIN_EXC for b in k.bases):
                out.add(c)
                break
    return out


def is_exception_ctor(p, finfo, call, exc=None):
    exc = exc if exc is not None else exception_classes(p)
    d = dotted(call.func)
    if d is None:
        return False
    if d in _BUILTIN_EXC and d not in finfo.module.classes and d not in finfo.module.functions:
        return True
    r = p.resolve_expr(finfo.module, call.func)
    return isinstance(r, ClassInfo) and r in exc


def vectorizable_classes(p):
    v = p.cls("Vectorizable")
    return [c for c in p.descendants(v)]


def concrete_defs(p, name, root="Vectorizable"):
    """own definitions of method `name` in subclasses of root (excluding root's abstract one)"""
    out = []
    rootc = p.cls(root)
    for c in p.descendants(rootc, include_self=False):
        f = c.methods.get(name)
        if f is not None and f not in out:
            out.append(f)
    return out


def transform_classes(p):
    return p.descendants(p.cls("Transform"))


def raises_in(fn_node):
    return [n for n in walk_own(fn_node) if isinstance(n, ast.Raise)]


def only_raises(fn_node):
    """body (minus docstring) consists of a single raise NotImplementedError"""
    body = [s for s in fn_node.body if not (isinstance(s, ast.Expr) and isinstance(s.value, ast.Constant))]
    return len(body) == 1 and isinstance(body[0], ast.Raise)


def self_attr_stores(fn_node, selfname="self"):
    """(attr, stmt, value) for every `self.attr = value` / augmented store in fn"""
    out = []
    for n in walk_own(fn_node):
        if isinstance(n, ast.Assign):
            for t in n.targets:
                ts = t.elts if isinstance(t, (ast.Tuple, ast.List)) else [t]
                for i, x in enumerate(ts):
                    if isinstance(x, ast.Attribute) and isinstance(x.value, ast.Name) and x.value.id == selfname:
                        v = n.value
                        if isinstance(t, (ast.Tuple, ast.List)) and isinstance(v, (ast.Tuple, ast.List)) and len(v.elts) == len(ts):
                            v = v.elts[i]
                        out.append((x.attr, n, v))
        elif isinstance(n, ast.AugAssign):
            x = n.target
            if isinstance(x, ast.Attribute) and isinstance(x.value, ast.Name) and x.value.id == selfname:
                out.append((x.attr, n, n.value))
    return out
