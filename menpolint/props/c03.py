"""C03 -- composition obeys its law, is closed and type-sound, leaves operands intact.

 R1 all ordered pairs of homogeneous-family classes through the isinstance ladder of _compose_before/_compose_after:
    result is never an alignment, its class is honest for the product, the operand mutated in place is fresh
 R2 in-place gates (composes_inplace_with) only admit partners that keep the receiver's family; composes_with routes
    every homogeneous pair to the native ladder
 R3 one operand-order convention at the five sites (matrix products, chain list, chain apply)
 R4 compose_before/compose_after have empty mutation summaries on both operands
 R5 Affine.decompose lists rotation(Vt), scale(S), rotation(U), translation in application order
"""
import ast

from ..loader import AnalysisError, dotted, ClassInfo
from ..astutil import walk_own, calls_in, norm, Defs, leaves, stmt_of, kwarg, need, returns_of, expand
from ..calls import CallCtx
from ..effects import get_effects
from ..variants import Witness
from .common import only_raises

PROP = "C03"
EXPLANATION = (
    "The isinstance ladder of Homogeneous._compose_before/_compose_after is evaluated abstractly for every ordered pair of "
    "the homogeneous-family classes (every test is decidable from the MRO): the result class is never an alignment, is "
    "large enough for the mathematical product of the two families (closure table), and the object composed in place is "
    "a fresh copy / as_non_alignment() / new constructor; every class's composes_inplace_with gate is evaluated and each "
    "admitted partner must keep the receiver inside its own family; matrix-product operand order, chain list order and "
    "chain application order follow one convention derived from _apply; compose_before/after have empty mutation "
    "summaries on self and on the argument; Affine.decompose returns its SVD factors in application order."
)
NOT_DECIDED = "numerical values of composites; that the SVD factors are proper rotations"
TECHNIQUE = "finite abstract interpretation of the isinstance ladder over all class pairs + closure table (static analysis)"

KINDS = ("Rotation", "Translation", "UniformScale", "NonUniformScale", "Similarity", "Affine", "Homogeneous")
BELOW = {
    "Rotation": set(), "Translation": set(), "UniformScale": set(),
    "NonUniformScale": {"UniformScale"},
    "Similarity": {"Rotation", "Translation", "UniformScale"},
    "Affine": {"Rotation", "Translation", "UniformScale", "NonUniformScale", "Similarity"},
    "Homogeneous": {"Rotation", "Translation", "UniformScale", "NonUniformScale", "Similarity", "Affine"},
}


def contains(big, small):
    return big == small or small in BELOW[big]


def product_kind(a, b):
    """smallest family closed under the product of a member of a and a member of b"""
    if a == b and a in ("Rotation", "Translation", "UniformScale", "NonUniformScale", "Similarity", "Affine", "Homogeneous"):
        return a
    for k in ("NonUniformScale", "Similarity", "Affine", "Homogeneous"):
        if contains(k, a) and contains(k, b):
            return k
    return "Homogeneous"


def family_classes(p):
    return p.descendants(p.cls("Homogeneous"))


def kind_of(p, c):
    for k in c.mro:
        if k.name in KINDS:
            return k.name
    raise AnalysisError("C03: class %s is outside the closure table of the homogeneous family" % c.name)


def is_alignment(p, c):
    return p.cls("HomogFamilyAlignment") in c.mro


# -------------------------------------------------------------- ladder
class AVal:
    """abstract object: class, freshness, alignment flag"""

    def __init__(self, cls, fresh, how):
        self.cls = cls
        self.fresh = fresh
        self.how = how


class Ladder:
    def __init__(self, p, r):
        self.p = p
        self.r = r
        self.depth = 0

    def resolve_cls(self, f, node):
        x = self.p.resolve_expr(f.module, node)
        return x if isinstance(x, ClassInfo) else None

    def test(self, f, e, env):
        """decide an isinstance / boolean test; returns True/False or raises"""
        if isinstance(e, ast.BoolOp):
            vals = [self.test(f, v, env) for v in e.values]
            return all(vals) if isinstance(e.op, ast.And) else any(vals)
        if isinstance(e, ast.UnaryOp) and isinstance(e.op, ast.Not):
            return not self.test(f, e.operand, env)
        if isinstance(e, ast.Call) and isinstance(e.func, ast.Name) and e.func.id == "isinstance" and len(e.args) == 2:
            obj, k = e.args
            if not (isinstance(obj, ast.Name) and obj.id in env):
                raise AnalysisError("C03.R1: isinstance on unknown object `%s`" % norm(obj))
            oc = env[obj.id].cls
            kc = self.klass(f, k, env)
            return any(x in oc.mro for x in kc)
        raise AnalysisError("C03.R1: undecidable ladder test `%s`" % norm(e)[:60])

    def klass(self, f, k, env):
        if isinstance(k, ast.Tuple):
            out = []
            for x in k.elts:
                out += self.klass(f, x, env)
            return out
        if isinstance(k, ast.Call) and isinstance(k.func, ast.Name) and k.func.id == "type" and len(k.args) == 1 and isinstance(k.args[0], ast.Name) and k.args[0].id in env:
            return [env[k.args[0].id].cls]
        if isinstance(k, ast.Attribute) and k.attr == "__class__" and isinstance(k.value, ast.Name) and k.value.id in env:
            return [env[k.value.id].cls]
        c = self.resolve_cls(f, k)
        if c is None:
            raise AnalysisError("C03.R1: cannot resolve class `%s` in a ladder test" % norm(k))
        return [c]

    def value(self, f, e, env):
        p = self.p
        if isinstance(e, ast.Name) and e.id in env:
            return env[e.id]
        if isinstance(e, ast.Call):
            fn = e.func
            if isinstance(fn, ast.Attribute) and isinstance(fn.value, ast.Name) and fn.value.id in env:
                recv = env[fn.value.id]
                if fn.attr == "copy" and not e.args:
                    return AVal(recv.cls, True, "%s.copy()" % fn.value.id)
                if fn.attr == "as_non_alignment":
                    m = p.lookup(recv.cls, "as_non_alignment")
                    if m is None or only_raises(m.node):
                        raise AnalysisError("C03.R1: %s has no concrete as_non_alignment" % recv.cls.name)
                    sub = CallCtx(p, m, recv.cls)
                    rets = returns_of(m.node)
                    need(len(rets) == 1 and isinstance(rets[0].value, ast.Call), "C03.R1: as_non_alignment of %s is not a constructor call" % recv.cls.name)
                    k = sub.class_constructed(rets[0].value)
                    need(k is not None, "C03.R1: cannot resolve the class built by %s.as_non_alignment" % recv.cls.name)
                    fresh = self.ctor_fresh(rets[0].value, m, k)
                    return AVal(k, fresh, "%s.as_non_alignment()" % fn.value.id)
                if fn.attr in ("_compose_before", "_compose_after") and len(e.args) == 1 and isinstance(e.args[0], ast.Name) and e.args[0].id in env:
                    other = env[e.args[0].id]
                    sub = self.run(recv.cls, other.cls, fn.attr)
                    # delegating with the roles swapped must also swap the direction
                    if fn.attr == f.name and env[fn.value.id].how == "t" and other.how == "self":
                        sub.order_errors = getattr(sub, "order_errors", []) + [(e, "%s delegates to t.%s(self): with the operands exchanged the direction must be exchanged too" % (f.short, fn.attr))]
                    return sub
            k = self.resolve_cls(f, fn) if isinstance(fn, (ast.Name, ast.Attribute)) else None
            if k is not None:
                return AVal(k, self.ctor_fresh(e, f, k), norm(e)[:40])
            if isinstance(fn, ast.Attribute) and fn.attr == "__class__" or (isinstance(fn, ast.Call) and isinstance(fn.func, ast.Name) and fn.func.id == "type"):
                inner = fn.value if isinstance(fn, ast.Attribute) else fn.args[0]
                if isinstance(inner, ast.Name) and inner.id in env:
                    return AVal(env[inner.id].cls, self.ctor_fresh(e, f, env[inner.id].cls), norm(e)[:40])
        raise AnalysisError("C03.R1: cannot evaluate `%s` in the ladder" % norm(e)[:60])

    def ctor_fresh(self, call, f, k):
        """a constructor call yields an object owning its matrix unless copy=False is passed with a live matrix"""
        cp = kwarg(call, "copy")
        if cp is not None and isinstance(cp, ast.Constant) and cp.value is False:
            return False
        init = self.p.lookup(k, "__init__")
        if init is not None and "copy" in init.params:
            return True
        # constructors without a copy flag (Rotation, Translation, scales) build a new matrix from their argument
        return True

    def run(self, A, B, which):
        """evaluate Homogeneous._compose_<which>(self: A, t: B) -> AVal"""
        self.depth += 1
        if self.depth > 6:
            raise AnalysisError("C03.R1: ladder recursion does not terminate for (%s, %s)" % (A.name, B.name))
        try:
            f = self.p.lookup(A, which)
            need(f is not None and not only_raises(f.node), "C03.R1: %s.%s unresolved" % (A.name, which))
            tname = f.params[1]
            env = {f.params[0]: AVal(A, False, "self"), tname: AVal(B, False, "t")}
            out = self.block(f, f.node.body, env)
            if out is None:
                raise AnalysisError("C03.R1: %s falls off the end for (%s, %s)" % (f.short, A.name, B.name))
            return out
        finally:
            self.depth -= 1

    def block(self, f, body, env):
        for st in body:
            if isinstance(st, ast.Expr) and isinstance(st.value, ast.Constant):
                continue
            if isinstance(st, ast.If):
                branch = st.body if self.test(f, st.test, env) else st.orelse
                out = self.block(f, branch, env)
                if out is not None:
                    return out
                continue
            if isinstance(st, ast.Assign) and len(st.targets) == 1 and isinstance(st.targets[0], ast.Name):
                env[st.targets[0].id] = self.value(f, st.value, env)
                continue
            if isinstance(st, ast.Expr) and isinstance(st.value, ast.Call):
                c = st.value
                if isinstance(c.func, ast.Attribute) and isinstance(c.func.value, ast.Name) and c.func.value.id in env \
                        and c.func.attr in ("_compose_before_inplace", "_compose_after_inplace"):
                    tgt = env[c.func.value.id]
                    env[c.func.value.id] = AVal(tgt.cls, tgt.fresh, tgt.how)
                    env.setdefault("__mutated__", []).append((c.func.value.id, tgt, st))
                    want = f.name + "_inplace"
                    arg_ok = len(c.args) == 1 and isinstance(c.args[0], ast.Name) and c.args[0].id in env and env[c.args[0].id].how == "t"
                    if c.func.attr != want or not arg_ok:
                        env.setdefault("__order__", []).append((st, "%s composes with `%s`; composing the copy of self with t in %s must use %s(t)" % (f.short, norm(c)[:50], f.name, want)))
                    continue
                raise AnalysisError("C03.R1: unexpected call `%s` in the ladder" % norm(c)[:60])
            if isinstance(st, ast.Return):
                v = self.value(f, st.value, env)
                v.mutated = env.get("__mutated__", [])
                v.order_errors = getattr(v, "order_errors", []) + env.get("__order__", [])
                v.ret = st
                v.func = f
                return v
            raise AnalysisError("C03.R1: unexpected statement `%s` in the ladder" % norm(st)[:60])
        return None


def rule_r1(p, res):
    r = res.rule("C03.R1", "ladder: result is not an alignment, honest for the product, composed on a fresh object")
    fam = family_classes(p)
    for c in fam:
        kind_of(p, c)
    lad = Ladder(p, r)
    n = 0
    for which in ("_compose_before", "_compose_after"):
        for A in fam:
            for B in fam:
                n += 1
                r.instance("%s.%s(%s)" % (A.name, which, B.name))
                v = lad.run(A, B, which)
                f = v.func
                kA, kB = kind_of(p, A), kind_of(p, B)
                # (a) never an alignment
                ok_a = not is_alignment(p, v.cls)
                if not ok_a:
                    r.violation(f, v.ret, "%s.%s(%s) returns a %s: the composite still claims to align a source to a target it no longer maps to "
                                "(alignment nature must be stripped)" % (A.name, which, B.name, v.cls.name))
                else:
                    r.ok()
                # (b) honest class
                want = product_kind(kA, kB)
                kR = kind_of(p, v.cls)
                ok_b = contains(kR, want)
                if not ok_b:
                    r.violation(f, v.ret, "%s.%s(%s) returns a %s but the product of a %s and a %s is in general a %s: the result's class is "
                                "dishonest" % (A.name, which, B.name, v.cls.name, kA, kB, want))
                else:
                    r.ok({"pair": [A.name, B.name], "op": which, "result": v.cls.name, "needs": want})
                for st_, msg in getattr(v, "order_errors", []):
                    r.violation(f, st_, "%s.%s(%s): %s -- the composite would apply the two maps in the wrong order" % (A.name, which, B.name, msg))
                # (c) freshness of every object composed in place
                for nm, tgt, st in getattr(v, "mutated", []):
                    if not tgt.fresh:
                        r.violation(f, st, "%s.%s(%s) composes in place into `%s` (%s), which is not a fresh object: an operand would be modified"
                                    % (A.name, which, B.name, nm, tgt.how))
                    else:
                        r.ok()
    if n < 288:
        raise AnalysisError("C03.R1: only %d ladder cases evaluated (floor 288 = 12 x 12 x 2)" % n)


# -------------------------------------------------------------- R2
def _gate_classes(p, c, prop):
    m = p.lookup(c, prop)
    need(m is not None and m.is_property(), "C03.R2: %s.%s is not a property" % (c.name, prop))
    if only_raises(m.node):
        return m, None
    rets = returns_of(m.node)
    need(len(rets) == 1, "C03.R2: %s.%s should have a single return" % (c.name, prop))
    v = rets[0].value
    if isinstance(v, ast.Attribute) and norm(v) == "self.composes_inplace_with":
        return _gate_classes(p, c, "composes_inplace_with")
    elts = v.elts if isinstance(v, ast.Tuple) else [v]
    out = []
    for e in elts:
        k = p.resolve_expr(m.module, e)
        if not isinstance(k, ClassInfo):
            # function-local import?
            ctx = CallCtx(p, m, c)
            k = ctx._resolve_static(e)
        need(isinstance(k, ClassInfo), "C03.R2: cannot resolve gate class `%s` of %s" % (norm(e), c.name))
        out.append(k)
    return m, out


def rule_r2(p, res):
    r = res.rule("C03.R2", "in-place gates keep the receiver's family; composes_with routes family pairs to the ladder")
    fam = family_classes(p)
    homog = p.cls("Homogeneous")
    for K in fam:
        r.instance(K)
        m, gate = _gate_classes(p, K, "composes_inplace_with")
        need(gate is not None, "C03.R2: %s has an abstract in-place gate" % K.name)
        kK = kind_of(p, K)
        bad = []
        for X in fam:
            if any(g in X.mro for g in gate):
                prod = product_kind(kK, kind_of(p, X))
                if not contains(kK, prod):
                    bad.append((X.name, prod))
        if bad:
            r.violation(K, m.node, "%s.composes_inplace_with (= %s, defined in %s) admits %s: composing in place with e.g. a %s turns this %s into a %s "
                        "while it still reports itself as %s" % (K.name, "/".join(g.name for g in gate), m.cls.name, sorted({b[0] for b in bad}),
                                                                bad[0][0], kK, bad[0][1], K.name))
        else:
            r.ok({"class": K.name, "gate": [g.name for g in gate], "defined_in": m.cls.name})
        m2, gate2 = _gate_classes(p, K, "composes_with")
        r.check(gate2 is not None and any(g is homog or g in homog.mro for g in gate2), K, m2.node,
                "%s.composes_with must admit the whole homogeneous family so that pairs are composed natively, not chained" % K.name)
    # the public methods dispatch on the gates
    ct = p.cls("ComposableTransform")
    for name, gate, native in (("compose_before", "composes_with", "_compose_before"), ("compose_after", "composes_with", "_compose_after"),
                               ("compose_before_inplace", "composes_inplace_with", "_compose_before_inplace"),
                               ("compose_after_inplace", "composes_inplace_with", "_compose_after_inplace")):
        f = ct.methods.get(name)
        need(f is not None, "C03.R2: anchor ComposableTransform.%s missing" % name)
        r.instance(f)
        ifs = [n for n in walk_own(f.node) if isinstance(n, ast.If)]
        need(len(ifs) == 1, "C03.R2: %s should have one dispatch test" % f.short)
        t = ifs[0].test
        ok = isinstance(t, ast.Call) and norm(t) == "isinstance(%s, self.%s)" % (f.params[1], gate)
        r.check(ok, f, ifs[0], "%s must dispatch on isinstance(%s, self.%s)" % (f.short, f.params[1], gate))
        from .. import cfg as _cfg
        gf = _cfg.build(f.node)
        nat = [c for c in calls_in(f.node) if norm(c.func) == "self." + native]
        gate_txt = "isinstance(%s, self.%s)" % (f.params[1], gate)
        okn = bool(nat) and all((gate_txt, True) in [(str(norm(t_)), pol) for t_, pol in gf.guards(stmt_of(c))] for c in nat)
        r.check(okn, f, ifs[0], "%s must use the native %s when the gate accepts" % (f.short, native))
        if "inplace" in name:
            r.check(any(isinstance(n, ast.Raise) for n in ifs[0].orelse), f, ifs[0], "%s must refuse partners outside the gate" % f.short)
        else:
            ocs = [c for c in calls_in(ast.Module(body=ifs[0].orelse, type_ignores=[])) if norm(c.func) == "Transform." + name]
            r.check(len(ocs) == 1, f, ifs[0], "%s must fall back to a TransformChain outside the gate" % f.short)
            for c in ocs:
                r.check([norm(a) for a in c.args] == ["self", f.params[1]], f, c, "%s falls back with the operands in the order %s: the chain must be built for (self, %s), otherwise the "
                        "composite applies the two maps in the wrong order" % (f.short, [norm(a) for a in c.args], f.params[1]), {"fallback": norm(c)})
    for nm in ("compose_before", "compose_after", "compose_before_inplace", "compose_after_inplace"):
        for c in fam:
            if nm in c.methods:
                r.violation(c.methods[nm], c.methods[nm].node, "%s overrides %s and bypasses the gate dispatch" % (c.name, nm))
    r.floor(12, "gates")


# -------------------------------------------------------------- R3
def _dot_operands(call):
    d = dotted(call.func) or ""
    if d in ("np.dot", "numpy.dot", "np.matmul") and len(call.args) == 2:
        return call.args[0], call.args[1]
    if isinstance(call.func, ast.Attribute) and call.func.attr == "dot" and len(call.args) == 1:
        return call.func.value, call.args[0]
    return None


def rule_r3(p, res):
    r = res.rule("C03.R3", "one operand-order convention: matrix products, chain list, chain application")
    # convention: points are row vectors multiplied by h_matrix.T  => the transform applied *later* is the *left* factor
    ap = p.own_method("Homogeneous", "_apply")
    r.instance(ap)
    conv = False
    for c in calls_in(ap.node):
        ops = _dot_operands(c)
        if ops and norm(ops[1]) in ("self.h_matrix.T", "self._h_matrix.T"):
            conv = True
    need(conv, "C03.R3: Homogeneous._apply no longer multiplies row vectors by h_matrix.T; the convention must be re-derived")
    aff = p.own_method("Affine", "_apply")
    r.instance(aff)
    ok = any(_dot_operands(c) and norm(_dot_operands(c)[1]) == "self.linear_component.T" for c in calls_in(aff.node))
    r.check(ok, aff, aff.node, "Affine._apply must multiply row vectors by linear_component.T (same convention as Homogeneous._apply)")
    for name, left, right in (("_compose_before_inplace", "transform", "self"), ("_compose_after_inplace", "self", "transform")):
        f = p.own_method("Homogeneous", name)
        r.instance(f)
        tn = f.params[1]
        prods = [(_dot_operands(c), c) for c in calls_in(f.node) if _dot_operands(c)]
        need(len(prods) == 1, "C03.R3: expected one matrix product in %s" % f.short)
        (a, b), c = prods[0]
        names = {"transform": "%s.h_matrix" % tn, "self": "self.h_matrix"}
        got = (norm(a).replace("._h_matrix", ".h_matrix"), norm(b).replace("._h_matrix", ".h_matrix"))
        r.check(got == (names[left], names[right]), f, c, "%s forms %s . %s; with points multiplied by h_matrix.T the transform applied later must be the "
                "left factor: %s . %s" % (f.short, got[0], got[1], names[left], names[right]), {"function": f.short, "product": got})
        sets = [k for k in calls_in(f.node) if isinstance(k.func, ast.Attribute) and k.func.attr == "_set_h_matrix"]
        r.check(len(sets) == 1 and sets[0].args and any(c is x for x in ast.walk(sets[0].args[0])), f, c, "the product must become the new h_matrix")
    tb = p.own_method("Transform", "compose_before")
    ta = p.own_method("Transform", "compose_after")
    for f, want in ((tb, ["self", "transform"]), (ta, ["transform", "self"])):
        r.instance(f)
        rets = returns_of(f.node)
        need(len(rets) == 1 and isinstance(rets[0].value, ast.Call) and rets[0].value.args and isinstance(rets[0].value.args[0], ast.List),
             "C03.R3: %s does not return TransformChain([...])" % f.short)
        got = [norm(x) for x in rets[0].value.args[0].elts]
        want_n = [w if w == "self" else f.params[1] for w in want]
        r.check(got == want_n and (dotted(rets[0].value.func) or "").endswith("TransformChain"), f, rets[0], "%s builds the chain %s, must be %s" % (f.short, got, want_n),
                {"function": f.short, "chain": got})
    cb = p.own_method("TransformChain", "_compose_before_inplace")
    ca = p.own_method("TransformChain", "_compose_after_inplace")
    r.instance(cb)
    r.instance(ca)
    cbs = [norm(c) for c in calls_in(cb.node)]
    r.check(cbs == ["self.transforms.append(%s)" % cb.params[1]], cb, cb.node, "chain compose_before must append at the end (found %s)" % cbs, {"chain_before": cbs})
    cas = [norm(c) for c in calls_in(ca.node)]
    r.check(cas == ["self.transforms.insert(0, %s)" % ca.params[1]], ca, ca.node, "chain compose_after must insert at the front (found %s)" % cas, {"chain_after": cas})
    cap = p.own_method("TransformChain", "_apply")
    r.instance(cap)
    rets = returns_of(cap.node)
    need(len(rets) == 1, "C03.R3: TransformChain._apply should have one return")
    v = rets[0].value
    ok = isinstance(v, ast.Call) and (dotted(v.func) or "") in ("reduce", "functools.reduce") and len(v.args) == 3 and isinstance(v.args[0], ast.Lambda) \
        and norm(v.args[1]) == "self.transforms" and norm(v.args[2]) == cap.params[1]
    if ok:
        lam = v.args[0]
        a, b = lam.args.args[0].arg, lam.args.args[1].arg
        ok = norm(lam.body) in ("%s._apply(%s)" % (b, a), "%s.apply(%s)" % (b, a))
    r.check(ok, cap, rets[0], "TransformChain._apply must fold the transforms in list order over the input")
    ci = p.own_method("TransformChain", "composes_inplace_with")
    rr = returns_of(ci.node)
    r.check(len(rr) == 1 and norm(rr[0].value) == "Transform", ci, ci.node, "a chain composes with any Transform")


# -------------------------------------------------------------- R4
def rule_r4(p, res):
    r = res.rule("C03.R4", "compose_before / compose_after leave both operands unchanged")
    eff = get_effects(p)
    tr = p.cls("Transform")
    n = 0
    for c in p.descendants(tr):
        for name in ("compose_before", "compose_after"):
            f = p.lookup(c, name)
            if f is None:
                continue
            n += 1
            r.instance("%s@%s" % (f.short, c.name))
            s = eff.summary(f, c)
            for prm, what in ((f.params[0], "its receiver"), (f.params[1], "its argument")):
                bad = s.on(prm)
                if bad:
                    r.violation(bad[0].func, bad[0].node, "%s on %s modifies %s: %s" % (name, c.name, what, bad[0].describe()))
                else:
                    r.ok({"class": c.name, "method": name, "operand": prm, "effects": 0})
    # the generic native compose works on a copy
    ct = p.cls("ComposableTransform")
    for name, inpl in (("_compose_before", "_compose_before_inplace"), ("_compose_after", "_compose_after_inplace")):
        f = ct.methods.get(name)
        need(f is not None, "C03.R4: anchor ComposableTransform.%s missing" % name)
        r.instance(f)
        d = Defs(f.node)
        calls = [c for c in calls_in(f.node) if isinstance(c.func, ast.Attribute) and c.func.attr == inpl]
        need(len(calls) == 1, "C03.R4: %s must call %s once" % (f.short, inpl))
        recv = calls[0].func.value
        v = d.single(recv.id) if isinstance(recv, ast.Name) else None
        r.check(v is not None and norm(v) == "self.copy()", f, calls[0], "%s must compose into a copy of self" % f.short)
        rets = returns_of(f.node)
        r.check(all(isinstance(x.value, ast.Name) and isinstance(recv, ast.Name) and x.value.id == recv.id for x in rets), f, calls[0], "%s must return the copy" % f.short)
    if n < 40:
        raise AnalysisError("C03.R4: only %d compose resolutions analysed (floor 40)" % n)


# -------------------------------------------------------------- R5
def rule_r5(p, res):
    r = res.rule("C03.R5", "Affine.decompose: [Rotation(Vt), Scale(S), Rotation(U), Translation(t)] from one SVD")
    f = p.own_method("Affine", "decompose")
    r.instance(f)
    d = Defs(f.node)
    svd = [n for n in walk_own(f.node) if isinstance(n, ast.Assign) and isinstance(n.value, ast.Call) and (dotted(n.value.func) or "").endswith("linalg.svd")]
    need(len(svd) == 1 and isinstance(svd[0].targets[0], ast.Tuple) and len(svd[0].targets[0].elts) == 3, "C03.R5: decompose must unpack one SVD into three factors")
    u, s, vt = [x.id for x in svd[0].targets[0].elts]
    r.check(norm(svd[0].value.args[0]) == "self.linear_component", f, svd[0], "the SVD must be taken of the linear component")
    rets = returns_of(f.node)
    need(len(rets) == 1 and isinstance(rets[0].value, ast.List) and len(rets[0].value.elts) == 4, "C03.R5: decompose must return a list of four transforms")
    got = []
    for e in rets[0].value.elts:
        v = expand(e, d)
        if isinstance(v, ast.Call) and v.args:
            got.append(((dotted(v.func) or "").split(".")[-1], norm(v.args[0])))
        else:
            got.append(("?", norm(e)))
    want = [("Rotation", vt), ("Scale", s), ("Rotation", u), ("Translation", "self.translation_component")]
    r.check(got == want, f, rets[0], "decompose returns %s; in application order (first applied first) L = U S Vt, then t, is %s" % (got, want), {"decomposition": got})
    # DiscreteAffine.decompose returns itself (as a copy)
    da = p.own_method("DiscreteAffine", "decompose")
    r.instance(da)
    rr = returns_of(da.node)
    r.check(len(rr) == 1 and norm(rr[0].value) == "[self.copy()]", da, da.node, "a discrete affine decomposes into a copy of itself")


def rule_r6(p, res):
    r = res.rule("C03.R6", "as_non_alignment rebuilds the plain transform from the alignment's *current* matrix, never from source / target")
    n = 0
    for c in p.classes.values():
        f = c.methods.get("as_non_alignment")
        if f is None or only_raises(f.node):
            continue
        if not any(b.name == "HomogFamilyAlignment" for b in c.mro):
            continue
        if c.name == "HomogFamilyAlignment":
            continue
        n += 1
        r.instance(f)
        d = Defs(f.node)
        rets = returns_of(f.node)
        need(len(rets) == 1 and isinstance(rets[0].value, ast.Call), "C03.R6: %s does not return one constructor call" % f.short)
        lv = leaves(rets[0].value, d)
        ends = sorted(l for l in lv if l.startswith(("self.source", "self.target", "self._source", "self._target")))
        state = [l for l in lv if l.startswith("self.") and l not in ends and l != "self.n_dims"]
        r.check(not ends and bool(state), f, rets[0], "%s builds the plain transform from %s instead of the alignment's current state: after an in-place composition (which changes the matrix "
                "without moving the target) the composed result no longer equals b(a(x))" % (f.short, ", ".join(ends) or "nothing of its own state"), {"function": f.short, "reads": sorted(state)})
        # the class built is the first non-alignment class of the family in the MRO
        k = (dotted(rets[0].value.func) or "").split(".")[-1]
        plain = [b.name for b in c.mro[1:] if not any(x.name == "Alignment" for x in b.mro) and any(x.name == "Homogeneous" for x in b.mro)]
        r.check(bool(plain) and k == plain[0], f, rets[0], "%s returns a %s; the plain counterpart of %s is %s" % (f.short, k, c.name, plain[0] if plain else "?"))
    if n < 5:
        raise AnalysisError("C03.R6: only %d as_non_alignment overrides found (floor 5)" % n)


# rules of sibling properties over code paths this property's statement also quantifies over (DESIGN.md section 3, shared rules)
ALSO = ['C02.R6', 'C20.R4', 'C06.R2']

RULES = [rule_r1, rule_r2, rule_r3, rule_r4, rule_r5, rule_r6]

WITNESSES = [
    Witness("C03.W1", "menpo/transform/homogeneous/base.py", "Homogeneous._compose_before",
            "if isinstance(self, HomogFamilyAlignment):\n            new_self = self.as_non_alignment()\n        else:\n            new_self = self.copy()",
            "new_self = self.copy()", rule="C03.R1", construct="Homogeneous._compose_before"),
    Witness("C03.W2", "menpo/transform/homogeneous/base.py", "Homogeneous._compose_after",
            "elif isinstance(self, Affine) and isinstance(t, Affine):\n        new_self = Affine(self.h_matrix)",
            "elif isinstance(self, Affine) and isinstance(t, Affine):\n        new_self = Similarity(self.h_matrix)",
            rule="C03.R1", construct="Homogeneous._compose_after"),
    Witness("C03.W3", "menpo/transform/homogeneous/base.py", "Homogeneous._compose_before_inplace",
            "np.dot(transform.h_matrix, self.h_matrix)", "np.dot(self.h_matrix, transform.h_matrix)", rule="C03.R3", construct="_compose_before_inplace"),
    Witness("C03.W4", "menpo/transform/base/composable.py", "TransformChain._compose_after_inplace",
            "self.transforms.insert(0, transform)", "self.transforms.append(transform)", rule="C03.R3", construct="TransformChain._compose_after_inplace"),
    Witness("C03.W5", "menpo/transform/base/composable.py", "ComposableTransform._compose_before",
            "self_copy._compose_before_inplace(transform)", "self._compose_before_inplace(transform)", rule="C03.R4", construct="_compose_before"),
    Witness("C03.W6", "menpo/transform/homogeneous/rotation.py", "Rotation.composes_inplace_with",
            "return Rotation", "return Similarity", rule="C03.R2", construct="Rotation"),
    Witness("C03.W7", "menpo/transform/homogeneous/affine.py", "Affine.decompose",
            "return [rotation_1, scale, rotation_2, translation]", "return [rotation_2, scale, rotation_1, translation]", rule="C03.R5", construct="Affine.decompose"),
    Witness("C03.W8", "menpo/transform/homogeneous/base.py", "Homogeneous._compose_before",
            "new_self = Similarity(self.h_matrix)", "new_self = Similarity(self.h_matrix, copy=False)", rule="C03.R1", construct="Homogeneous._compose_before"),
    Witness("C03.W9", "menpo/transform/base/__init__.py", "Transform.compose_after",
            "TransformChain([transform, self])", "TransformChain([self, transform])", rule="C03.R3", construct="Transform.compose_after"),
    Witness("C03.W10", "menpo/transform/homogeneous/base.py", "Homogeneous._compose_after",
            "new_self = Similarity(self.h_matrix)\n        new_self._compose_after_inplace(t)", "new_self = Similarity(self.h_matrix)\n        new_self._compose_before_inplace(t)",
            rule="C03.R1", construct="Homogeneous._compose_after", note="seeded change C03-A"),
    Witness("C03.W11", "menpo/transform/base/composable.py", "ComposableTransform.compose_after", "Transform.compose_after(self, transform)", "Transform.compose_after(transform, self)",
            rule="C03.R2", construct="compose_after", note="seeded change R2-C03-C"),
    Witness("C03.T1", "menpo/transform/homogeneous/base.py", "Homogeneous._compose_before_inplace",
            "np.dot(transform.h_matrix, self.h_matrix)", "transform.h_matrix.dot(self.h_matrix)", kind="T"),
]

WITNESSES += [
    Witness("C03.W12", "menpo/transform/homogeneous/translation.py", "AlignmentTranslation.as_non_alignment", "Translation(self.translation_component)", "Translation(self.target.centre() - self.source.centre())",
            rule="C03.R6", construct="AlignmentTranslation.as_non_alignment", note="seeded change R3-C03-A"),
    Witness("C03.T2", "menpo/transform/homogeneous/translation.py", "AlignmentTranslation.as_non_alignment", "Translation(self.translation_component)", "Translation(self.h_matrix[:-1, -1])", kind="T"),
]
