"""C13 -- crops and patches are pixel-exact and honour their boundary contract.

 R1 crop boundary guard: truth table over (constrain, min inside, max inside): raise <=> not c and not (m and M)
 R2 crop: min floored, max ceiled; warp = Translation(min_bounded), shape = max_bounded - min_bounded, through the funnel
 R3 patch arrays: no literal sizes; the channel dimension derives from pixels.shape[0]
 R4 both extractors produce the layout (centres, offsets, channels, ph, pw)
 R5 fill value / mode / order forwarding; fast path only for order 0 + constant mode
 R6 slice arithmetic of patch bounds, R7 sampling grid axes
 R8 warp_to_shape keeps the dtype of the sampled buffer (reshape / in-place scrub only)
"""
import ast

from ..loader import AnalysisError, dotted
from ..astutil import walk_own, calls_in, norm, Defs, leaves, stmt_of, kwarg, expand, const_value, need
from .. import cfg as cfgmod
from ..domains import eval_bool, assignments
from ..variants import Witness

PROP = "C13"
EXPLANATION = (
    "Image.crop's ImageBoundaryError guard is evaluated over all 8 assignments of (constrain_to_boundary, min inside, max "
    "inside) and must raise exactly when constraining is off and either bound was clipped; min is floored and max ceiled "
    "and the crop is the funnel warp Translation(min_bounded) of shape max_bounded-min_bounded; every dimension of the "
    "patch arrays derives from an input (no literal channel count); the sampling and slicing extractors yield the same "
    "symbolic layout (centres, offsets, channels, ph, pw); cval/mode/order reach their sinks and the slicing fast path is "
    "taken only for order 0 + constant mode."
)
NOT_DECIDED = "bit-exact pixel equality, rounding ties, slice arithmetic values"
TECHNIQUE = "truth-table enumeration of a guard + symbolic dimension/provenance analysis on the AST (static analysis)"

ROLES = ("centres", "offsets", "channels", "ph", "pw")


# ------------------------------------------------------------------- R1/R2
def _crop_atoms(f):
    """identify the atoms of the boundary guard by dataflow"""
    defs = Defs(f.node)

    def bounded_pair(name):
        """name := self.constrain_points_to_bounds(X) -> X expr"""
        v = defs.single(name)
        if isinstance(v, ast.Call) and isinstance(v.func, ast.Attribute) and v.func.attr == "constrain_points_to_bounds" and v.args:
            return v.args[0]
        return None

    def side_of(expr):
        lv = leaves(expr, defs)
        mn = "param:min_indices" in lv
        mx = "param:max_indices" in lv
        if mn and not mx:
            return "m"
        if mx and not mn:
            return "M"
        return None

    def atom(expr):
        e = expr
        if isinstance(e, ast.Name):
            if e.id == "constrain_to_boundary" and any(k == "param" for k, _, _ in defs.of(e.id)):
                return "c"
            v = defs.single(e.id)
            if v is None:
                return None
            return atom(v)
        # np.all(A == B) / (A == B).all()
        cmp_ = None
        if isinstance(e, ast.Call):
            d = dotted(e.func) or ""
            if d in ("np.all", "numpy.all", "np.alltrue", "all") and e.args:
                cmp_ = e.args[0]
            elif isinstance(e.func, ast.Attribute) and e.func.attr == "all":
                cmp_ = e.func.value
            elif d in ("np.array_equal", "numpy.array_equal") and len(e.args) == 2:
                cmp_ = ast.Compare(left=e.args[0], ops=[ast.Eq()], comparators=[e.args[1]])
        if isinstance(cmp_, ast.Compare) and len(cmp_.ops) == 1 and isinstance(cmp_.ops[0], ast.Eq):
            a, b = cmp_.left, cmp_.comparators[0]
            for x, y in ((a, b), (b, a)):
                if isinstance(x, ast.Name) and bounded_pair(x.id) is not None:
                    src = bounded_pair(x.id)
                    if norm(src) == norm(y):
                        return side_of(y)
        return None

    return atom, defs


def rule_r1(p, res):
    r = res.rule("C13.R1", "crop boundary guard: raise <=> not constrain and not (min inside and max inside)")
    f = p.own_method("Image", "crop")
    r.instance(f)
    atom, defs = _crop_atoms(f)
    g = cfgmod.build(f.node)
    raises = []
    for n in walk_own(f.node):
        if isinstance(n, ast.Raise) and n.exc is not None:
            d = dotted(n.exc.func) if isinstance(n.exc, ast.Call) else dotted(n.exc)
            if d and d.endswith("ImageBoundaryError"):
                raises.append(n)
    need(raises, "C13.R1: no `raise ImageBoundaryError` in Image.crop")
    # path condition of each raise = conjunction of its guards that mention atoms
    table = {}
    for asg in assignments(["c", "m", "M"]):
        raised = False
        for rs in raises:
            cond = True
            for test, pol in g.guards(rs):
                v = eval_bool(test, asg, atom)
                if v is None:
                    # guard without boundary atoms (size / ordering checks): must not mention them partially
                    mentioned = _mentions_atoms(test, atom)
                    if mentioned:
                        raise AnalysisError("C13.R1: guard `%s` mixes boundary atoms with unknown terms" % norm(test)[:80])
                    continue
                if v != pol:
                    cond = False
                    break
            if cond:
                raised = True
        table[(asg["c"], asg["m"], asg["M"])] = raised
    bad = []
    for (c, m, M), raised in sorted(table.items()):
        want = (not c) and not (m and M)
        if raised != want:
            bad.append("constrain=%s min_inside=%s max_inside=%s: %s, must %s" % (c, m, M, "raises" if raised else "silently clips", "raise" if want else "not raise"))
        else:
            r.ok({"constrain": c, "min_inside": m, "max_inside": M, "raises": raised})
    if bad:
        r.violation(f, raises[0], "boundary guard disagrees with the contract on %d of 8 cases: %s" % (len(bad), "; ".join(bad)))
    # the raise must not be reachable only after the warp
    warp = [c for c in calls_in(f.node) if isinstance(c.func, ast.Attribute) and c.func.attr == "warp_to_shape"]
    need(warp, "C13.R1: crop no longer calls warp_to_shape")
    for w in warp:
        for rs in raises:
            r.check(not g.reaches(stmt_of(w), rs), f, rs, "the boundary check must precede the warp")


def _mentions_atoms(test, atom):
    for n in ast.walk(test):
        if isinstance(n, (ast.Name, ast.Call)) and atom(n) is not None:
            return True
    return False


def rule_r2(p, res):
    r = res.rule("C13.R2", "crop: min floored, max ceiled, Translation(min_bounded), shape = max_bounded - min_bounded")
    f = p.own_method("Image", "crop")
    r.instance(f)
    defs = Defs(f.node)
    warp = [c for c in calls_in(f.node) if isinstance(c.func, ast.Attribute) and c.func.attr == "warp_to_shape"]
    need(len(warp) == 1, "C13.R2: expected exactly one warp_to_shape call in Image.crop")
    w = warp[0]
    r.check(isinstance(w.func.value, ast.Name) and w.func.value.id == "self", f, w, "crop must warp self through the funnel")
    need(len(w.args) >= 2, "C13.R2: warp_to_shape(shape, transform) positional form expected")
    shape_e, tr_e = w.args[0], w.args[1]
    # transform = Translation(<min side, floored, bounded>)
    tr = expand(tr_e, defs)
    ok = isinstance(tr, ast.Call) and (dotted(tr.func) or "").endswith("Translation") and len(tr.args) >= 1
    r.check(ok, f, w, "the crop transform must be a Translation")
    if ok:
        lv = leaves(tr_e, defs)
        r.check("param:min_indices" in lv and "param:max_indices" not in lv, f, w, "the crop translation must be the (bounded) minimum corner only")
        r.check("call:np.floor" in lv and "call:np.ceil" not in lv, f, w, "the minimum corner must be floored (np.floor), found leaves %s" % sorted(x for x in lv if x.startswith("call:")),
                {"translation_leaves": sorted(lv)})
        r.check("call:self.constrain_points_to_bounds" in lv, f, w, "the translation must use the bounded minimum")
    # shape = (max_bounded - min_bounded)
    sh = expand(shape_e, defs)
    sub = None
    for n in ast.walk(sh):
        if isinstance(n, ast.BinOp) and isinstance(n.op, ast.Sub):
            sub = n
            break
    need(sub is not None, "C13.R2: crop shape is not a difference")
    ll, rl = leaves(sub.left, defs), leaves(sub.right, defs)
    r.check("param:max_indices" in ll and "param:min_indices" not in ll and "param:min_indices" in rl and "param:max_indices" not in rl,
            f, w, "crop shape must be max_bounded - min_bounded")
    r.check("call:np.ceil" in ll and "call:np.floor" not in ll, f, w, "the maximum corner must be ceiled (np.ceil)")
    r.check("call:self.constrain_points_to_bounds" in ll and "call:self.constrain_points_to_bounds" in rl, f, w, "the crop shape must use the bounded corners")
    wl = kwarg(w, "warp_landmarks")
    r.check(wl is None or (isinstance(wl, ast.Constant) and wl.value is True) or "param:warp_landmarks" in leaves(wl, defs), f, w,
            "crop must move the landmarks with the pixels (warp_landmarks=True)")
    rt = kwarg(w, "return_transform")
    r.check(rt is not None and "param:return_transform" in leaves(rt, defs), f, w, "crop must forward return_transform")
    # constrain_points_to_bounds works on a copy
    cb = p.own_method("Image", "constrain_points_to_bounds")
    r.instance(cb)
    from ..effects import Effects, get_effects
    s = get_effects(p).summary(cb)
    bad = s.on("points")
    r.check(not bad, cb, bad[0].node if bad else cb.node, "constrain_points_to_bounds must not write into the caller's indices (the guard compares against them)")


# ------------------------------------------------------------------- R3/R4
def _dim_role(e, defs, fname):
    """role of a dimension expression, or ('literal', k) / None"""
    cv = const_value(e)
    if cv is not None:
        return ("literal", cv)
    if isinstance(e, ast.Name):
        ds = defs.of(e.id)
        roles = set()
        for kind, val, st in ds:
            if kind == "param":
                roles.add(None)
            elif kind == "assign" and isinstance(val, ast.AST):
                roles.add(_dim_role(val, defs, fname))
            elif kind in ("unpack",):
                roles.add(None)
            else:
                roles.add(None)
        lits = {x for x in roles if isinstance(x, tuple)}
        named = {x for x in roles if not isinstance(x, tuple)}
        if len(named) == 1 and None not in named:
            role = named.pop()
            if all(l == ("literal", 1) for l in lits):
                return role
            return None
        if not named and len(lits) == 1:
            return lits.pop()
        return None
    if isinstance(e, ast.IfExp):
        a, b = _dim_role(e.body, defs, fname), _dim_role(e.orelse, defs, fname)
        for x, y in ((a, b), (b, a)):
            if y == ("literal", 1) and isinstance(x, str):
                return x
        return a if a == b else None
    if isinstance(e, ast.Call) and isinstance(e.func, ast.Name) and e.func.id == "int" and e.args:
        return _dim_role(e.args[0], defs, fname)
    s = norm(e)
    table = {
        "pixels.shape[0]": "channels",
        "patch_centers.shape[0]": "centres",
        "offsets.shape[0]": "offsets",
        "patch_shape[0]": "ph",
        "patch_shape[1]": "pw",
        # _convert_patches_list_to_single_array
        "n_center": "centres",
        "patches_list[0].n_channels": "channels",
        "patches_list[0].height": "ph",
        "patches_list[0].width": "pw",
        "len(patches_list) / n_center": "offsets",
    }
    return table.get(s)


def _shape_ctor_calls(f):
    out = []
    for c in calls_in(f.node):
        d = dotted(c.func) or ""
        last = d.split(".")[-1]
        if d in ("np.full", "np.empty", "np.zeros", "np.ones", "numpy.full", "numpy.empty", "numpy.zeros", "numpy.ones") and c.args:
            a = c.args[0]
            if isinstance(a, (ast.List, ast.Tuple)) and len(a.elts) >= 3:
                out.append((c, list(a.elts), "alloc"))
        elif isinstance(c.func, ast.Attribute) and last == "reshape":
            dims = c.args
            if len(dims) == 1 and isinstance(dims[0], (ast.List, ast.Tuple)):
                dims = dims[0].elts
            if len(dims) >= 3:
                out.append((c, list(dims), "reshape"))
    return out


def rule_r3(p, res):
    r = res.rule("C13.R3", "patch arrays: every dimension derives from an input; no literal channel count")
    fs = [p.func("menpo.image.patches.extract_patches_by_sampling"), p.func("menpo.image.patches.extract_patches_with_slice"),
          p.func("menpo.image.base._convert_patches_list_to_single_array")]
    n_sites = 0
    for f in fs:
        defs = Defs(f.node)
        for c, dims, kind in _shape_ctor_calls(f):
            n_sites += 1
            r.instance("%s:%s" % (f.short, kind))
            roles = [_dim_role(d, defs, f.short) for d in dims]
            for d, role in zip(dims, roles):
                if isinstance(role, tuple):
                    k = role[1]
                    if isinstance(k, int) and k >= 3:
                        r.violation(f, c, "literal dimension %d in `%s`: with 1..5 channels in scope no constant can be right "
                                    "(the channel count must come from pixels.shape[0])" % (k, norm(c)[:90]))
                    elif k in (-1, 1, 2):
                        r.ok()
                    else:
                        r.violation(f, c, "literal dimension %r in a patch array shape" % (k,))
                elif role is None:
                    r.undecide("%s: dimension `%s` not recognised" % (f.short, norm(d)[:40]))
                else:
                    r.ok({"function": f.short, "dim": norm(d)[:40], "role": role})
            if len(dims) == 5:
                big_literal = any(isinstance(x, tuple) and isinstance(x[1], int) and x[1] >= 3 for x in roles)
                if not big_literal and None not in roles:
                    r.check("channels" in roles, f, c, "no dimension of `%s` derives from the channel count of the input" % norm(c)[:80])
    if n_sites < 3:
        raise AnalysisError("C13.R3: only %d patch-array shape constructors found (floor 3)" % n_sites)


def _layout(f):
    """symbolic layout (tuple of roles) of the array returned by an extractor"""
    defs = Defs(f.node)
    sites = _shape_ctor_calls(f)
    five = [(c, dims, kind) for c, dims, kind in sites if len(dims) == 5]
    if len(five) != 1:
        raise AnalysisError("C13.R4: expected one 5-D shape constructor in %s, found %d" % (f.short, len(five)))
    c, dims, kind = five[0]
    roles = [_dim_role(d, defs, f.short) for d in dims]
    perm = None
    for t in calls_in(f.node):
        d = dotted(t.func) or ""
        if d in ("np.transpose", "numpy.transpose") and len(t.args) == 2 and isinstance(t.args[1], (ast.List, ast.Tuple)):
            perm = [const_value(x) for x in t.args[1].elts]
        elif isinstance(t.func, ast.Attribute) and t.func.attr == "transpose" and t.args and d.split(".")[0] not in ("np", "numpy"):
            a = t.args[0].elts if len(t.args) == 1 and isinstance(t.args[0], (ast.List, ast.Tuple)) else t.args
            perm = [const_value(x) for x in a]
    if perm is not None:
        if sorted(x for x in perm if x is not None) != list(range(5)):
            raise AnalysisError("C13.R4: transpose permutation %s in %s is not a permutation of 5 axes" % (perm, f.short))
        roles = [roles[i] for i in perm]
    return c, roles, perm


def rule_r4(p, res):
    r = res.rule("C13.R4", "both extractors return the layout (centres, offsets, channels, ph, pw)")
    for q in ("menpo.image.patches.extract_patches_by_sampling", "menpo.image.patches.extract_patches_with_slice"):
        f = p.func(q)
        r.instance(f)
        c, roles, perm = _layout(f)
        if any(isinstance(x, tuple) or x is None for x in roles):
            # a literal / unknown dimension is R3's finding; the layout cannot be compared
            known = [x if isinstance(x, str) else "?" for x in roles]
            if sorted(k for k in known if k != "?") != sorted(set(k for k in known if k != "?")):
                r.violation(f, c, "layout has a repeated axis: %s" % (known,))
            else:
                pos_ok = all(k == "?" or k == ROLES[i] for i, k in enumerate(known))
                r.check(pos_ok, f, c, "patch layout is %s, must be %s" % (tuple(known), ROLES), {"function": f.short, "layout": known})
            continue
        r.check(tuple(roles) == ROLES, f, c, "patch layout is %s, must be %s%s" % (tuple(roles), ROLES, " (transpose %s)" % perm if perm else ""),
                {"function": f.short, "layout": roles, "transpose": perm})
    # set_patches reads the patch shape from the trailing two axes and writes all channels
    sp = p.func("menpo.image.patches.set_patches")
    r.instance(sp)
    d = Defs(sp.node)
    v = d.single("patch_shape")
    r.check(v is not None and norm(v) == "patches.shape[-2:]", sp, sp.node, "set_patches must take the patch shape from the last two axes of the patches array")


def rule_r5(p, res):
    r = res.rule("C13.R5", "cval / mode / order reach their sinks; fast path only for order 0 + constant")
    sl = p.func("menpo.image.patches.extract_patches_with_slice")
    sa = p.func("menpo.image.patches.extract_patches_by_sampling")
    ex = p.own_method("Image", "extract_patches")
    for f in (sl, sa, ex):
        r.instance(f)
    # slice path: allocation filled with cval
    d = Defs(sl.node)
    full = [c for c in calls_in(sl.node) if (dotted(c.func) or "") in ("np.full", "numpy.full")]
    need(full, "C13.R5: extract_patches_with_slice no longer allocates with np.full")
    for c in full:
        fv = kwarg(c, "fill_value") or (c.args[1] if len(c.args) > 1 else None)
        r.check(fv is not None and "param:cval" in leaves(fv, d), sl, c, "the slicing path must fill out-of-image pixels with cval")
        dt = kwarg(c, "dtype")
        r.check(dt is not None and "param:pixels" in leaves(dt, d), sl, c, "the slicing path must keep the dtype of the source pixels")
    # sampling path forwards order/mode/cval
    d = Defs(sa.node)
    interp = [c for c in calls_in(sa.node) if (dotted(c.func) or "").endswith("scipy_interpolation")]
    need(len(interp) == 1, "C13.R5: extract_patches_by_sampling must call scipy_interpolation once")
    for k in ("order", "mode", "cval"):
        v = kwarg(interp[0], k)
        r.check(v is not None and ("param:" + k) in leaves(v, d), sa, interp[0], "sampling path must forward %s to the interpolator" % k)
    # Image.extract_patches
    d = Defs(ex.node)
    g = cfgmod.build(ex.node)
    cs = [c for c in calls_in(ex.node) if (dotted(c.func) or "").endswith("extract_patches_with_slice")]
    cb = [c for c in calls_in(ex.node) if (dotted(c.func) or "").endswith("extract_patches_by_sampling")]
    need(len(cs) == 1 and len(cb) == 1, "C13.R5: Image.extract_patches must dispatch to both extractors")
    for c, kws in ((cs[0], ("offsets", "cval")), (cb[0], ("offsets", "order", "mode", "cval"))):
        for k in kws:
            v = kwarg(c, k)
            src = "param:sample_offsets" if k == "offsets" else "param:" + k
            r.check(v is not None and src in leaves(v, d), ex, c, "Image.extract_patches must forward %s to %s" % (k, dotted(c.func)))
        for i, want in enumerate(("self.pixels", None, "param:patch_shape")):
            if want and i < len(c.args):
                r.check(want in leaves(c.args[i], d), ex, c, "argument %d of %s must be %s" % (i, dotted(c.func), want))
    # guard of the fast path implies order == 0 and mode == 'constant'
    conds = [(norm(t), pol) for t, pol in g.guards(stmt_of(cs[0]))]
    flat = []
    def conj(t, pol):
        # conjuncts that certainly hold on the path: through `and`, through `not (a or b)`, and through a local that only
        # abbreviates a test
        while isinstance(t, ast.UnaryOp) and isinstance(t.op, ast.Not):
            t, pol = t.operand, not pol
        if isinstance(t, ast.Name) and isinstance(d.single(t.id), ast.AST):
            return conj(d.single(t.id), pol)
        if isinstance(t, ast.BoolOp) and ((isinstance(t.op, ast.And) and pol) or (isinstance(t.op, ast.Or) and not pol)):
            return [x for v in t.values for x in conj(v, pol)]
        if isinstance(t, ast.BoolOp):
            return []
        if not pol and isinstance(t, ast.Compare) and len(t.ops) == 1 and isinstance(t.ops[0], ast.NotEq):
            return [norm(ast.Compare(left=t.left, ops=[ast.Eq()], comparators=t.comparators))]
        return [norm(t)] if pol else []

    for t, pol in g.guards(stmt_of(cs[0])):
        flat += conj(t, pol)
    r.check(any(x in ("order == 0", "0 == order") for x in flat) and any(x in ("mode == 'constant'", "'constant' == mode") for x in flat), ex, cs[0],
            "the slicing fast path is only equivalent for order == 0 and mode == 'constant'; guard is %s" % conds,
            {"fast_path_guard": conds})


def rule_r6(p, res):
    r = res.rule("C13.R6", "slice arithmetic: patch bounds are clipped to the image extent; write-back uses the same centre + offset as extraction")
    sl = p.func("menpo.image.patches.extract_patches_with_slice")
    r.instance(sl)
    d = Defs(sl.node)
    px = sl.params[0]
    pb = d.single("pixel_bounds")
    ok = isinstance(pb, ast.Call) and (dotted(pb.func) or "") == "np.clip" and len(pb.args) == 3
    need(ok, "C13.R6: clipping of the patch bounds not recognised")
    lo, hi = pb.args[1], pb.args[2]
    from ..astutil import expand
    r.check(norm(lo) == "[0, 0]" and norm(expand(hi, d)) in ("[%s.shape[1:]]" % px, "%s.shape[1:]" % px, "[np.array(%s.shape[1:])]" % px), sl, pb,
            "patch bounds are slice bounds: they must be clipped to [0, image extent] (found [%s, %s]); clipping the upper bound to extent - 1 never copies the last row / column"
            % (norm(lo), norm(expand(hi, d))[:50]), {"clip": [norm(lo), norm(expand(hi, d))[:50]]})
    bnd = d.single("bounds")
    r.check(bnd is not None and norm(bnd) == "np.round(patch_centers[:, None, None, :] + offsets[:, None, :] + corners).astype(int)", sl, sl.node,
            "patch bounds = round(centre + offset + corners)")
    r.check(norm(d.single("patch_bounds")) == "pixel_bounds - bounds", sl, sl.node, "the offset inside the patch is the amount that was clipped away")
    sp = p.func("menpo.image.patches.set_patches")
    r.instance(sp)
    ds = Defs(sp.node)
    pv = ds.single("p")
    r.check(pv is not None and isinstance(pv, ast.BinOp) and isinstance(pv.op, ast.Add) and {norm(pv.left), norm(pv.right)} == {"point", "offset[0]"}, sp, sp.node,
            "write-back must place a patch at centre + offset, the position it was extracted from (found `%s`)" % (norm(pv) if pv is not None else None), {"write_back_centre": norm(pv) if pv is not None else None})
    s = norm(sp.node)
    r.check("pixels[:, p_r - l_r:p_r + h_r, p_c - l_c:p_c + h_c] = patch" in s and "patch = patches_with_offsets[offset_index]" in s, sp, sp.node, "a patch covers [centre - floor(h/2), centre + ceil(h/2)) on both axes, all channels")
    sa = p.func("menpo.image.patches.extract_patches_by_sampling")
    r.instance(sa)
    s2 = norm(sa.node)
    r.check("points_to_sample = patch[:, None, :] + patch_centers" in s2 and "points_to_sample = points_to_sample[:, :, None, :] + offsets" in s2, sa, sa.node, "sampling grid = centred patch + centre + offset")


def rule_r7(p, res):
    r = res.rule("C13.R7", "sampling grid of a patch: axis k is built from patch_shape[k] only, and whatever is added to both axes derives from the whole patch_shape")
    f = p.func("menpo.image.patches._centered_patch")
    r.instance(f)
    ps = f.params[0]
    grids = [k for k in calls_in(f.node) if (dotted(k.func) or "") in ("np.meshgrid", "numpy.meshgrid")]
    need(len(grids) == 1 and len(grids[0].args) == 2, "C13.R7: the two-axis meshgrid of _centered_patch was not found")
    inside = set()
    for axis, a in enumerate(grids[0].args):
        idx = set()
        for x in ast.walk(a):
            inside.add(id(x))
            if isinstance(x, ast.Subscript) and isinstance(x.value, ast.Name) and x.value.id == ps:
                idx.add(const_value(x.slice))
        r.check(idx == {axis}, f, a, "axis %d of the sampling grid is built from %s%s: a non-square patch is sampled on the wrong grid" % (axis, ps, sorted(idx, key=str)), {"axis": axis, "reads": sorted(idx, key=str)})
    per_stmt = {}
    for x in walk_own(f.node):
        if isinstance(x, ast.Subscript) and id(x) not in inside and isinstance(x.value, ast.Name) and x.value.id == ps and const_value(x.slice) is not None \
                and not isinstance(stmt_of(x), ast.Assert):
            per_stmt.setdefault(id(stmt_of(x)), []).append(x)
    for xs in per_stmt.values():
        if {const_value(x.slice) for x in xs} >= {0, 1}:
            continue  # both axes spelled out side by side
        x = xs[0]
        r.violation(f, x, "`%s` takes one axis of the patch shape for a quantity that is applied to both axes (`%s`): for a patch whose height and width differ in parity the "
                    "sampling locations of the other axis are half a pixel off, so the resampling path disagrees with the slicing path" % (norm(x), norm(stmt_of(x))[:60]))
    hp = [n for n in walk_own(f.node) if isinstance(n, ast.Assign) and "% 2" in norm(n.value)]
    need(len(hp) == 1, "C13.R7: the half-pixel shift for odd sizes was not found")
    r.check(any(isinstance(x, ast.Name) and x.id == ps for x in ast.walk(hp[0].value)), f, hp[0], "the half-pixel shift must be computed per axis from the patch shape")


# rules of sibling properties over code paths this property's statement also quantifies over (DESIGN.md section 3, shared rules)
ALSO = ['C01.R3', 'C01.R4']

_DTYPE_KEEPING_METHODS = ("reshape", "copy", "view", "squeeze", "ravel", "transpose", "swapaxes")
_DTYPE_KEEPING_FUNCS = ("np.reshape", "np.ascontiguousarray", "np.asarray", "np.nan_to_num", "np.squeeze", "np.rollaxis", "np.moveaxis")


def _is_float_const(e):
    v = const_value(e) if not isinstance(e, ast.Constant) else e.value
    if isinstance(e, ast.UnaryOp) and isinstance(e.operand, ast.Constant):
        v = e.operand.value
    return isinstance(v, float) or (isinstance(e, ast.Attribute) and e.attr in ("nan", "inf")) or \
        (isinstance(e, ast.Call) and (dotted(e.func) or "") in ("float", "np.float64", "np.float32"))


def rule_r8(p, res):
    r = res.rule("C13.R8", "warp_to_shape (which every crop goes through) hands the sampled buffer on in the source dtype: between self.sample(...) and "
                 "the image builder it is only reshaped / scrubbed in place, never rebuilt by an expression that promotes integer samples to float")
    f = p.method("Image", "warp_to_shape")
    r.instance(f)
    assigns = {}
    for n in walk_own(f.node):
        if isinstance(n, ast.Assign) and len(n.targets) == 1 and isinstance(n.targets[0], ast.Name):
            assigns.setdefault(n.targets[0].id, []).append(n)
    build = [c for c in calls_in(f.node) if isinstance(c.func, ast.Attribute) and c.func.attr == "_build_warp_to_shape"]
    need(len(build) == 1 and build[0].args and isinstance(build[0].args[0], ast.Name), "C13.R8: warp_to_shape no longer funnels a named buffer into _build_warp_to_shape")
    reached_sample = [False]
    seen = set()

    def trace(e, at):
        """e must evaluate to the sampled buffer in its own dtype"""
        if isinstance(e, ast.Name):
            if e.id in seen:
                return
            seen.add(e.id)
            need(e.id in assigns, "C13.R8: `%s` has no simple assignment in warp_to_shape" % e.id)
            for a in assigns[e.id]:
                trace(a.value, a)
            return
        if isinstance(e, ast.Subscript):
            return trace(e.value, at)
        if isinstance(e, ast.Call):
            nm = dotted(e.func) or ""
            if isinstance(e.func, ast.Attribute) and e.func.attr == "sample" and norm(e.func.value) == "self":
                reached_sample[0] = True
                return
            if nm == "cv2_perspective_interpolation":
                return
            if isinstance(e.func, ast.Attribute) and e.func.attr in _DTYPE_KEEPING_METHODS and not nm.startswith("np."):
                return trace(e.func.value, at)
            if nm in _DTYPE_KEEPING_FUNCS and e.args:
                if kwarg(e, "dtype") is not None:
                    r.violation(f, at, "`%s(..., dtype=...)` re-types the sampled buffer: crops of this image no longer come back in the source dtype" % nm)
                    return
                return trace(e.args[0], at)
            if isinstance(e.func, ast.Attribute) and e.func.attr == "astype":
                r.violation(f, at, "`.astype(...)` on the sampled buffer: crops no longer come back in the source dtype")
                return
            if nm == "np.where" and len(e.args) == 3:
                vals = e.args[1:]
                fl = [v for v in vals if _is_float_const(v)]
                if fl:
                    r.violation(f, at, "`np.where(..., %s, ...)` promotes integer samples to float64 (the in-place scrub `sampled[np.isnan(sampled)] = 0` keeps the "
                                "dtype): every crop of an integer image comes back as float" % norm(fl[0]))
                    return
                arrs = [v for v in vals if not isinstance(v, ast.Constant)]
                need(len(arrs) == 1, "C13.R8: np.where with two array branches at line %d" % at.lineno)
                return trace(arrs[0], at)
            raise AnalysisError("C13.R8: cannot tell whether `%s` keeps the dtype of the sampled buffer (line %d)" % (nm or norm(e.func), at.lineno))
        if isinstance(e, ast.BinOp):
            if _is_float_const(e.left) or _is_float_const(e.right) or isinstance(e.op, ast.Div):
                r.violation(f, at, "arithmetic `%s` with a float operand / true division promotes integer samples to float: crops lose the source dtype" % norm(e)[:60])
                return
            raise AnalysisError("C13.R8: arithmetic on the sampled buffer at line %d" % at.lineno)
        raise AnalysisError("C13.R8: unrecognised expression feeding the warped pixels at line %d: %s" % (at.lineno, norm(e)[:60]))

    trace(build[0].args[0], build[0])
    need(reached_sample[0], "C13.R8: the warped pixels no longer derive from self.sample(...)")
    # in-place scrubs may only store integers-compatible constants that cannot change the dtype (a store never changes it) -- recorded for evidence
    r.check(True, f, f.node, "")


RULES = [rule_r1, rule_r2, rule_r3, rule_r4, rule_r5, rule_r6, rule_r7, rule_r8]

_CROP_FIXED_GUARD = "if not (constrain_to_boundary or (all_max_bounded and all_min_bounded)):"
WITNESSES = [
    Witness("C13.W1", "menpo/image/base.py", "Image.crop", "(all_max_bounded and all_min_bounded)", "all_max_bounded or all_min_bounded",
            rule="C13.R1", construct="Image.crop", note="reverts the repair of finding #8"),
    Witness("C13.W2", "menpo/image/base.py", "Image.crop", "min_indices = np.floor(min_indices)\n    max_indices = np.ceil(max_indices)",
            "min_indices = np.ceil(min_indices)\n    max_indices = np.floor(max_indices)", rule="C13.R2", construct="Image.crop"),
    Witness("C13.W3", "menpo/image/patches.py", "extract_patches_by_sampling", "patches.reshape(pixels.shape[0], ", "patches.reshape(3, ",
            rule="C13.R3", construct="extract_patches_by_sampling", note="reverts the repair of finding #9"),
    Witness("C13.W4", "menpo/image/patches.py", "extract_patches_by_sampling", "[3, 4, 0, 1, 2]", "[4, 3, 0, 1, 2]",
            rule="C13.R4", construct="extract_patches_by_sampling"),
    Witness("C13.W5", "menpo/image/base.py", "Image.extract_patches", "offsets=sample_offsets, cval=cval)", "offsets=sample_offsets)",
            rule="C13.R5", construct="Image.extract_patches"),
    Witness("C13.W6", "menpo/image/patches.py", "extract_patches_with_slice", "fill_value=cval", "fill_value=0",
            rule="C13.R5", construct="extract_patches_with_slice"),
    Witness("C13.W7", "menpo/image/base.py", "Image.crop", "Translation(min_bounded)", "Translation(min_indices)", rule="C13.R2", construct="Image.crop"),
    Witness("C13.W8", "menpo/image/base.py", "Image.extract_patches", "if order == 0 and mode == 'constant':", "if mode == 'constant':",
            rule="C13.R5", construct="Image.extract_patches"),
    Witness("C13.W9", "menpo/image/patches.py", "extract_patches_with_slice", "np.clip(bounds, [0, 0], [pixels.shape[1:]])", "np.clip(bounds, [0, 0], [np.array(pixels.shape[1:]) - 1])",
            rule="C13.R6", construct="extract_patches_with_slice", note="seeded change R2-C13-A"),
    Witness("C13.W10", "menpo/image/patches.py", "set_patches", "p = point + offset[0]", "p = point - offset[0]", rule="C13.R6", construct="set_patches", note="seeded change R2-C13-B"),
    Witness("C13.T1", "menpo/image/base.py", "Image.crop",
            "if not (constrain_to_boundary or (all_max_bounded and all_min_bounded)):",
            "if not constrain_to_boundary and (not (all_max_bounded and all_min_bounded)):", kind="T"),
    Witness("C13.T2", "menpo/image/patches.py", "extract_patches_by_sampling", "patches.reshape(pixels.shape[0], ",
            "patches.reshape(n_channels, ", kind="T", note="paired with a local definition below"),
]
# the second twin needs the local to exist: rewrite it as a two-step edit on the same function
WITNESSES[-1] = Witness("C13.T2", "menpo/image/patches.py", "extract_patches_by_sampling",
                        "n_points = patch_centers.shape[0]", "n_points = patch_centers.shape[0]\n    n_chan = pixels.shape[0]", kind="T")

WITNESSES += [
    Witness("C13.W11", "menpo/image/patches.py", "_centered_patch", "half_pixel = np.array([patch_shape]) % 2 / 2", "half_pixel = np.array(patch_shape[0]) % 2 / 2",
            rule="C13.R7", construct="_centered_patch", note="seeded change R3-C13-B"),
    Witness("C13.T3", "menpo/image/patches.py", "_centered_patch", "half_pixel = np.array([patch_shape]) % 2 / 2", "half_pixel = np.array([[patch_shape[0] % 2, patch_shape[1] % 2]]) / 2", kind="T"),
]

WITNESSES += [
    Witness("C13.W12", "menpo/image/base.py", "Image.resize", "order=order, warp_landmarks=warp_landmarks", "warp_landmarks=warp_landmarks",
            rule="C13.G4", construct="resize", note="generic: an option dropped from one forwarding call"),
    Witness("C13.T5", "menpo/image/base.py", "Image.resize", "order=order, warp_landmarks=warp_landmarks", "warp_landmarks=warp_landmarks, order=int(order)", kind="T"),
]

WITNESSES += [
    Witness("C13.W13", "menpo/image/boolean.py", "BooleanImage.bounds_true", "if constrain_to_bounds:", "if not constrain_to_bounds:", rule="C13.G8", construct="bounds_true", note="seeded change R5-C13-A (generic: option polarity)"),
]

WITNESSES += [
    Witness("C13.W14", "menpo/image/base.py", "Image.warp_to_shape", "sampled[np.isnan(sampled)] = 0", "sampled = np.where(np.isnan(sampled), 0.0, sampled)",
            rule="C13.R8", construct="warp_to_shape", note="seeded change R4-C13-C (float literal promotes integer crops to float64)"),
    Witness("C13.T6", "menpo/image/base.py", "Image.warp_to_shape", "sampled[np.isnan(sampled)] = 0", "sampled = np.where(np.isnan(sampled), 0, sampled)",
            rule=None, kind="T", note="twin: an integer literal is a weak scalar and keeps the dtype"),
    Witness("C13.W15", "menpo/image/base.py", "Image.warp_to_shape", "warped_pixels = sampled.reshape(", "warped_pixels = sampled.astype(float).reshape(",
            rule="C13.R8", construct="warp_to_shape"),
]
