"""C01 -- image geometry ops keep landmarks and mask registered to pixel content.

 R1 every geometry op of Image / MaskedImage / BooleanImage returns what a funnel (warp_to_shape / warp_to_mask) or
    another op returns; no op builds its result pixels by another route
 R2 in the funnels one transform object samples the pixels, warps the landmarks (through its pseudoinverse) and is returned
 R3 the MaskedImage / BooleanImage funnel overrides call the base funnel with the same transform, warp the mask with
    it and carry the landmarks of the base result
 R4 flags (warp_landmarks, return_transform, order, mode, cval, round, ...) are forwarded to the next call
 R5 rescale builds index-space scale factors from the source shape per axis and the template shape from the same scale
 R6 inversion parity: forward parameters are inverted an odd number of times before reaching a funnel, backward ones even
"""
import ast

from ..loader import AnalysisError, dotted, ClassInfo
from ..astutil import walk_own, calls_in, norm, Defs, leaves, stmt_of, kwarg, need, returns_of, expand, const_value, bind_call
from .. import cfg as cfgmod
from ..calls import CallCtx
from ..variants import Witness

PROP = "C01"
EXPLANATION = (
    "For the 19 geometry ops resolved on each of the three image classes every returned / yielded value is the result of "
    "another op or of a funnel (or self.copy() for pyramid level 0) and no op constructs an image itself; in "
    "Image.warp_to_shape/_build_warp_to_shape/warp_to_mask the one `transform` parameter (never re-bound) produces the "
    "sample points, its pseudoinverse moves the landmarks of the *result* under `warp_landmarks and self.has_landmarks`, "
    "and it is what return_transform returns; the MaskedImage/BooleanImage overrides call the base funnel with the same "
    "template and transform, warp self.mask with them and carry landmarks/path of the base result; every flag an op "
    "declares reaches the next call under the same name (pinned values are a reasoned table); rescale derives its sampling "
    "factors (scale*shape-1)/(shape-1) from self.shape and inverts them once; every forward parameter (scale, theta, "
    "transform, shape, diagonal) is inverted an odd number of times on its way to a funnel, every backward one an even number."
)
NOT_DECIDED = "that each op's map is the intended framing (values of scale factors, matrix literals), interpolated pixel values, shape rounding"
TECHNIQUE = "call-graph funnel check + def-use provenance of the transform object + keyword forwarding + inversion-parity dataflow (static analysis)"

OPS = ["crop", "crop_to_pointcloud", "crop_to_landmarks", "crop_to_pointcloud_proportion", "crop_to_landmarks_proportion", "crop_to_true_mask",
       "rescale", "rescale_to_diagonal", "rescale_to_pointcloud", "rescale_landmarks_to_diagonal_range", "resize", "zoom",
       "rotate_ccw_about_centre", "transform_about_centre", "mirror", "pyramid", "gaussian_pyramid", "warp_to_shape", "warp_to_mask"]
FUNNELS = {"warp_to_shape", "warp_to_mask", "_build_warp_to_shape", "_build_warp_to_mask"}
IMG_CLASSES = ("Image", "MaskedImage", "BooleanImage")
FORWARDED = ("warp_landmarks", "return_transform", "order", "mode", "cval", "round", "constrain_to_boundary", "batch_size", "retain_shape", "degrees", "minimum", "boundary")
# values an op may pin instead of forwarding, one reason each
PINNED = {
    ("crop", "order"): "integer translation: nearest-neighbour copies pixels exactly",
    ("crop", "warp_landmarks"): "a crop always moves the landmarks with the pixels",
    ("rescale", "mode"): "nearest border replication avoids a dark rim when sampling half a pixel outside",
    ("zoom", "mode"): "same as rescale",
    ("mirror", "mode"): "same as rescale",
    ("resize", "round"): "the requested shape is exact, rounding to nearest undoes float error",
}


def ops_of(p):
    out = []
    for cn in IMG_CLASSES:
        c = p.cls(cn)
        for op in OPS:
            f = p.lookup(c, op)
            if f is not None:
                out.append((c, op, f))
    return out


def _result_exprs(f):
    out = []
    for n in walk_own(f.node):
        if isinstance(n, ast.Return) and n.value is not None:
            out.append((n, n.value))
        elif isinstance(n, (ast.Yield,)) and n.value is not None:
            out.append((stmt_of(n), n.value))
    return out


def _base_call_name(e, defs, depth=0):
    """the op/funnel whose result `e` is: ('self', name) / ('base', Class, name) / ('copy',) / None"""
    if depth > 6:
        return None
    if isinstance(e, ast.Tuple) and e.elts:
        return _base_call_name(e.elts[0], defs, depth + 1)
    if isinstance(e, ast.Name):
        outs = set()
        for kind, val, st in defs.of(e.id):
            if kind == "assign":
                outs.add(_base_call_name(val, defs, depth + 1))
            elif kind == "unpack":
                outs.add(_base_call_name(val[0], defs, depth + 1))
            else:
                outs.add(None)
        outs.discard(("copy",)) if len(outs) > 1 else None
        if len(outs) == 1:
            return outs.pop()
        if outs and all(o is not None for o in outs):
            return sorted(outs, key=str)[0]
        return None
    if isinstance(e, ast.Call) and isinstance(e.func, ast.Attribute):
        name = e.func.attr
        recv = e.func.value
        if name == "copy" and norm(recv) == "self":
            return ("copy",)
        if name in OPS or name in FUNNELS:
            d = dotted(recv)
            if d in IMG_CLASSES:
                return ("base", d, name)
            return ("self", name)
        if name in ("as_masked", "as_unmasked"):
            return _base_call_name(recv, defs, depth + 1)
    return None


def rule_r1(p, res):
    r = res.rule("C01.R1", "every geometry op returns the result of a funnel or of another op; nothing else builds result pixels")
    n = 0
    for c, op, f in ops_of(p):
        n += 1
        r.instance("%s@%s" % (f.short, c.name))
        defs = Defs(f.node)
        results = _result_exprs(f)
        need(results, "C01.R1: %s has no return/yield" % f.short)
        for st, e in results:
            if f.cls.name == "BooleanImage" and op == "warp_to_shape":
                # the override rebuilds a BooleanImage from the base funnel's pixels (checked in R3)
                continue
            b = _base_call_name(e, defs)
            ok = b is not None
            r.check(ok, f, st, "%s returns `%s`, which is not the result of a warp funnel or of another geometry op: pixels, landmarks and mask are no longer "
                    "moved by one mapping" % (f.short, norm(e)[:60]), {"op": f.short, "returns": norm(e)[:50], "via": b})
        if op not in FUNNELS:
            ctx = CallCtx(p, f, c)
            for k in calls_in(f.node):
                kc = ctx.class_constructed(k)
                if isinstance(kc, ClassInfo) and kc.name in IMG_CLASSES:
                    r.violation(f, k, "%s constructs a %s itself instead of going through the warp funnel: its landmarks / mask are not registered with the new pixels" % (f.short, kc.name))
            for x in walk_own(f.node):
                if isinstance(x, ast.Subscript) and norm(x.value) in ("self.pixels", "self.mask.pixels", "self.mask.mask") and isinstance(x.ctx, ast.Load):
                    r.violation(f, x, "%s slices the pixel array directly (`%s`)" % (f.short, norm(x)[:40]))
    if n < 3 * 18:
        raise AnalysisError("C01.R1: only %d op resolutions (floor 54)" % n)


def _check_landmark_block(r, f, result_name, tr):
    """landmark warp: result.landmarks = self.landmarks ; tr.pseudoinverse()._apply_inplace(result.landmarks) under warp_landmarks and self.has_landmarks"""
    g = cfgmod.build(f.node)
    sets = [n for n in walk_own(f.node) if isinstance(n, ast.Assign) and norm(n.targets[0]) == "%s.landmarks" % result_name]
    warps = [k for k in calls_in(f.node) if isinstance(k.func, ast.Attribute) and k.func.attr in ("_apply_inplace", "apply_inplace")]
    ok = len(sets) == 1 and norm(sets[0].value) == "self.landmarks"
    r.check(ok, f, sets[0] if sets else f.node, "%s: the landmarks being warped must be a copy attached to the result (`%s.landmarks = self.landmarks`)" % (f.short, result_name))
    okw = len(warps) == 1 and norm(warps[0].func.value) == "%s.pseudoinverse()" % tr and [norm(a) for a in warps[0].args] == ["%s.landmarks" % result_name]
    r.check(okw, f, warps[0] if warps else f.node, "%s: landmarks must be moved by the pseudoinverse of the very transform that sampled the pixels, applied to the result's landmarks "
            "(found `%s`)" % (f.short, norm(warps[0])[:70] if warps else None), {"function": f.short, "landmark_warp": norm(warps[0])[:70] if warps else None})
    if ok and okw:
        for st in (sets[0], stmt_of(warps[0])):
            gs = [(norm(t), pol) for t, pol in g.guards(st) if "landmarks" in norm(t)]
            r.check(gs == [("warp_landmarks and self.has_landmarks", True)], f, st, "%s: the landmark warp must happen exactly when warp_landmarks is set and landmarks exist (guards %s)" % (f.short, gs))
        r.check(g.reaches(sets[0], stmt_of(warps[0])) and not g.reaches(stmt_of(warps[0]), sets[0]), f, sets[0], "landmarks must be attached before being warped")
        # on every path on which the guard holds, the warp happens before returning
        ifn = [n for n in walk_own(f.node) if isinstance(n, ast.If) and norm(n.test) == "warp_landmarks and self.has_landmarks"]
        if ifn:
            avoid_edges = {(nid, "F") for nid in g.nodes(ifn[0])}
            reach = g.reachable(avoid=g._ids([stmt_of(warps[0])]), avoid_edges=avoid_edges)
            r.check(cfgmod.RETURN not in reach, f, ifn[0], "%s can return without warping the landmarks although requested" % f.short)
    # the transform parameter is never re-bound and is what is returned
    d = Defs(f.node)
    r.check(len(d.of(tr)) == 1 and d.of(tr)[0][0] == "param", f, f.node, "%s re-binds `%s`: pixels and landmarks would be driven by different transforms" % (f.short, tr))
    for ret in returns_of(f.node):
        if isinstance(ret.value, ast.Tuple):
            gs = [(norm(t), pol) for t, pol in g.guards(ret)]
            r.check([norm(x) for x in ret.value.elts] == [result_name, tr] and ("return_transform", True) in gs, f, ret,
                    "%s must return the transform it used, exactly when return_transform is set (found %s under %s)" % (f.short, norm(ret.value), gs))
        else:
            r.check(norm(ret.value) == result_name, f, ret, "%s must return the warped image" % f.short)


def expand_name(name, d):
    v = d.single(name)
    return norm(expand(ast.Name(id=name, ctx=ast.Load()), d)) if v is not None else name


def rule_r2(p, res):
    r = res.rule("C01.R2", "funnels: one transform samples the pixels, warps the landmarks and is returned")
    ws = p.own_method("Image", "warp_to_shape")
    bw = p.own_method("Image", "_build_warp_to_shape")
    wm = p.own_method("Image", "warp_to_mask")
    for f in (ws, bw, wm):
        r.instance(f)
    tr = ws.params[2]
    d = Defs(ws.node)
    r.check(len(d.of(tr)) == 1, ws, ws.node, "warp_to_shape re-binds its transform")
    # sampling
    samp = [k for k in calls_in(ws.node) if norm(k.func) == "%s.apply" % tr]
    cv = [k for k in calls_in(ws.node) if (dotted(k.func) or "") == "cv2_perspective_interpolation"]
    r.check(len(samp) == 1 and norm(expand(samp[0].args[0], d)) == "indices_for_image_of_shape(%s)" % expand_name(ws.params[1], d), ws, ws.node,
            "the sample points must be the transform applied to the pixel indices of the template shape")
    r.check(len(cv) == 1 and [norm(a) for a in cv[0].args[:3]] == ["self.pixels", ws.params[1], tr], ws, ws.node, "the fast path must warp self.pixels to the template shape with the same transform")
    sm = [k for k in calls_in(ws.node) if norm(k.func) == "self.sample"]
    r.check(len(sm) == 1 and any(isinstance(x, ast.Call) and norm(x.func) == "%s.apply" % tr for x in ast.walk(expand(sm[0].args[0], d))), ws, ws.node,
            "the pixels must be sampled at the transformed template points")
    for k in cv + sm:
        for kw in ("order", "mode", "cval"):
            v = kwarg(k, kw)
            r.check(v is not None and norm(v) == kw, ws, k, "warp_to_shape must pass %s to the sampler" % kw)
    rs = [n for n in walk_own(ws.node) if isinstance(n, ast.Assign) and norm(n.targets[0]) == "warped_pixels" and "reshape" in norm(n.value)]
    r.check(len(rs) == 1 and norm(rs[0].value) == "sampled.reshape((self.n_channels,) + tuple(%s))" % ws.params[1], ws, ws.node, "sampled values must be laid out as (channels,) + template shape")
    rets = returns_of(ws.node)
    okr = len(rets) == 1 and isinstance(rets[0].value, ast.Call) and norm(rets[0].value.func) == "self._build_warp_to_shape"
    r.check(okr, ws, ws.node, "warp_to_shape must finish through _build_warp_to_shape")
    if okr:
        b = bind_call(rets[0].value, bw, skip_self=True)
        want = {bw.params[1]: "warped_pixels", bw.params[2]: tr, bw.params[3]: "warp_landmarks", bw.params[4]: "return_transform"}
        got = {k: norm(v) for k, v in b.items() if isinstance(v, ast.AST)}
        r.check(got == want, ws, rets[0], "the builder must receive the warped pixels, the same transform and both flags (found %s)" % got, {"builder_args": got})
    smp = p.own_method("Image", "sample")
    r.instance(smp)
    pts = smp.params[1]
    rs = returns_of(smp.node)
    oks = len(rs) == 1 and isinstance(rs[0].value, ast.Call) and (dotted(rs[0].value.func) or "") == "scipy_interpolation" and [norm(a) for a in rs[0].value.args[:2]] == ["self.pixels", pts]
    r.check(oks, smp, smp.node, "Image.sample must interpolate self.pixels at the given points")
    for kind, val, st in Defs(smp.node).of(pts):
        if kind == "assign":
            r.check(norm(val) == "%s.points" % pts, smp, st, "Image.sample alters the sample coordinates (`%s`) before interpolating: pixels are then taken from other positions than the ones the "
                    "landmarks and the returned transform refer to" % norm(st)[:60], {"sample_points": norm(val)})
    if oks:
        for kw in ("order", "mode", "cval"):
            v_ = kwarg(rs[0].value, kw)
            r.check(v_ is not None and norm(v_) == kw, smp, rs[0], "Image.sample must pass %s to the interpolator" % kw)
    _check_landmark_block(r, bw, "warped_image", bw.params[2])
    v = Defs(bw.node).single("warped_image")
    r.check(v is not None and norm(v) == "Image(%s, copy=False)" % bw.params[1], bw, bw.node, "the result image must wrap the warped pixels")
    # warp_to_mask
    trm = wm.params[2]
    dm = Defs(wm.node)
    r.check(norm(dm.single("template_points")) == "%s.true_indices()" % wm.params[1], wm, wm.node, "template points of a mask warp are the mask's true indices")
    pts = dm.single("points_to_sample")
    r.check(pts is not None and norm(pts) == "%s.apply(template_points, batch_size=batch_size)" % trm, wm, wm.node, "mask warp must sample at transform(template points)")
    sm = [k for k in calls_in(wm.node) if norm(k.func) == "self.sample"]
    r.check(len(sm) == 1 and norm(sm[0].args[0]) == "points_to_sample" and all(kwarg(sm[0], q) is not None and norm(kwarg(sm[0], q)) == q for q in ("order", "mode", "cval")), wm, wm.node,
            "mask warp must sample with the caller's order / mode / cval")
    bm = dm.single("warped_image")
    r.check(bm is not None and norm(bm) == "self._build_warp_to_mask(%s, sampled)" % wm.params[1], wm, wm.node, "the result must be built on the template mask from the sampled values")
    _check_landmark_block(r, wm, "warped_image", trm)
    r.check(any(pol and norm(t) == "self.n_dims != %s.n_dims" % trm for n in walk_own(wm.node) if isinstance(n, ast.Raise) for t, pol in cfgmod.build(wm.node).guards(n)), wm, wm.node,
            "a transform of another dimensionality must be refused")


def rule_r3(p, res):
    r = res.rule("C01.R3", "masked / boolean funnel overrides: same template and transform for pixels and mask; landmarks of the base result carried")
    mws = p.own_method("MaskedImage", "warp_to_shape")
    r.instance(mws)
    tshape, tr = mws.params[1], mws.params[2]
    d = Defs(mws.node)
    base = [k for k in calls_in(mws.node) if norm(k.func) == "Image.warp_to_shape"]
    need(len(base) == 1, "C01.R3: MaskedImage.warp_to_shape must call Image.warp_to_shape once")
    r.check([norm(a) for a in base[0].args[:3]] == ["self", tshape, tr], mws, base[0], "the pixels must be warped with the caller's template shape and transform")
    for kw in ("warp_landmarks", "order", "mode", "cval", "batch_size"):
        v = kwarg(base[0], kw)
        r.check(v is not None and norm(v) == kw, mws, base[0], "MaskedImage.warp_to_shape must forward %s to the base funnel" % kw, {"override": mws.short, "forwards": kw})
    mk = [k for k in calls_in(mws.node) if norm(k.func) == "self.mask.warp_to_shape"]
    r.check(len(mk) == 1 and [norm(a) for a in mk[0].args[:2]] == [tshape, tr], mws, mk[0] if mk else mws.node,
            "the mask must be warped with the same template shape and the same transform as the pixels (found `%s`)" % (norm(mk[0])[:70] if mk else None),
            {"mask_warp": norm(mk[0])[:70] if mk else None})
    if mk:
        for kw in ("mode", "cval"):
            v = kwarg(mk[0], kw)
            r.check(v is not None and norm(v) == kw, mws, mk[0], "the mask warp must use the caller's %s" % kw)
    res_ = d.single("masked_warped_image")
    r.check(res_ is not None and norm(res_) == "warped_image.as_masked(copy=False, mask=mask)" and norm(d.single("warped_image")) .startswith("Image.warp_to_shape(") and d.single("mask") is (mk[0] if mk else None),
            mws, mws.node, "the result must be the base funnel's image (with its landmarks) re-wrapped with the warped mask")
    g = cfgmod.build(mws.node)
    for ret in returns_of(mws.node):
        if isinstance(ret.value, ast.Tuple):
            r.check([norm(x) for x in ret.value.elts] == ["masked_warped_image", tr] and ("return_transform", True) in [(norm(t), pol) for t, pol in g.guards(ret)], mws, ret,
                    "the transform returned must be the one used")
        else:
            r.check(norm(ret.value) == "masked_warped_image", mws, ret, "MaskedImage.warp_to_shape must return the masked result")
    r.check(len(d.of(tr)) == 1 and len(d.of(tshape)) == 1, mws, mws.node, "template shape / transform must not be re-bound between warping the pixels and the mask")
    am = p.own_method("Image", "as_masked")
    r.instance(am)
    r.check(norm(returns_of(am.node)[0].value) == "copy_landmarks_and_path(self, MaskedImage(self.pixels, copy=copy, mask=mask))", am, am.node, "as_masked must carry landmarks and path over")
    clp = p.func("menpo.base.copy_landmarks_and_path")
    r.instance(clp)
    s = norm(clp.node)
    r.check("if source.has_landmarks:\n        target.landmarks = source.landmarks" in s and "return target" in s, clp, clp.node, "copy_landmarks_and_path must attach the source's landmarks to the target")
    # MaskedImage.warp_to_mask
    mwm = p.own_method("MaskedImage", "warp_to_mask")
    r.instance(mwm)
    tm, trm = mwm.params[1], mwm.params[2]
    base = [k for k in calls_in(mwm.node) if norm(k.func) == "Image.warp_to_mask"]
    need(len(base) == 1, "C01.R3: MaskedImage.warp_to_mask must call Image.warp_to_mask once")
    r.check([norm(a) for a in base[0].args[:3]] == ["self", tm, trm], mwm, base[0], "the base mask warp must receive the same template mask and transform")
    for kw in ("warp_landmarks", "order", "mode", "cval", "batch_size"):
        v = kwarg(base[0], kw)
        r.check(v is not None and norm(v) == kw, mwm, base[0], "MaskedImage.warp_to_mask must forward %s" % kw)
    st = [n for n in walk_own(mwm.node) if isinstance(n, ast.Assign) and norm(n.targets[0]) == "warped_image.mask"]
    r.check(len(st) == 1 and norm(st[0].value) == tm, mwm, mwm.node, "the result of a masked warp_to_mask carries the template mask")
    for ret in returns_of(mwm.node):
        if isinstance(ret.value, ast.Tuple):
            r.check([norm(x) for x in ret.value.elts] == ["warped_image", trm], mwm, ret, "the transform returned must be the one used")
    # BooleanImage
    bws = p.own_method("BooleanImage", "warp_to_shape")
    r.instance(bws)
    tshape, tr = bws.params[1], bws.params[2]
    d = Defs(bws.node)
    base = [k for k in calls_in(bws.node) if norm(k.func) == "Image.warp_to_shape"]
    need(len(base) == 1, "C01.R3: BooleanImage.warp_to_shape must call Image.warp_to_shape once")
    r.check([norm(a) for a in base[0].args[:3]] == ["self", tshape, tr], bws, base[0], "the boolean pixels must be warped with the caller's template shape and transform")
    for kw in ("warp_landmarks", "mode", "cval", "batch_size"):
        v = kwarg(base[0], kw)
        r.check(v is not None and norm(v) == kw, bws, base[0], "BooleanImage.warp_to_shape must forward %s" % kw)
    o = kwarg(base[0], "order")
    r.check(o is not None and const_value(o) == 0, bws, base[0], "a boolean mask is always warped with nearest-neighbour sampling (order=0)")
    bi = d.single("boolean_image")
    r.check(bi is not None and norm(bi) == "BooleanImage(warped.pixels.reshape(%s))" % tshape, bws, bws.node, "the boolean result must be built from the base funnel's pixels")
    g = cfgmod.build(bws.node)
    lm = [n for n in walk_own(bws.node) if isinstance(n, ast.Assign) and norm(n.targets[0]) == "boolean_image.landmarks"]
    ok = len(lm) == 1 and norm(lm[0].value) == "warped.landmarks" and [(norm(t), pol) for t, pol in g.guards(lm[0])] == [("warped.has_landmarks", True)]
    r.check(ok, bws, lm[0] if lm else bws.node, "the (already warped) landmarks of the base result must be re-attached to the boolean result")
    if ok:
        ifn = [n for n in walk_own(bws.node) if isinstance(n, ast.If) and norm(n.test) == "warped.has_landmarks"][0]
        reach = g.reachable(avoid=g._ids([lm[0]]), avoid_edges={(nid, "F") for nid in g.nodes(ifn)})
        r.check(cfgmod.RETURN not in reach, bws, ifn, "a boolean image can be returned without the warped landmarks")
    for ret in returns_of(bws.node):
        if isinstance(ret.value, ast.Tuple):
            r.check([norm(x) for x in ret.value.elts] == ["boolean_image", tr], bws, ret, "the transform returned must be the one used")
        else:
            r.check(norm(ret.value) == "boolean_image", bws, ret, "BooleanImage.warp_to_shape must return the boolean result")
    bwm = p.own_method("BooleanImage", "warp_to_mask")
    r.instance(bwm)
    rets = returns_of(bwm.node)
    okb = len(rets) == 1 and isinstance(rets[0].value, ast.Call) and norm(rets[0].value.func) == "Image.warp_to_mask" and [norm(a) for a in rets[0].value.args[:3]] == ["self", bwm.params[1], bwm.params[2]]
    r.check(okb, bwm, bwm.node, "BooleanImage.warp_to_mask must delegate to the base funnel with the same mask and transform")
    if okb:
        for kw in ("warp_landmarks", "mode", "cval", "batch_size", "return_transform"):
            v = kwarg(rets[0].value, kw)
            r.check(v is not None and norm(v) == kw, bwm, rets[0], "BooleanImage.warp_to_mask must forward %s" % kw)
    # no further overrides of the funnels
    for cn in ("MaskedImage", "BooleanImage"):
        c = p.cls(cn)
        for m in ("_build_warp_to_shape",):
            if m in c.methods:
                r.violation(c.methods[m], c.methods[m].node, "%s overrides %s: the landmark warp of the funnel is bypassed" % (cn, m))


def _delegate_calls(f):
    out = []
    for k in calls_in(f.node):
        if isinstance(k.func, ast.Attribute) and (k.func.attr in OPS or k.func.attr in FUNNELS):
            out.append(k)
    return out


def rule_r4(p, res):
    r = res.rule("C01.R4", "declared flags reach the next op / funnel under the same name (pinned values are a reasoned table)")
    seen = set()
    for c, op, f in ops_of(p):
        if f in seen or op in ("warp_to_shape", "warp_to_mask"):
            continue
        seen.add(f)
        r.instance(f)
        dels = _delegate_calls(f)
        if not dels:
            raise AnalysisError("C01.R4: %s has no delegate call" % f.short)
        defs = Defs(f.node)
        for prm in f.params[1:]:
            if prm not in FORWARDED:
                continue
            consumed = False
            forwarded = False
            for k in dels:
                v = kwarg(k, prm)
                if v is not None and ("param:" + prm) in leaves(v, defs):
                    forwarded = True
            # consumed in the body (round -> round_image_shape, constrain_to_boundary -> guard, retain_shape / minimum -> branch, degrees/boundary -> helper argument)
            for n in walk_own(f.node):
                if isinstance(n, ast.Name) and n.id == prm and isinstance(n.ctx, ast.Load):
                    par = getattr(n, "_parent", None)
                    if isinstance(par, ast.keyword) and any(par in k.keywords for k in dels):
                        continue
                    consumed = True
            r.check(forwarded or consumed, f, dels[0], "%s declares `%s` but neither forwards it to `%s` nor uses it: the caller's choice is silently ignored"
                    % (f.short, prm, norm(dels[0].func)), {"op": f.short, "param": prm, "forwarded": forwarded, "consumed": consumed})
        # keywords of the delegate that the op declares must not be pinned to a constant unless tabled
        for k in dels:
            for kw in k.keywords:
                if kw.arg in f.params and kw.arg in FORWARDED and isinstance(kw.value, ast.Constant):
                    r.violation(f, k, "%s declares `%s` but passes the constant %r on" % (f.short, kw.arg, kw.value.value))
                if kw.arg not in f.params and kw.arg in FORWARDED and isinstance(kw.value, ast.Constant) and kw.arg in ("order", "warp_landmarks", "mode", "round"):
                    if (op if f.name == op else f.name, kw.arg) not in PINNED and (f.name, kw.arg) not in PINNED:
                        r.violation(f, k, "%s pins %s=%r for its delegate without a documented reason" % (f.short, kw.arg, kw.value.value))
                    else:
                        r.ok({"op": f.short, "pinned": "%s=%r" % (kw.arg, kw.value.value), "reason": PINNED[(f.name, kw.arg)]})
    r.floor(17, "op bodies")


def rule_r5(p, res):
    r = res.rule("C01.R5", "rescale: index-space factors from the source shape, inverted once; template shape from the same scale")
    f = p.own_method("Image", "rescale")
    r.instance(f)
    d = Defs(f.node)
    sf = d.single("scale_factors")
    sh = d.single("shape")
    r.check(sh is not None and norm(sh) in ("np.array(self.shape, dtype=float)", "np.asarray(self.shape, dtype=float)"), f, f.node, "the source extent must be self.shape (as floats)")
    ok = isinstance(sf, ast.BinOp) and isinstance(sf.op, ast.Div)
    if ok:
        num, den = sf.left, sf.right
        okn = isinstance(num, ast.BinOp) and isinstance(num.op, ast.Sub) and const_value(num.right) == 1 and isinstance(num.left, ast.BinOp) and isinstance(num.left.op, ast.Mult) \
            and {norm(num.left.left), norm(num.left.right)} == {"scale", "shape"}
        okd = isinstance(den, ast.BinOp) and isinstance(den.op, ast.Sub) and const_value(den.right) == 1 and norm(den.left) == "shape"
        ok = okn and okd
    r.check(ok, f, f.node, "sampling factors must scale pixel centres: (scale * shape - 1) / (shape - 1) per axis (found `%s`)" % (norm(sf) if sf is not None else None),
            {"scale_factors": norm(sf) if sf is not None else None})
    inv = d.single("inverse_transform")
    r.check(inv is not None and norm(inv) == "NonUniformScale(scale_factors).pseudoinverse()", f, f.node, "the sampling transform is the inverse of the per-axis scale")
    tsh = d.single("template_shape")
    tr = d.single("transform")
    r.check(tsh is not None and norm(tsh) == "round_image_shape(transform.apply(self.shape), round)" and tr is not None and norm(tr) == "NonUniformScale(scale)", f, f.node,
            "the output shape must be the rounded scaled source shape")
    w = [k for k in calls_in(f.node) if norm(k.func) == "self.warp_to_shape"]
    r.check(len(w) == 1 and [norm(a) for a in w[0].args[:2]] == ["template_shape", "inverse_transform"], f, f.node, "rescale must warp to the template shape with the inverse scale")
    g = cfgmod.build(f.node)
    r.check(any(any(pol and norm(t) == "s <= 0" for t, pol in g.guards(n)) for n in walk_own(f.node) if isinstance(n, ast.Raise)), f, f.node, "non-positive scales must be refused")
    ri = p.func("menpo.image.base.round_image_shape")
    r.instance(ri)
    s = norm(ri.node)
    r.check("round not in ['ceil', 'round', 'floor']" in s and "tuple(getattr(np, round)(shape).astype(int))" in s, ri, ri.node, "round_image_shape must apply the named numpy rounding")
    rz = p.own_method("Image", "resize")
    r.instance(rz)
    dz = Defs(rz.node)
    sc = dz.single("scales")
    r.check(sc is not None and norm(sc) == "shape / self.shape", rz, rz.node, "resize: per-axis scale = requested shape / current shape")
    rd = p.own_method("Image", "rescale_to_diagonal")
    r.instance(rd)
    k = [x for x in calls_in(rd.node) if norm(x.func) == "self.rescale"]
    r.check(len(k) == 1 and norm(k[0].args[0]) == "%s / self.diagonal()" % rd.params[1], rd, rd.node, "rescale_to_diagonal: scale = requested diagonal / current diagonal")


# ---------------------------------------------------------------------- R6
FORWARDING_CALLS = {"scale_about_centre", "transform_about_centre", "rotate_ccw_about_centre", "shear_about_centre", "NonUniformScale", "UniformScale", "Translation",
                    "Rotation.init_from_2d_ccw_angle", "np.asarray", "np.array", "np.sqrt", "round_image_shape", "AlignmentUniformScale", "gaussian_filter", "np.floor", "np.ceil", "np.round", "reduce"}
FORWARDING_METHODS = {"compose_before", "compose_after", "apply", "copy", "as_vector", "bounds", "range", "constrain_points_to_bounds"}


def parity(e, prm, defs, seen=None, depth=0):
    """set of inversion parities over all def-use paths from expression e down to parameter prm"""
    seen = seen if seen is not None else set()
    if depth > 30:
        raise AnalysisError("C01.R6: chain too deep")
    out = set()
    if isinstance(e, ast.Name):
        if e.id == prm and any(k == "param" for k, _, _ in defs.of(e.id)):
            out.add(0)
        if e.id in seen:
            return out
        for kind, val, st in defs.of(e.id):
            if kind == "assign" and isinstance(val, ast.AST):
                out |= parity(val, prm, defs, seen | {e.id}, depth + 1)
            elif kind == "unpack":
                out |= parity(val[0], prm, defs, seen | {e.id}, depth + 1)
            elif kind == "for" and isinstance(val, ast.AST):
                out |= parity(val, prm, defs, seen | {e.id}, depth + 1)
        return out
    if isinstance(e, ast.BinOp):
        if isinstance(e.op, ast.Div):
            out |= parity(e.left, prm, defs, seen, depth + 1)
            out |= {1 - x for x in parity(e.right, prm, defs, seen, depth + 1)}
            return out
        return parity(e.left, prm, defs, seen, depth + 1) | parity(e.right, prm, defs, seen, depth + 1)
    if isinstance(e, ast.UnaryOp):
        return parity(e.operand, prm, defs, seen, depth + 1)
    if isinstance(e, ast.Call):
        f = e.func
        d = dotted(f) or ""
        sub = set()
        for a in list(e.args) + [k.value for k in e.keywords]:
            sub |= parity(a, prm, defs, seen, depth + 1)
        if isinstance(f, ast.Attribute):
            recv = parity(f.value, prm, defs, seen, depth + 1)
            if f.attr == "pseudoinverse":
                return {1 - x for x in recv}
            if d in ("np.linalg.inv", "numpy.linalg.inv", "np.reciprocal"):
                return {1 - x for x in sub}
            if recv or sub:
                if not (f.attr in FORWARDING_METHODS or d in FORWARDING_CALLS or d.split(".")[-1] in FORWARDING_CALLS or f.attr in OPS or f.attr in ("min", "max", "astype", "diagonal", "norm", "centre")):
                    raise AnalysisError("C01.R6: no inversion summary for `%s` on the chain" % (d or norm(f))[:50])
            return recv | sub
        if sub and not (d in FORWARDING_CALLS or d in ("len", "float", "tuple", "list")):
            raise AnalysisError("C01.R6: no inversion summary for `%s` on the chain" % d)
        return sub
    if isinstance(e, (ast.Tuple, ast.List)):
        for x in e.elts:
            out |= parity(x, prm, defs, seen, depth + 1)
        return out
    if isinstance(e, ast.Subscript):
        return parity(e.value, prm, defs, seen, depth + 1)
    if isinstance(e, ast.Attribute):
        return parity(e.value, prm, defs, seen, depth + 1)
    if isinstance(e, ast.IfExp):
        return parity(e.body, prm, defs, seen, depth + 1) | parity(e.orelse, prm, defs, seen, depth + 1)
    return out


# (op, parameter, delegate, argument position or keyword, required parity)  -- direction table, one reason each
PARITY_TABLE = [
    ("rescale", "scale", "warp_to_shape", 1, 1, "scale is forward (result = scale x source); the funnel takes result->source"),
    ("zoom", "scale", "warp_to_shape", 1, 1, "zoom factor is forward"),
    ("transform_about_centre", "transform", "warp_to_shape", 1, 1, "the given transform maps source to result"),
    ("rotate_ccw_about_centre", "theta", "transform_about_centre", 0, 0, "forward angle handed to a forward parameter"),
    ("resize", "shape", "rescale", 0, 0, "new shape / old shape is a forward scale"),
    ("rescale_to_diagonal", "diagonal", "rescale", 0, 0, "new diagonal / old diagonal is a forward scale"),
    ("rescale_landmarks_to_diagonal_range", "diagonal_range", "rescale", 0, 0, "requested range / current range is a forward scale"),
    ("pyramid", "downscale", "rescale", 0, 1, "a downscale factor is the reciprocal of the forward scale"),
    ("gaussian_pyramid", "downscale", "rescale", 0, 1, "a downscale factor is the reciprocal of the forward scale"),
    ("crop", "min_indices", "warp_to_shape", 1, 0, "the crop origin is already the result->source translation"),
]


def rule_r6(p, res):
    r = res.rule("C01.R6", "inversion parity from each op parameter to the funnel argument")
    for op, prm, delegate, pos, want, why in PARITY_TABLE:
        f = p.own_method("Image", op)
        r.instance("%s.%s" % (op, prm))
        defs = Defs(f.node)
        ks = [k for k in calls_in(f.node) if isinstance(k.func, ast.Attribute) and k.func.attr == delegate]
        need(ks, "C01.R6: %s no longer calls %s" % (f.short, delegate))
        for k in ks:
            need(len(k.args) > pos, "C01.R6: `%s` in %s has no positional argument %d" % (norm(k)[:40], f.short, pos))
            ps = parity(k.args[pos], prm, defs)
            if not ps:
                raise AnalysisError("C01.R6: parameter `%s` of %s does not reach argument %d of %s" % (prm, f.short, pos, delegate))
            r.check(ps == {want}, f, k, "%s: `%s` reaches `%s` after an %s number of inversions but must be inverted an %s number of times (%s): pixels would be "
                    "sampled with the %s map" % (f.short, prm, norm(k.func), "/".join("odd" if x else "even" for x in sorted(ps)), "odd" if want else "even", why,
                                                 "forward" if want else "inverse"), {"op": op, "param": prm, "parity": sorted(ps), "required": want})
    # the helper chain the table relies on: the about-centre helpers forward their argument un-inverted
    tac = p.func("menpo.transform.compositions.transform_about_centre")
    r.instance(tac)
    d = Defs(tac.node)
    for ret in returns_of(tac.node):
        ps = parity(ret.value, tac.params[1], d)
        r.check(ps == {0}, tac, ret, "transform_about_centre must embed the given transform un-inverted (parity %s)" % sorted(ps))
    sac = p.func("menpo.transform.compositions.scale_about_centre")
    r.instance(sac)
    d = Defs(sac.node)
    for ret in returns_of(sac.node):
        ps = parity(ret.value, sac.params[1], d)
        r.check(ps == {0}, sac, ret, "scale_about_centre must embed the given scale un-inverted (parity %s)" % sorted(ps))
    r.floor(10, "parameter chains")


def rule_r7(p, res):
    r = res.rule("C01.R7", "no geometry op or funnel writes into the image it is called on or into its arguments (template mask, transform, point cloud)")
    from ..effects import get_effects
    eff = get_effects(p)
    seen = set()
    for cn in IMG_CLASSES:
        c = p.cls(cn)
        for op in list(OPS) + sorted(FUNNELS):
            f = p.lookup(c, op)
            if f is None or (f, c) in seen:
                continue
            seen.add((f, c))
            r.instance("%s@%s" % (f.short, c.name))
            sm = eff.summary(f, c)
            for prm in f.params:
                es = list(sm.on(prm))
                if prm == f.params[0]:
                    # lazily creating the (empty) landmark manager is not an observable change
                    es = [e for e in es if not (e.func is not None and e.func.name == "landmarks" and e.func.is_property())]
                for e in es[:1]:
                    where = "%s:%s" % (e.func.short if e.func is not None else "?", getattr(e.node, "lineno", "?"))
                    r.violation(f, e.node if e.func is f else f.node, "%s (on %s) writes into %s%s (%s at %s): the source image / the caller's template or transform is changed by an operation that "
                                "returns a new image, so a second use of the same template or image is no longer registered with its landmarks"
                                % (f.short, c.name, "its receiver" if prm == f.params[0] else "its argument `%s`" % prm, "." + ".".join(map(str, e.path)) if e.path else "", e.kind, where))
                if not es:
                    r.ok()
    r.floor(40, "op/funnel bodies")


# rules of sibling properties over code paths this property's statement also quantifies over (DESIGN.md section 3, shared rules)
ALSO = ['C02.R2', 'C04.R2', 'C09.R2', 'C09.R3', 'C13.R2']

RULES = [rule_r1, rule_r2, rule_r3, rule_r4, rule_r5, rule_r6, rule_r7]

WITNESSES = [
    Witness("C01.W1", "menpo/image/masked.py", "MaskedImage.warp_to_shape", "mask = self.mask.warp_to_shape(template_shape, transform, warp_landmarks=warp_landmarks, mode=mode, cval=cval)",
            "mask = self.mask.warp_to_shape(template_shape, transform.pseudoinverse(), warp_landmarks=warp_landmarks, mode=mode, cval=cval)", rule="C01.R3", construct="MaskedImage.warp_to_shape"),
    Witness("C01.W2", "menpo/image/base.py", "Image._build_warp_to_shape", "transform.pseudoinverse()._apply_inplace(warped_image.landmarks)", "transform._apply_inplace(warped_image.landmarks)",
            rule="C01.R2", construct="_build_warp_to_shape"),
    Witness("C01.W3", "menpo/image/base.py", "Image.rescale_to_diagonal", ", return_transform=return_transform", "", rule="C01.R4", construct="rescale_to_diagonal"),
    Witness("C01.W4", "menpo/image/base.py", "Image.zoom", "scale_about_centre(self, 1.0 / scale)", "scale_about_centre(self, scale)", rule="C01.R6", construct="Image.zoom"),
    Witness("C01.W5", "menpo/image/base.py", "Image.transform_about_centre", "applied_transform.pseudoinverse()", "applied_transform", rule="C01.R6", construct="transform_about_centre"),
    Witness("C01.W6", "menpo/image/boolean.py", "BooleanImage.warp_to_shape", "if warped.has_landmarks:\n        boolean_image.landmarks = warped.landmarks", "pass",
            rule="C01.R3", construct="BooleanImage.warp_to_shape"),
    Witness("C01.W7", "menpo/image/base.py", "Image.rescale", "scale_factors = (scale * shape - 1) / (shape - 1)", "scale_factors = scale * shape / shape", rule="C01.R5", construct="Image.rescale"),
    Witness("C01.W8", "menpo/image/base.py", "Image.warp_to_mask", "transform.pseudoinverse()._apply_inplace(warped_image.landmarks)", "transform.pseudoinverse()._apply_inplace(self.landmarks)",
            rule="C01.R2", construct="Image.warp_to_mask"),
    Witness("C01.W9", "menpo/image/base.py", "Image.rescale", "inverse_transform = NonUniformScale(scale_factors).pseudoinverse()", "inverse_transform = NonUniformScale(scale_factors)",
            rule="C01.R6", construct="Image.rescale"),
    Witness("C01.W10", "menpo/image/base.py", "Image.crop_to_pointcloud", "return self.crop(min_indices, max_indices, constrain_to_boundary=constrain_to_boundary, return_transform=return_transform)",
            "return self.crop(min_indices, max_indices, return_transform=return_transform)", rule="C01.R4", construct="crop_to_pointcloud"),
    Witness("C01.W11", "menpo/image/masked.py", "MaskedImage.warp_to_shape", "warp_landmarks=warp_landmarks, order=order", "warp_landmarks=False, order=order",
            rule="C01.R3", construct="MaskedImage.warp_to_shape"),
    Witness("C01.W12", "menpo/image/base.py", "Image.sample", "return scipy_interpolation(", "if order == 0:\n        points_to_sample = points_to_sample.astype(int)\n    return scipy_interpolation(",
            rule="C01.R2", construct="Image.sample", note="seeded change R2-C01-C"),
    Witness("C01.T1", "menpo/image/base.py", "Image.mirror", "trans.pseudoinverse()", "trans", kind="T", note="the mirror map is an involution: dropping the inverse changes nothing"),
    Witness("C01.T2", "menpo/image/base.py", "Image.warp_to_shape", "points_to_sample = transform.apply(template_points, batch_size=batch_size)\n        sampled = self.sample(points_to_sample",
            "pts = transform.apply(template_points, batch_size=batch_size)\n        points_to_sample = pts\n        sampled = self.sample(points_to_sample", kind="T"),
]

WITNESSES += [
    Witness("C01.W13", "menpo/image/boolean.py", "BooleanImage._build_warp_to_mask", "warped_img = template_mask.copy()", "warped_img = template_mask",
            rule="C01.R7", construct="_build_warp_to_mask", note="seeded change R3-C01-B"),
]
