"""C10 -- PCA models satisfy the defining identities, also after trimming (bookkeeping and conventions only).

 R1 spectrum co-update: components and eigenvalues are cut with the same bound; trimming moves exactly the discarded
    eigenvalues into the trimmed pool before shrinking; total variance reads both pools; active views are prefixes
 R2 co-indexing in the decomposition: every selection of eigenvalues is applied with the same index to the eigenvectors
 R3 the spectrum is put in descending order
 R4 every scatter/Gram/singular-value <-> eigenvalue conversion uses `count - 1`
 R5 both branches of pca return (components as rows, eigenvalues, mean) with zeros for the mean when not centred
 R6 linear-model algebra: project with components.T, instance with components; mean subtracted before / added after
"""
import ast

from ..loader import AnalysisError, dotted
from ..astutil import walk_own, calls_in, norm, Defs, leaves, stmt_of, kwarg, need, returns_of, expand, const_value
from .. import cfg as cfgmod
from ..variants import Witness
from .common import self_attr_stores

PROP = "C10"
EXPLANATION = (
    "trim_components must extend _trimmed_eigenvalues with exactly the complement _eigenvalues[n_active:] before cutting "
    "_components and _eigenvalues with the same bound; original_variance reads both pools; components/eigenvalues are "
    "prefixes by n_active_components; in eigenvalue_decomposition every index applied to the eigenvalues is applied to the "
    "eigenvector columns, and the ordering index is descending; pca and ipca convert between scatter/Gram matrices or "
    "singular values and eigenvalues with n-1 at every site; both pca branches return components as rows with the column "
    "mean (zeros when not centred); projection multiplies by components.T and instancing by components, the mean-aware "
    "overrides subtract the mean first / add it last, reconstruct = instance o project and project_out = x - instance o "
    "project by call structure."
)
NOT_DECIDED = "orthonormality, variance identities, projection laws -- numeric"
TECHNIQUE = "co-update / co-indexing dataflow + normaliser-role check + order-kind domain (static analysis)"

DEC = "menpo.math.decomposition."
# functions that belong to this property although no rule pattern-matches them (checked by the generic rules G1/G2)
EXTRA_SCOPE = ["menpo.model.pca.PCAModel.__init__", "menpo.model.pca.PCAVectorModel.__init__", "menpo.model.pca.PCAModel.init_from_covariance_matrix",
               "menpo.model.pca.PCAModel.init_from_components", "menpo.model.pca.PCAVectorModel.init_from_covariance_matrix", "menpo.model.pca.PCAVectorModel.init_from_components"]


def rule_r1(p, res):
    r = res.rule("C10.R1", "spectrum co-update in trim / views / variance accounting")
    c = p.cls("PCAVectorModel")
    t = p.own_method("PCAVectorModel", "trim_components")
    r.instance(t)
    g = cfgmod.build(t.node)
    d = Defs(t.node)
    st = {a: (s, v) for a, s, v in self_attr_stores(t.node)}
    for a in ("_components", "_eigenvalues", "_trimmed_eigenvalues"):
        r.check(a in st, t, t.node, "trim_components no longer updates %s: component and eigenvalue counts would diverge / discarded variance would be lost" % a, {"updates": a})
    if all(a in st for a in ("_components", "_eigenvalues", "_trimmed_eigenvalues")):
        cs, cv = st["_components"]
        es, evv = st["_eigenvalues"]
        ts, tv = st["_trimmed_eigenvalues"]

        def bound(v):
            """X[:b] (possibly .copy()) -> normalised b"""
            if isinstance(v, ast.Call) and isinstance(v.func, ast.Attribute) and v.func.attr == "copy":
                v = v.func.value
            if isinstance(v, ast.Subscript) and isinstance(v.slice, ast.Slice) and v.slice.lower is None and v.slice.upper is not None:
                return norm(v.value), norm(expand(v.slice.upper, d))
            return None, None
        cb, eb = bound(cv), bound(evv)
        r.check(cb[0] == "self._components" and eb[0] == "self._eigenvalues" and cb[1] == eb[1] and cb[1] is not None, t, es,
                "components are cut at `%s` but eigenvalues at `%s`: the counts no longer agree" % (cb[1], eb[1]), {"components_bound": cb[1], "eigenvalues_bound": eb[1]})
        # complement appended
        ok = isinstance(tv, ast.Call) and (dotted(tv.func) or "") in ("np.hstack", "np.concatenate", "np.append")
        parts = []
        if ok:
            a0 = tv.args[0]
            parts = [expand(x, d) for x in (a0.elts if isinstance(a0, (ast.Tuple, ast.List)) else tv.args)]
        okp = len(parts) == 2 and norm(parts[0]) == "self._trimmed_eigenvalues" and isinstance(parts[1], ast.Subscript) and norm(parts[1].value) == "self._eigenvalues" \
            and isinstance(parts[1].slice, ast.Slice) and parts[1].slice.upper is None and parts[1].slice.lower is not None and norm(expand(parts[1].slice.lower, d)) == cb[1]
        r.check(bool(ok and okp), t, ts, "the trimmed pool must be extended with exactly the discarded eigenvalues _eigenvalues[%s:] (found `%s`)" % (cb[1], norm(tv)[:80]),
                {"trimmed_pool": norm(tv)[:80]})
        # order: pool extended before the eigenvalues are cut; all on the same path
        r.check(g.reaches(ts, es) and not g.reaches(es, ts), t, ts, "the discarded eigenvalues must be saved before _eigenvalues is shortened")
        r.check(g.guards(cs) == g.guards(es) == g.guards(ts) or [norm(x[0]) for x in g.guards(cs)] == [norm(x[0]) for x in g.guards(es)] == [norm(x[0]) for x in g.guards(ts)], t, cs,
                "the three spectrum updates must happen on the same path")
    ov = p.own_method("PCAVectorModel", "original_variance")
    r.instance(ov)
    s = norm(returns_of(ov.node)[0].value)
    r.check("self._eigenvalues.sum()" in s and "self._trimmed_eigenvalues.sum()" in s and isinstance(returns_of(ov.node)[0].value, ast.BinOp) and isinstance(returns_of(ov.node)[0].value.op, ast.Add), ov, ov.node,
            "total original variance = kept + discarded eigenvalues (found `%s`)" % s, {"original_variance": s})
    for name, attr in (("components", "_components"), ("eigenvalues", "_eigenvalues")):
        f = p.own_method("PCAVectorModel", name)
        r.instance(f)
        s = norm(returns_of(f.node)[0].value)
        r.check(s in ("self.%s[:self.n_active_components, :]" % attr, "self.%s[:self.n_active_components]" % attr), f, f.node, "%s must be the active prefix of %s (found `%s`)" % (name, attr, s), {name: s})
    ch = p.own_method("PCAVectorModel", "_constructor_helper")
    r.instance(ch)
    st = {a: norm(v) for a, s_, v in self_attr_stores(ch.node)}
    r.check(st.get("_eigenvalues") == "eigenvalues" and st.get("_trimmed_eigenvalues") == "np.array([])" and st.get("_n_active_components") == "int(self.n_components)", ch, ch.node,
            "a fresh model starts with all components active and an empty trimmed pool (found %s)" % st)
    nv = p.own_method("PCAVectorModel", "noise_variance")
    r.instance(nv)
    s = norm(nv.node)
    r.check("self._eigenvalues[self.n_active_components:]" in s and "self._trimmed_eigenvalues" in s, nv, nv.node, "noise variance must average the inactive and the trimmed eigenvalues")
    # ... on the same path: wherever the inactive tail of the kept eigenvalues is averaged, the trimmed pool is averaged with it
    dn = Defs(nv.node)
    tails = 0
    for n in walk_own(nv.node):
        if isinstance(n, ast.Assign) and any(isinstance(x, ast.Subscript) and norm(x.value) == "self._eigenvalues" for x in ast.walk(n.value)):
            tails += 1
            r.check("self._trimmed_eigenvalues" in leaves(n.value, dn), nv, n, "`%s` averages the inactive kept eigenvalues without the trimmed ones: after a trim followed by a lower n_active_components "
                    "the discarded variance is under-counted and kept + discarded no longer equals the original variance" % norm(n)[:70], {"noise_tail": norm(n.value)[:60]})
    need(tails >= 1, "C10.R1: the branch of noise_variance that averages the inactive eigenvalues was not found")


def rule_r2(p, res):
    r = res.rule("C10.R2", "eigenvalues and eigenvectors are selected with the same index")
    f = p.func(DEC + "eigenvalue_decomposition")
    r.instance(f)
    # pairs of consecutive selections: values X = V[idx] ; vectors Y = W[:, idx]
    val_sel, vec_sel = [], []
    for n in walk_own(f.node):
        if isinstance(n, ast.Assign) and isinstance(n.targets[0], ast.Name):
            tgt = n.targets[0].id
            v = n.value
            if isinstance(v, ast.BinOp) and isinstance(v.op, ast.Pow):
                v = v.left
            if not isinstance(v, ast.Subscript):
                continue
            sl = v.slice
            if isinstance(sl, ast.Tuple) and len(sl.elts) == 2 and isinstance(sl.elts[0], ast.Slice) and "vector" in tgt:
                vec_sel.append((n, norm(sl.elts[1])))
            elif not isinstance(sl, ast.Tuple) and "value" in tgt:
                val_sel.append((n, norm(sl)))
    need(len(val_sel) >= 3 and len(vec_sel) >= 3, "C10.R2: selections in eigenvalue_decomposition not recognised (%d / %d)" % (len(val_sel), len(vec_sel)))
    r.check(len(val_sel) == len(vec_sel), f, f.node, "eigenvalues are re-selected %d times but eigenvectors %d times" % (len(val_sel), len(vec_sel)))
    for (vn, vi), (wn, wi) in zip(val_sel, vec_sel):
        r.check(vi == wi, f, wn, "eigenvalues are selected with `%s` but eigenvector columns with `%s`: values and vectors no longer correspond" % (vi, wi), {"values": norm(vn)[:50], "vectors": norm(wn)[:50]})
    # the inverse branch flips both
    s = norm(f.node)
    r.check("pos_eigenvalues = pos_eigenvalues[::-1] ** (-1)" in s.replace("** -1", "** (-1)") and "pos_eigenvectors = pos_eigenvectors[:, ::-1]" in s, f, f.node, "for an inverse matrix values and vectors must be reversed together")
    fd = Defs(f.node)
    pi = fd.single("pos_index")
    lim = fd.single("limit")
    r.check(pi is not None and norm(pi) in ("eigenvalues > 0.0", "eigenvalues > 0"), f, f.node, "positivity of the eigenvalues must be tested against zero (found `%s`): an absolute threshold drops genuine "
            "components of data measured in small units" % (norm(pi) if pi is not None else None), {"positivity": norm(pi) if pi is not None else None})
    r.check(lim is not None and norm(lim) == "np.max(np.abs(eigenvalues)) * eps", f, f.node, "the eigenvalue floor must be relative to the largest eigenvalue (found `%s`)" % (norm(lim) if lim is not None else None))
    ip = p.func(DEC + "ipca")
    r.instance(ip)
    d = Defs(ip.node)
    u = [v for k, v, s_ in d.of("U") if k == "assign"]
    r.check(len(u) == 1 and norm(u[0]).endswith("[:len(l), :]"), ip, ip.node, "ipca must keep as many components as eigenvalues survive the floor")
    ls = [norm(v) for k, v, s_ in d.of("l") if k == "assign"]
    r.check("l[l > eps]" in ls, ip, ip.node, "ipca must drop the eigenvalues below eps")


def rule_r3(p, res):
    r = res.rule("C10.R3", "spectrum is put in descending order")
    f = p.func(DEC + "eigenvalue_decomposition")
    r.instance(f)
    d = Defs(f.node)
    idx = [v for k, v, s_ in d.of("index") if k == "assign"]
    need(idx, "C10.R3: ordering index not found")
    first = idx[0]
    kind = None
    s = norm(first)
    if isinstance(first, ast.Subscript) and norm(first.slice) == "::-1" and isinstance(first.value, ast.Call) and (dotted(first.value.func) or "") == "np.argsort":
        a = first.value.args[0]
        kind = "asc" if isinstance(a, ast.UnaryOp) and isinstance(a.op, ast.USub) else "desc"
    elif isinstance(first, ast.Call) and (dotted(first.func) or "") == "np.argsort":
        a = first.args[0]
        kind = "desc" if isinstance(a, ast.UnaryOp) and isinstance(a.op, ast.USub) else "asc"
    elif isinstance(first, ast.Call) and (dotted(first.func) or "") in ("np.flip", "np.flipud") and isinstance(first.args[0], ast.Call) and (dotted(first.args[0].func) or "") == "np.argsort":
        kind = "desc"
    if kind is None:
        raise AnalysisError("C10.R3: ordering idiom `%s` not recognised" % s[:60])
    r.check(kind == "desc", f, f.node, "the eigenvalues are ordered with `%s`, which is ascending: components would not be sorted by explained variance" % s, {"ordering": s, "kind": kind})
    r.check(norm(first.value.args[0] if isinstance(first, ast.Subscript) else first.args[0]).lstrip("-") in ("eigenvalues",), f, f.node, "the ordering must be computed from the eigenvalues")


def _div_by_count_minus_1(e, counts):
    """is e of the form X / (n - 1) or contains (n - 1) * ... as normaliser with n in counts"""
    for n in ast.walk(e):
        if isinstance(n, ast.BinOp) and isinstance(n.op, ast.Sub) and const_value(n.right) == 1 and norm(n.left) in counts:
            return norm(n.left)
    return None


def rule_r4(p, res):
    r = res.rule("C10.R4", "every scatter/Gram/singular-value <-> eigenvalue conversion uses count - 1")
    f = p.func(DEC + "pca")
    r.instance(f)
    d = Defs(f.node)
    # n is the number of rows of the data matrix
    shp = [n for n in walk_own(f.node) if isinstance(n, ast.Assign) and norm(n.value) == "%s.shape" % f.params[0] and isinstance(n.targets[0], ast.Tuple)]
    need(len(shp) == 1, "C10.R4: (n, d) = X.shape not found in pca")
    n_name, d_name = [x.id for x in shp[0].targets[0].elts]
    sites = 0
    for n in walk_own(f.node):
        if isinstance(n, ast.Assign) and isinstance(n.targets[0], ast.Name) and n.targets[0].id == "C" and isinstance(n.value, ast.BinOp) and isinstance(n.value.op, ast.Div) \
                and any(isinstance(x, ast.Call) and isinstance(x.func, ast.Attribute) and x.func.attr == "dot" for x in ast.walk(n.value.left)):
            sites += 1
            den = expand(n.value.right, d)
            ok = isinstance(den, ast.BinOp) and isinstance(den.op, ast.Sub) and norm(den.left) == n_name and const_value(den.right) == 1
            r.check(ok, f, n, "the %s matrix is normalised by `%s`; the sample covariance needs %s - 1" % ("covariance" if "T, X" in norm(n.value.left) or ".T, %s" % f.params[0] in norm(n.value.left) else "Gram", norm(den), n_name),
                    {"site": norm(n)[:70]})
        if isinstance(n, ast.Assign) and isinstance(n.targets[0], ast.Name) and n.targets[0].id == "w":
            sites += 1
            s = norm(n.value)
            r.check(s == "np.sqrt(1.0 / ((%s - 1) * l))" % n_name, f, n, "the Gram-branch rescaling of the eigenvectors must use sqrt(1 / ((n - 1) l)) (found `%s`)" % s, {"site": s})
    ip = p.func(DEC + "ipca")
    r.instance(ip)
    di = Defs(ip.node)
    sa = di.single("s_a")
    sites += 1
    r.check(sa is not None and norm(sa) == "np.sqrt((n_a - 1) * l_a)", ip, ip.node, "ipca: singular values of the old model are sqrt((n_a - 1) l_a) (found `%s`)" % (norm(sa) if sa is not None else None), {"site": norm(sa) if sa is not None else None})
    ls = [v for k, v, s_ in di.of("l") if k == "assign"]
    sites += 1
    r.check(any(norm(v) == "s_tilde ** 2 / (n - 1)" for v in ls), ip, ip.node, "ipca: new eigenvalues are s^2 / (n - 1) with n the merged sample count (found %s)" % [norm(v) for v in ls], {"site": [norm(v) for v in ls]})
    nn = di.single("n")
    r.check(nn is not None and norm(nn) == "n_a + n_b", ip, ip.node, "ipca: merged count n = n_a + n_b")
    if sites < 5:
        raise AnalysisError("C10.R4: only %d normaliser sites recognised (floor 5)" % sites)
    # which branch is taken
    g = cfgmod.build(f.node)
    ifs = [n for n in walk_own(f.node) if isinstance(n, ast.If) and norm(n.test) in ("%s < %s" % (d_name, n_name), "%s > %s" % (n_name, d_name))]
    r.check(len(ifs) == 1, f, f.node, "the covariance branch must be taken exactly when there are fewer features than samples")


def rule_r5(p, res):
    r = res.rule("C10.R5", "pca returns (components as rows, eigenvalues, mean); zeros for the mean when not centred")
    f = p.func(DEC + "pca")
    r.instance(f)
    d = Defs(f.node)
    g = cfgmod.build(f.node)
    rets = returns_of(f.node)
    r.check(len(rets) == 1 and norm(rets[0].value) == "(U, l, m)", f, f.node, "pca must return (U, l, m)")
    ms = {}
    for n in walk_own(f.node):
        if isinstance(n, ast.Assign) and norm(n.targets[0]) == "m":
            gs = tuple((norm(t), pol) for t, pol in g.guards(n))
            ms[gs] = norm(n.value)
    X = f.params[0]
    want = {(("centre", True),): "np.mean(%s, axis=0)" % X, (("centre", False),): "np.zeros(d, dtype=%s.dtype)" % X}
    r.check(ms == want, f, f.node, "the mean must be the column mean when centring and zeros otherwise (found %s)" % ms, {"mean": {str(k): v for k, v in ms.items()}})
    sub = [n for n in walk_own(f.node) if (isinstance(n, ast.AugAssign) and norm(n.target) == X and isinstance(n.op, ast.Sub) and norm(n.value) == "m")
           or (isinstance(n, ast.Assign) and norm(n.targets[0]) == X and norm(n.value) == "%s - m" % X)]
    r.check(len(sub) == 2, f, f.node, "the data must be centred with m on both the in-place and the copying path")
    # components as rows: covariance branch transposes, Gram branch multiplies V.T X
    us = [(n, norm(n.value)) for n in walk_own(f.node) if isinstance(n, ast.Assign) and norm(n.targets[0]) == "U"]
    r.check(any(v == "U.T" for _, v in us) and any(v.startswith("dot(V.conj().T, %s)" % X) for _, v in us), f, f.node, "both branches must produce components as rows (U.T / V^T X)")
    edc = [k for k in calls_in(f.node) if (dotted(k.func) or "") == "eigenvalue_decomposition"]
    r.check(len(edc) == 2 and all(kwarg(k, "eps") is not None and norm(kwarg(k, "eps")) == "eps" for k in edc), f, f.node, "both branches must use the same eigenvalue floor")


def rule_r6(p, res):
    r = res.rule("C10.R6", "linear-model algebra: project with components.T, instance with components; mean handling")
    L = "LinearVectorModel"
    pv = p.own_method(L, "project_vectors")
    iv = p.own_method(L, "_instance_vectors_for_full_weights")
    for f in (pv, iv):
        r.instance(f)
    r.check(norm(returns_of(pv.node)[0].value) in ("np.dot(%s, self.components.T)" % pv.params[1], "%s.dot(self.components.T)" % pv.params[1]), pv, pv.node,
            "projection of (n, d) vectors onto (k, d) components must multiply by components.T (found `%s`)" % norm(returns_of(pv.node)[0].value), {"project": norm(returns_of(pv.node)[0].value)})
    r.check(norm(returns_of(iv.node)[0].value) in ("np.dot(%s, self.components)" % iv.params[1], "%s.dot(self.components)" % iv.params[1]), iv, iv.node,
            "instancing (n, k) weights must multiply by components (found `%s`)" % norm(returns_of(iv.node)[0].value), {"instance": norm(returns_of(iv.node)[0].value)})
    rv = p.own_method(L, "reconstruct_vectors")
    r.instance(rv)
    r.check(norm(returns_of(rv.node)[0].value) == "self.instance_vectors(self.project_vectors(%s))" % rv.params[1], rv, rv.node, "reconstruct = instance(project(x))")
    po = p.own_method(L, "project_out_vectors")
    r.instance(po)
    d = Defs(po.node)
    r.check(norm(d.single("weights")) == "self.project_vectors(%s)" % po.params[1] and norm(returns_of(po.node)[0].value) == "%s - self._instance_vectors_for_full_weights(weights)" % po.params[1], po, po.node,
            "project_out = x - instance(project(x))")
    M = "MeanLinearVectorModel"
    mpv = p.own_method(M, "project_vectors")
    r.instance(mpv)
    dm = Defs(mpv.node)
    x = dm.single("X")
    okm = x is not None and norm(x) == "%s - self._mean" % mpv.params[1] and norm(returns_of(mpv.node)[0].value) == "np.dot(X, self.components.T)"
    r.check(okm, mpv, mpv.node, "the mean must be subtracted before projecting")
    miv = p.own_method(M, "_instance_vectors_for_full_weights")
    r.instance(miv)
    dm = Defs(miv.node)
    xx = dm.single("x")
    r.check(xx is not None and norm(xx) == "LinearVectorModel._instance_vectors_for_full_weights(self, %s)" % miv.params[1] and norm(returns_of(miv.node)[0].value) == "x + self._mean", miv, miv.node,
            "the mean must be added after instancing")
    mpo = p.own_method(M, "project_out_vectors")
    r.instance(mpo)
    s = norm(returns_of(mpo.node)[0].value)
    r.check(s == "%s - self._mean[None, ...] - LinearVectorModel._instance_vectors_for_full_weights(self, weights)" % mpo.params[1], mpo, mpo.node,
            "the projected-out residual is the centred input minus the mean-free instance (found `%s`)" % s)
    pw = p.own_method("PCAVectorModel", "project_whitened")
    r.instance(pw)
    r.check(norm(returns_of(pw.node)[0].value) == "np.dot(%s, whitened_components.T)" % pw.params[1], pw, pw.node, "whitened projection multiplies by whitened_components.T")
    piv = p.own_method("PCAVectorModel", "instance_vectors")
    r.instance(piv)
    s = norm(piv.node)
    r.check("weights *= self.eigenvalues ** 0.5" in s and "full_weights[..., :n_weights] = weights" in s, piv, piv.node, "normalised weights are scaled by the standard deviation of each component; short weight vectors are zero-padded")


def rule_r7(p, res):
    r = res.rule("C10.R7", "a variance fraction is resolved against all stored components, never against the currently active prefix")
    from .c08 import _self_reads
    c = p.cls("PCAVectorModel")
    st = c.setters.get("n_active_components")
    need(st is not None, "C10.R7: n_active_components setter missing")
    r.instance(st)
    g = cfgmod.build(st.node)
    val = st.params[1]
    n_sites = 0
    for n in walk_own(st.node):
        if not isinstance(n, (ast.Assign, ast.If)):
            continue
        gs = [(norm(t), pol) for t, pol in g.guards(n)]
        in_float = ("isinstance(%s, float)" % val, True) in gs
        expr = None
        if isinstance(n, ast.Assign) and norm(n.targets[0]) == val and in_float:
            expr = n.value
        elif isinstance(n, ast.If) and in_float:
            expr = n.test
        if expr is None:
            continue
        for k in ast.walk(expr):
            if isinstance(k, ast.Call) and isinstance(k.func, ast.Attribute) and isinstance(k.func.value, ast.Name) and k.func.value.id == "self":
                m = p.lookup(c, k.func.attr)
                if m is None:
                    continue
                n_sites += 1
                reads = _self_reads(p, m, c) | {k.func.attr}
                bad = reads & {"n_active_components", "_n_active_components", "eigenvalues", "components"}
                r.check(not bad, st, k, "the requested variance fraction is converted with self.%s(), which depends on the currently active components (%s): the "
                        "result depends on earlier changes of the active count instead of being the same as building with that fraction" % (k.func.attr, ", ".join(sorted(bad))),
                        {"helper": k.func.attr, "reads": sorted(reads)[:8]})
            elif isinstance(k, ast.Attribute) and isinstance(k.value, ast.Name) and k.value.id == "self" and k.attr in ("eigenvalues", "components", "n_active_components"):
                r.violation(st, k, "the variance-fraction branch reads the active view self.%s" % k.attr)
    if n_sites < 2:
        raise AnalysisError("C10.R7: the variance-fraction branch of the n_active_components setter was not recognised")
    # the integer branch clamps to the stored component count
    s = norm(st.node)
    r.check("if 0 < %s <= self.n_components:" % val in s and "self._n_active_components = int(%s)" % val in s, st, st.node, "the active count must end up within 1..n_components")


def rule_r8(p, res):
    r = res.rule("C10.R8", "every variance ratio is taken against the original variance (kept + trimmed); model methods never write into the arrays they are given")
    c = p.cls("PCAVectorModel")
    n = 0
    for name, f in sorted(c.methods.items()):
        if not name.endswith("_ratio") or name.startswith("plot"):
            continue
        rets = returns_of(f.node)
        if len(rets) != 1 or rets[0].value is None:
            continue
        v = expand(rets[0].value, Defs(f.node))
        n += 1
        r.instance(f)
        if isinstance(v, ast.BinOp) and isinstance(v.op, ast.Div):
            r.check(norm(v.right) == "self.original_variance()", f, rets[0], "%s divides by `%s`: a ratio of variance must be taken against the original variance (kept plus trimmed eigenvalues), "
                    "otherwise it is renormalised as soon as something has been trimmed and no longer agrees with variance_ratio()" % (f.short, norm(v.right)), {"ratio": f.short})
        elif isinstance(v, ast.Call) and any(isinstance(k.func, ast.Attribute) and k.func.attr.endswith("_ratio") for k in ast.walk(v) if isinstance(k, ast.Call)):
            r.ok({"ratio": f.short, "via": norm(v)[:40]})
        else:
            raise AnalysisError("C10.R8: the form of %s (`%s`) is not recognised" % (f.short, norm(v)[:60]))
    if n < 6:
        raise AnalysisError("C10.R8: only %d ratio methods found (floor 6)" % n)
    # no model method mutates an array argument
    from ..effects import get_effects
    eff = get_effects(p)
    m = 0
    for cn in ("LinearVectorModel", "MeanLinearVectorModel", "PCAVectorModel", "PCAModel"):
        cls = p.cls(cn)
        names = set()
        for b in cls.mro:
            names |= set(getattr(b, "methods", {}))
        for name in sorted(names):
            if name.startswith("__") or name in ("increment", "orthonormalize_against_inplace") or name.startswith(("plot", "view", "_view")):
                continue
            f = p.lookup(cls, name)
            if f is None or len(f.params) < 2:
                continue
            m += 1
            r.instance("%s@%s" % (f.short, cn))
            sm = eff.summary(f, cls)
            for prm in f.params[1:]:
                es = [e for e in sm.on(prm) if e.kind == "mutate"]
                for e in es[:1]:
                    r.violation(f, e.node if e.func is f else f.node, "%s (on %s) writes into its argument `%s` in place: the caller's array (weights, vectors) is changed by a query, a second "
                                "call with the same array gives a different answer" % (f.short, cn, prm))
                if not es:
                    r.ok()
    if m < 40:
        raise AnalysisError("C10.R8: only %d model methods analysed (floor 40)" % m)


def rule_r9(p, res):
    r = res.rule("C10.R9", "in-place block products visit every column; max_n_components discards (not merely deactivates) the surplus components")
    for name in ("dot_inplace_left", "dot_inplace_right"):
        f = p.func("menpo.math.linalg." + name)
        r.instance(f)
        loops = [n for n in walk_own(f.node) if isinstance(n, ast.For) and isinstance(n.iter, ast.Call) and norm(n.iter.func) == "range"]
        need(loops, "C10.R9: block loop of %s not found" % name)
        for lp in loops:
            a = lp.iter.args
            r.check(len(a) == 3 and norm(a[0]) == "0" and isinstance(a[1], ast.Name) and norm(a[2]) == f.params[2], f, lp,
                    "%s: the block loop must run over range(0, <big dimension>, block_size) (found `%s`): any other stop leaves a trailing block of the result unwritten" % (name, norm(lp.iter)))
    h = p.own_method("PCAVectorModel", "_constructor_helper")
    r.instance(h)
    g = cfgmod.build(h.node)
    mx = h.params[-1]
    ks = [k for k in calls_in(h.node) if isinstance(k.func, ast.Attribute) and k.func.attr == "trim_components"]
    ok = False
    for k in ks:
        gs = [(norm(t), pol) for t, pol in g.guards(stmt_of(k))]
        if norm(k.args[0]) == mx and gs in ([("%s is not None" % mx, True)], [("%s is None" % mx, False)]):
            ok = True
    r.check(ok, h, h.node, "a model built with max_n_components must trim_components(max_n_components): merely lowering the active count keeps the surplus components stored, "
            "n_components and the retained/noise variance bookkeeping then differ from a model trimmed to that size")


RULES = [rule_r1, rule_r2, rule_r3, rule_r4, rule_r5, rule_r6, rule_r7, rule_r8, rule_r9]

WITNESSES = [
    Witness("C10.W1", "menpo/model/linear.py", "LinearVectorModel.project_vectors", "np.dot(vectors, self.components.T)", "np.dot(vectors, self.components)", rule="C10.R6", construct="project_vectors"),
    Witness("C10.W2", "menpo/model/linear.py", "MeanLinearVectorModel.project_vectors", "X = vectors - self._mean", "X = vectors", rule="C10.R6", construct="MeanLinearVectorModel.project_vectors"),
    Witness("C10.W3", "menpo/math/decomposition.py", "pca", "C = np.dot(X, X.conj().T) / (n - 1)", "C = np.dot(X, X.conj().T) / n", rule="C10.R4", construct="pca"),
    Witness("C10.W4", "menpo/math/decomposition.py", "eigenvalue_decomposition", "index = np.argsort(eigenvalues)[::-1]", "index = np.argsort(eigenvalues)", rule="C10.R3", construct="eigenvalue_decomposition"),
    Witness("C10.W5", "menpo/math/decomposition.py", "eigenvalue_decomposition", "pos_eigenvectors = pos_eigenvectors[:, index]", "pos_eigenvectors = pos_eigenvectors[:, pos_index]", rule="C10.R2", construct="eigenvalue_decomposition"),
    Witness("C10.W6", "menpo/model/pca.py", "PCAVectorModel.trim_components",
            "self._trimmed_eigenvalues = np.hstack((self._trimmed_eigenvalues, self._eigenvalues[self.n_active_components:]))", "pass", rule="C10.R1", construct="trim_components"),
    Witness("C10.W7", "menpo/model/pca.py", "PCAVectorModel.trim_components", "self._eigenvalues = self._eigenvalues[:nac].copy()", "self._eigenvalues = self._eigenvalues[:nac + 1].copy()", rule="C10.R1", construct="trim_components"),
    Witness("C10.W8", "menpo/math/decomposition.py", "pca", "m = np.zeros(d, dtype=X.dtype)", "m = np.mean(X, axis=0)", rule="C10.R5", construct="pca"),
    Witness("C10.W9", "menpo/model/pca.py", "PCAVectorModel.original_variance", "self._eigenvalues.sum() + self._trimmed_eigenvalues.sum()", "self._eigenvalues.sum()", rule="C10.R1", construct="original_variance"),
    Witness("C10.W10", "menpo/model/pca.py", "PCAVectorModel.n_active_components", "for r in self._total_eigenvalues_cumulative_ratio()", "for r in self.eigenvalues_cumulative_ratio()",
            rule="C10.R7", construct="n_active_components", note="seeded change C10-B", count=1),
    Witness("C10.W11", "menpo/math/decomposition.py", "eigenvalue_decomposition", "pos_index = eigenvalues > 0.0", "pos_index = eigenvalues > eps", rule="C10.R2", construct="eigenvalue_decomposition", note="seeded change R2-C10-A"),
    Witness("C10.T1", "menpo/math/decomposition.py", "pca", "C = np.dot(X.conj().T, X) / (n - 1)", "nm1 = n - 1\n        C = np.dot(X.conj().T, X) / nm1", kind="T"),
]

WITNESSES += [
    Witness("C10.W12", "menpo/model/pca.py", "PCAVectorModel.noise_variance", "np.hstack((self._eigenvalues[self.n_active_components:], self._trimmed_eigenvalues)).mean()", "self._eigenvalues[self.n_active_components:].mean()",
            rule="C10.R1", construct="noise_variance", note="seeded change R3-C10-C"),
]

WITNESSES += [
    Witness("C10.W13", "menpo/model/pca.py", "PCAVectorModel.eigenvalues_ratio", "self.eigenvalues / self.original_variance()", "self.eigenvalues / self._total_variance()", rule="C10.R8", construct="eigenvalues_ratio", note="seeded change R4-C10-A"),
]

WITNESSES += [
    Witness("C10.W14", "menpo/math/linalg.py", "dot_inplace_right", "range(0, n_big, block_size)", "range(0, n_big - 1, block_size)", rule="C10.R9", construct="dot_inplace_right", note="seeded change R5-C10-A"),
    Witness("C10.W15", "menpo/model/pca.py", "PCAVectorModel._constructor_helper", "self.trim_components(max_n_components)", "self.n_active_components = max_n_components", rule="C10.R9", construct="_constructor_helper",
            note="seeded change R5-C10-B"),
]
