"""C12 -- GMRF precision is storage-independent, graph-sparse, symmetric, exact (assembly cross-check only).

 R1 scatter tables of the eight assembly routines: only the edge's two vertices are written; off-diagonal writes come
    in transposed pairs; diagonal blocks accumulate; dense = sparse and create = increment per mode; quadrant layout
    matches the order in which the vertex blocks are concatenated
 R2 mode / dtype / n_components / bias / return_covariances reach their sinks in every routine and from the model
 R3 the four copies of the block-sparse-row epilogue are identical
 R4 Mahalanobis: mean subtracted under subtract_mean on both storage paths; both paths contract the same operands
"""
import ast

from ..loader import AnalysisError, dotted
from ..astutil import P, walk_own, calls_in, norm, Defs, leaves, stmt_of, kwarg, need, returns_of, expand, const_value, own_stmts
from .. import cfg as cfgmod
from ..variants import Witness

PROP = "C12"
EXPLANATION = (
    "From each of the eight precision-assembly routines the table of block writes (row vertex, column vertex, quadrant of "
    "the inverted covariance, sign, accumulate?) is extracted symbolically for one generic edge: every write addresses "
    "only the edge's end points graph.edges[e,0/1] (or the single vertex), each off-diagonal write has its transposed "
    "partner with the same sign, diagonal blocks accumulate (`+=` dense; four entries per edge and an n_edges*4 "
    "allocation sparse), the tables of dense/sparse and create/increment are equal per mode, and the quadrants agree with "
    "the v1-then-v2 concatenation of the edge data; mode/dtype/n_components/bias/return_covariances reach np.cov, the "
    "inverse and the allocations; the four block-sparse-row epilogues are equal statement by statement; the Mahalanobis "
    "distance subtracts the mean under subtract_mean and contracts precision with the same samples on both paths."
)
NOT_DECIDED = "positive semi-definiteness, exactness of the block sum, Mahalanobis values -- numeric"
TECHNIQUE = "symbolic scatter-table extraction per routine + sibling table comparison + clone comparison of the CSR epilogue (static analysis)"

GM = "menpo.model.gmrf."
EDGE_ROUTINES = ("_create_dense_precision", "_create_sparse_precision", "_increment_dense_precision", "_increment_sparse_precision")
DIAG_ROUTINES = ("_create_dense_diagonal_precision", "_create_sparse_diagonal_precision", "_increment_dense_diagonal_precision", "_increment_sparse_diagonal_precision")
FPV = "n_features_per_vertex"


def _quadrant(e):
    """covmat[..] -> (r, c) in {0,1}^2, 'full' for the whole matrix; plus sign"""
    sign = 1
    while isinstance(e, ast.UnaryOp) and isinstance(e.op, ast.USub):
        sign = -sign
        e = e.operand
    if isinstance(e, ast.Name):
        return "full", sign
    if isinstance(e, ast.Call) and (dotted(e.func) or "") == "_covariance_matrix_inverse":
        return "full", sign
    if isinstance(e, ast.Subscript) and isinstance(e.slice, ast.Tuple) and len(e.slice.elts) == 2:
        q = []
        for s in e.slice.elts:
            if not isinstance(s, ast.Slice):
                return None, sign
            lo, up = (norm(s.lower) if s.lower is not None else None), (norm(s.upper) if s.upper is not None else None)
            if lo is None and up == FPV:
                q.append(0)
            elif lo == FPV and up is None:
                q.append(1)
            else:
                return None, sign
        return tuple(q), sign
    return None, sign


def _vertex_of_range(sl, d):
    """a_from:a_to -> vertex name a if a_from = a * f and a_to = (a + 1) * f"""
    if not (isinstance(sl, ast.Slice) and isinstance(sl.lower, ast.Name) and isinstance(sl.upper, ast.Name)):
        return None
    lo, up = d.single(sl.lower.id), d.single(sl.upper.id)
    if lo is None or up is None:
        return None
    lo_s, up_s = norm(lo), norm(up)
    for v in ("v1", "v2", "v"):
        if lo_s == "%s * %s" % (v, FPV) and up_s == "(%s + 1) * %s" % (v, FPV):
            return v
    return None


def _mode_of(g, st):
    for t, pol in g.guards(st):
        s = norm(t)
        if s == "mode == 'concatenation'":
            return "concatenation" if pol else "subtraction"
        if s == "mode == 'subtraction'" and pol:
            return "subtraction"
    return "any"


def scatter_table(f):
    """set of (mode, row, col, quadrant, sign, accumulate) for routine f, plus meta"""
    d = Defs(f.node)
    g = cfgmod.build(f.node)
    table = set()
    meta = {"vertices": {}}
    for nm in ("v1", "v2"):
        v = d.single(nm)
        if v is not None:
            meta["vertices"][nm] = norm(v)
    dense = any(isinstance(n, (ast.Assign, ast.AugAssign)) and isinstance((n.targets[0] if isinstance(n, ast.Assign) else n.target), ast.Subscript)
                and norm((n.targets[0] if isinstance(n, ast.Assign) else n.target).value) == "precision" for n in walk_own(f.node))
    meta["storage"] = "dense" if dense else "sparse"
    if dense:
        for n in own_stmts(f.node):
            tgt = None
            acc = False
            if isinstance(n, ast.Assign) and isinstance(n.targets[0], ast.Subscript) and norm(n.targets[0].value) == "precision":
                tgt, val = n.targets[0], n.value
            elif isinstance(n, ast.AugAssign) and isinstance(n.target, ast.Subscript) and norm(n.target.value) == "precision":
                tgt, val = n.target, n.value
                if not isinstance(n.op, ast.Add):
                    raise AnalysisError("C12.R1: unexpected augmented operator in %s" % f.short)
                acc = True
            if tgt is None:
                continue
            sl = tgt.slice
            if not (isinstance(sl, ast.Tuple) and len(sl.elts) == 2):
                raise AnalysisError("C12.R1: block target `%s` not recognised in %s" % (norm(tgt), f.short))
            rv, cv = _vertex_of_range(sl.elts[0], d), _vertex_of_range(sl.elts[1], d)
            q, sign = _quadrant(val)
            if rv is None or cv is None or q is None:
                raise AnalysisError("C12.R1: block write `%s` not recognised in %s" % (norm(n)[:70], f.short))
            table.add((_mode_of(g, n), rv, cv, q, sign, acc))
    else:
        # sparse: groups between `count += 1` (edge routines) or indexed by v (diagonal routines)
        stmts = own_stmts(f.node)
        cur = None
        groups = []
        for n in stmts:
            if isinstance(n, ast.AugAssign) and norm(n.target) == "count":
                cur = {"stmt": n}
                groups.append(cur)
            elif isinstance(n, ast.Assign) and isinstance(n.targets[0], ast.Subscript) and norm(n.targets[0].value) in ("all_blocks", "rows", "columns"):
                key = norm(n.targets[0].slice)
                if key == "count" and cur is not None:
                    cur[norm(n.targets[0].value)] = n.value
                elif key == "v":
                    if not groups or groups[-1].get("_v") is not True or norm(n.targets[0].value) in groups[-1]:
                        groups.append({"stmt": n, "_v": True})
                    groups[-1][norm(n.targets[0].value)] = n.value
        for gq in groups:
            if not all(k in gq for k in ("all_blocks", "rows", "columns")):
                raise AnalysisError("C12.R1: incomplete (block,row,column) triple in %s near line %d" % (f.short, gq["stmt"].lineno))
            q, sign = _quadrant(gq["all_blocks"])
            rv, cv = norm(gq["rows"]), norm(gq["columns"])
            if q is None or rv not in ("v1", "v2", "v") or cv not in ("v1", "v2", "v"):
                raise AnalysisError("C12.R1: sparse entry not recognised in %s near line %d" % (f.short, gq["stmt"].lineno))
            # duplicate (row, col) entries of a BSR matrix are summed: diagonal blocks accumulate implicitly
            table.add((_mode_of(g, gq["stmt"]), rv, cv, q, sign, rv == cv))
        meta["n_entries"] = len(groups)
        alloc = [v for k, v, s in d.of("all_blocks") if k == "assign" and isinstance(v, ast.Call) and (dotted(v.func) or "") == "np.zeros"]
        meta["alloc"] = norm(alloc[0].args[0].elts[0]) if alloc and isinstance(alloc[0].args[0], ast.Tuple) else None
    ed = {}
    for n in walk_own(f.node):
        if isinstance(n, ast.Assign) and norm(n.targets[0]) == "edge_data":
            ed[_mode_of(g, n)] = norm(n.value)
    meta["edge_data"] = ed
    return table, meta


def _T(q):
    return q if q == "full" else (q[1], q[0])


def rule_r1(p, res):
    r = res.rule("C12.R1", "scatter tables: graph-sparse, symmetric, accumulating diagonal, storage- and create/increment-independent")
    tables = {}
    for name in EDGE_ROUTINES + DIAG_ROUTINES:
        f = p.func(GM + name)
        r.instance(f)
        t, meta = scatter_table(f)
        tables[name] = (f, t, meta)
        if not t:
            raise AnalysisError("C12.R1: no block write found in %s" % name)
    X = "X"
    for name in EDGE_ROUTINES:
        f, t, meta = tables[name]
        # (a) vertices
        ok = meta["vertices"].get("v1") == "graph.edges[e, 0]" and meta["vertices"].get("v2") == "graph.edges[e, 1]"
        r.check(ok, f, f.node, "%s: the two vertices of an edge must be graph.edges[e, 0] and graph.edges[e, 1] (found %s)" % (name, meta["vertices"]), {"routine": name, "vertices": meta["vertices"]})
        for mode in ("concatenation", "subtraction"):
            ent = {(rv, cv, q, s, a) for (m, rv, cv, q, s, a) in t if m in (mode, "any")}
            r.check(len(ent) == 4, f, f.node, "%s (%s): expected the four blocks (v1,v1) (v2,v2) (v1,v2) (v2,v1), found %s" % (name, mode, sorted(ent, key=str)), {"routine": name, "mode": mode, "entries": len(ent)})
            # (b) symmetry
            for (rv, cv, q, s, a) in ent:
                if rv != cv:
                    partner = [(x for x in ent if x[0] == cv and x[1] == rv and x[2] == _T(q) and x[3] == s)]
                    r.check(any(True for x in ent if x[0] == cv and x[1] == rv and x[2] == _T(q) and x[3] == s), f, f.node,
                            "%s (%s): block (%s,%s) = %s%s has no transposed partner (%s,%s) = %s%s: the precision would not be symmetric"
                            % (name, mode, rv, cv, "-" if s < 0 else "+", q, cv, rv, "-" if s < 0 else "+", _T(q)))
                else:
                    # (c) accumulate
                    r.check(a, f, f.node, "%s (%s): the diagonal block of vertex %s is assigned, not accumulated: contributions of the other edges at that vertex are overwritten" % (name, mode, rv),
                            {"routine": name, "mode": mode, "diag": rv})
            # (e) layout
            want = {("v1", "v1", (0, 0), 1), ("v2", "v2", (1, 1), 1), ("v1", "v2", (0, 1), 1), ("v2", "v1", (1, 0), 1)} if mode == "concatenation" else \
                   {("v1", "v1", "full", 1), ("v2", "v2", "full", 1), ("v1", "v2", "full", -1), ("v2", "v1", "full", -1)}
            got = {(rv, cv, q, s) for (rv, cv, q, s, a) in ent}
            r.check(got == want, f, f.node, "%s (%s): block layout %s differs from the layout implied by the edge data (%s)" % (name, mode, sorted(got, key=str), sorted(want, key=str)),
                    {"routine": name, "mode": mode, "layout_ok": got == want})
        edw = {"concatenation": "%s[:, list(range(v1_from, v1_to)) + list(range(v2_from, v2_to))]" % X, "subtraction": "%s[:, v1_from:v1_to] - %s[:, v2_from:v2_to]" % (X, X)}
        r.check(meta["edge_data"] == edw, f, f.node, "%s: edge data must concatenate (v1 block first) or subtract (v1 - v2) the two vertex blocks (found %s)" % (name, meta["edge_data"]))
        if meta["storage"] == "sparse":
            r.check(meta.get("alloc") == "graph.n_edges * 4" and meta.get("n_entries") == 8, f, f.node, "%s: four blocks per edge need an allocation of n_edges * 4 (alloc %s, %s entries written)" % (name, meta.get("alloc"), meta.get("n_entries")))
    # (d) agreement
    base = tables[EDGE_ROUTINES[0]][1]
    strip = lambda t: {(m, rv, cv, q, s) for (m, rv, cv, q, s, a) in t}
    for name in EDGE_ROUTINES[1:]:
        f, t, meta = tables[name]
        r.check(strip(t) == strip(base), f, f.node, "%s writes a different set of blocks than %s: %s" % (name, EDGE_ROUTINES[0], sorted(strip(t) ^ strip(base), key=str)), {"routine": name, "agrees_with": EDGE_ROUTINES[0]})
    for name in DIAG_ROUTINES:
        f, t, meta = tables[name]
        got = {(rv, cv, q, s) for (m, rv, cv, q, s, a) in t}
        r.check(got == {("v", "v", "full", 1)}, f, f.node, "%s: an edgeless model has exactly one block per vertex on the diagonal (found %s)" % (name, sorted(got, key=str)), {"routine": name})
        d = Defs(f.node)
        lo, up = d.single("i_from"), d.single("i_to")
        r.check(lo is not None and up is not None and norm(lo) == "v * %s" % FPV and norm(up) == "(v + 1) * %s" % FPV, f, f.node, "%s: vertex block range must be [v f, (v+1) f)" % name)


def rule_r2(p, res):
    r = res.rule("C12.R2", "mode / dtype / n_components / bias / return_covariances reach their sinks")
    for name in EDGE_ROUTINES + DIAG_ROUTINES:
        f = p.func(GM + name)
        r.instance(f)
        d = Defs(f.node)
        inc = name.startswith("_increment")
        if not inc:
            cov = [k for k in calls_in(f.node) if (dotted(k.func) or "") == "np.cov"]
            need(len(cov) == 1, "C12.R2: %s must call np.cov once" % name)
            kw = {k.arg: norm(k.value) for k in cov[0].keywords}
            r.check(kw.get("bias") == "bias" and kw.get("rowvar") == "0", f, cov[0], "%s: np.cov must treat rows as samples and use the requested bias (found %s)" % (name, kw), {"routine": name, "cov": kw})
        else:
            upd = [k for k in calls_in(f.node) if (dotted(k.func) or "") == "_increment_multivariate_gaussian_cov"]
            need(len(upd) == 1, "C12.R2: %s must update the covariance once per block" % name)
            r.check(kwarg(upd[0], "bias") is not None and norm(kwarg(upd[0], "bias")) == "bias", f, upd[0], "%s must forward bias to the covariance update" % name)
        invs = [k for k in calls_in(f.node) if (dotted(k.func) or "") == "_covariance_matrix_inverse"]
        need(len(invs) == 1, "C12.R2: %s must invert each block covariance once" % name)
        r.check(len(invs[0].args) == 2 and norm(invs[0].args[1]) == "n_components", f, invs[0], "%s must forward n_components to the inverse" % name)
        allocs = [k for k in calls_in(f.node) if (dotted(k.func) or "") == "np.zeros" and kwarg(k, "dtype") is not None]
        r.check(bool(allocs) and all(norm(kwarg(k, "dtype")) == "dtype" for k in allocs), f, f.node, "%s must allocate with the requested dtype" % name)
        for k in calls_in(f.node):
            if (dotted(k.func) or "") == "bsr_matrix":
                r.check(kwarg(k, "dtype") is not None and norm(kwarg(k, "dtype")) == "dtype" and norm(kwarg(k, "shape")) == "(n_features, n_features)", f, k, "%s: sparse precision must be (n_features, n_features) of the requested dtype" % name)
        if not inc:
            g = cfgmod.build(f.node)
            for ret in returns_of(f.node):
                gs = [(norm(t), pol) for t, pol in g.guards(ret) if "return_covariances" in norm(t)]
                is_pair = isinstance(ret.value, ast.Tuple)
                r.check(gs == [("return_covariances", is_pair)], f, ret, "%s must return the covariances exactly when return_covariances is set" % name)
    # the model
    ini = p.own_method("GMRFVectorModel", "__init__")
    inc_ = p.own_method("GMRFVectorModel", "_increment")
    for f, pre in ((ini, "_create"), (inc_, "_increment")):
        r.instance(f)
        g = cfgmod.build(f.node)
        sel = {}
        for n in walk_own(f.node):
            if isinstance(n, ast.Assign) and norm(n.targets[0]) == "constructor":
                gs = tuple(pol for t, pol in g.guards(n) if norm(t) in ("self.graph.n_edges == 0", "self.sparse"))
                sel[gs] = norm(n.value)
        want = {(True, True): "%s_sparse_diagonal_precision" % pre, (True, False): "%s_dense_diagonal_precision" % pre,
                (False, True): "partial(%s_sparse_precision, mode=self.mode)" % pre, (False, False): "partial(%s_dense_precision, mode=self.mode)" % pre}
        r.check(sel == want, f, f.node, "%s must pick the assembly routine by (edgeless, sparse) and bind the edge mode (found %s)" % (f.short, sel), {"dispatch": {str(k): v for k, v in sel.items()}})
        for k in [k for k in calls_in(f.node) if norm(k.func) == "constructor"]:
            kw = {x.arg: norm(x.value) for x in k.keywords}
            for a, w in (("dtype", "self.dtype"), ("n_components", "self.n_components"), ("bias", "self.bias")):
                r.check(kw.get(a) == w, f, k, "%s must pass %s=%s to the assembly routine (found %s)" % (f.short, a, w, kw.get(a)))
            if pre == "_create":
                r.check(kw.get("return_covariances") == "self.is_incremental", f, k, "covariances must be kept exactly for incremental models")
                r.check([norm(a) for a in k.args] == ["data", "self.graph", "self.n_features", "self.n_features_per_vertex"], f, k, "assembly arguments out of order")
    st = {a: norm(v) for a, s_, v in __import__("menpolint.props.common", fromlist=["x"]).self_attr_stores(ini.node)}
    r.check(st.get("mean_vector") == "np.mean(data, axis=0)" and st.get("n_features_per_vertex") == "int(self.n_features / graph.n_vertices)", ini, ini.node, "model mean = sample mean; features are split evenly over the vertices")
    gi = p.own_method("GMRFModel", "__init__")
    r.instance(gi)
    k = [x for x in calls_in(gi.node) if norm(x.func) == "GMRFVectorModel.__init__"]
    need(len(k) == 1, "C12.R2: GMRFModel must initialise its vector model once")
    kw = {x.arg: norm(x.value) for x in k[0].keywords}
    for a in ("mode", "n_components", "dtype", "sparse", "bias", "incremental"):
        r.check(kw.get(a) == a, gi, k[0], "GMRFModel must forward %s" % a)
    ci = p.func(GM + "_covariance_matrix_inverse")
    r.instance(ci)
    s = norm(ci.node)
    r.check("if n_components is None:\n        return np.linalg.inv(cov_mat)" in s, ci, ci.node, "without rank truncation the block covariance is inverted exactly")
    # rank truncation: U[:, :k] diag(1 / S[:k]) Vt[:k, :]
    svd = [n for n in walk_own(ci.node) if isinstance(n, ast.Assign) and isinstance(n.value, ast.Call) and (dotted(n.value.func) or "").endswith("linalg.svd") and isinstance(n.targets[0], ast.Tuple)]
    need(len(svd) == 1 and len(svd[0].targets[0].elts) == 3, "C12.R2: truncated inverse must unpack one SVD")
    U, S, Vt = [x.id for x in svd[0].targets[0].elts]
    dci = Defs(ci.node)
    sl = {}
    for nm in (U, S, Vt):
        vs = [v for k, v, st in dci.of(nm) if k == "assign" and isinstance(v, ast.Subscript)]
        sl[nm] = norm(vs[0].slice) if len(vs) == 1 else None
    want = {U: "(slice(None, None, None), slice(None, n_components, None))", S: "slice(None, n_components, None)", Vt: "(slice(None, n_components, None), slice(None, None, None))"}
    got_ok = sl[U] in (":, :n_components", "(:, :n_components)") and sl[S] == ":n_components" and sl[Vt] in (":n_components, :", "(:n_components, :)")
    r.check(got_ok, ci, svd[0], "rank truncation must keep the first k columns of U, the first k singular values and the first k rows of Vt (found %s): a non-conformant slice is swallowed "
            "by the fallback `except` and truncation is silently ignored" % sl, {"truncation_slices": sl})
    rets = [norm(x.value) for x in returns_of(ci.node)]
    r.check(P("%s.dot(np.diag(1 / %s)).dot(%s)" % (U, S, Vt)) in rets, ci, ci.node, "truncated inverse = U_k diag(1/S_k) Vt_k")


def _epilogue(f):
    """normalised statements from `rows_arg_sort = ...` up to (not including) the return(s)"""
    out = []
    on = False
    for st in f.node.body:
        s = norm(st)
        if s.startswith("rows_arg_sort ="):
            on = True
        if on:
            if isinstance(st, ast.Return) or (isinstance(st, ast.If) and any(isinstance(x, ast.Return) for x in ast.walk(st))):
                break
            out.append((st, s))
    return out


def _rw(st):
    w = {n.id for n in ast.walk(st) if isinstance(n, ast.Name) and isinstance(n.ctx, (ast.Store, ast.Del))}
    for n in ast.walk(st):  # a store into x[...] / x.a writes x
        if isinstance(n, (ast.Subscript, ast.Attribute)) and isinstance(n.ctx, ast.Store):
            b = n
            while isinstance(b, (ast.Subscript, ast.Attribute)):
                b = b.value
            if isinstance(b, ast.Name):
                w.add(b.id)
    rd = {n.id for n in ast.walk(st) if isinstance(n, ast.Name) and isinstance(n.ctx, ast.Load)}
    return rd, w


def _reordered_only(ref, got):
    """the two statement lists hold the same statements, and every two statements that touch a common variable (one of them
    writing it) come in the same order in both: the lists differ by swaps of independent statements only"""
    rs, gs = [s for _, s in ref], [s for _, s in got]
    if sorted(rs) != sorted(gs) or len(set(rs)) != len(rs):
        return False
    pos = {s: i for i, s in enumerate(gs)}
    eff = [_rw(st) for st, _ in ref]
    for i in range(len(ref)):
        for j in range(i + 1, len(ref)):
            (ri, wi), (rj, wj) = eff[i], eff[j]
            if (wi & (rj | wj)) or (wj & ri):
                if pos[rs[i]] > pos[rs[j]]:
                    return False
    return True


def rule_r3(p, res):
    r = res.rule("C12.R3", "the four block-sparse-row epilogues are identical")
    names = [n for n in EDGE_ROUTINES + DIAG_ROUTINES if "sparse" in n]
    eps = {}
    for name in names:
        f = p.func(GM + name)
        r.instance(f)
        e = _epilogue(f)
        if len(e) < 5:
            raise AnalysisError("C12.R3: CSR epilogue of %s not recognised (it may have been factored out; re-confirm the rule)" % name)
        eps[name] = (f, e)
    ref_name = names[0]
    ref = [s for _, s in eps[ref_name][1]]
    for name in names[1:]:
        f, e = eps[name]
        got = [s for _, s in e]
        if got == ref or _reordered_only(eps[ref_name][1], e):
            r.ok({"routine": name, "equal_to": ref_name, "statements": len(got)})
            continue
        # name the differing statement; majority decides which copy deviates
        for i, (a, b) in enumerate(zip(ref, got)):
            if a != b:
                others = [[s for _, s in eps[n][1]] for n in names if n not in (name, ref_name)]
                votes_ref = sum(1 for o in others if i < len(o) and o[i] == a)
                votes_got = sum(1 for o in others if i < len(o) and o[i] == b)
                bad_f, bad_st = (f, e[i][0]) if votes_ref >= votes_got else (eps[ref_name][0], eps[ref_name][1][i][0])
                r.violation(bad_f, bad_st, "the block-sparse-row assembly of %s deviates from its three siblings at `%s` (they have `%s`): an index-pointer slip in one "
                            "storage path" % (bad_f.short, (b if bad_f is f else a)[:70], (a if bad_f is f else b)[:70]))
                break
        else:
            r.violation(f, f.node, "the CSR epilogue of %s has %d statements, its siblings %d" % (name, len(got), len(ref)))
    # the epilogue itself: sort by row, then index pointers cover each row's run
    f, e = eps[ref_name]
    from ..astutil import norm_block
    s = norm_block([st for st, _ in e])
    r.check("rows_arg_sort = rows.argsort()" in s and "columns = columns[rows_arg_sort]" in s and "all_blocks = all_blocks[rows_arg_sort]" in s and "rows = rows[rows_arg_sort]" in s, f, f.node,
            "blocks, columns and rows must be permuted together by the row order")
    r.check("indptr = np.zeros(n_rows + 1)" in s and "indptr[i] = inds[0]" in s and "indptr[i + 1] = inds[-1] + 1" in s and "indptr[i + 1] = indptr[i]" in s, f, f.node,
            "index pointers must delimit each block row (first index, last index + 1; empty rows repeat the previous pointer)")


def rule_r4(p, res):
    r = res.rule("C12.R4", "Mahalanobis: mean subtracted under subtract_mean; both storage paths contract precision with the same samples")
    f = p.own_method("GMRFVectorModel", "_mahalanobis_distance")
    r.instance(f)
    g = cfgmod.build(f.node)
    sm = f.params[1]
    sub = [n for n in walk_own(f.node) if isinstance(n, ast.Assign) and norm(n.targets[0]) == sm and "self.mean_vector" in norm(n.value)]
    ok = len(sub) == 1 and [(norm(t), pol) for t, pol in g.guards(sub[0])] == [(f.params[2], True)] and isinstance(sub[0].value, ast.BinOp) and isinstance(sub[0].value.op, ast.Sub) and norm(sub[0].value.left) == sm
    r.check(ok, f, f.node, "the model mean must be subtracted from the samples exactly when subtract_mean is set")
    s = norm(f.node)
    r.check(P("tmp = self.precision.dot(%s.T)" % sm) in s and P("d = %s.dot(tmp)" % sm) in s and "d = np.diag(d)" in s, f, f.node, "sparse path: diag(x Q x^T)")
    r.check("np.einsum('ij,ij->i', np.dot(%s, self.precision), %s)" % (sm, sm) in s, f, f.node, "dense path: row-wise x Q x")
    ifs = [n for n in walk_own(f.node) if isinstance(n, ast.If) and norm(n.test) == "self.sparse"]
    r.check(len(ifs) == 1, f, f.node, "the storage path is chosen by self.sparse")
    r.check(any(norm(n.test) == f.params[3] and "np.sqrt(d)" in norm(n) for n in walk_own(f.node) if isinstance(n, ast.If)), f, f.node, "the square root is optional")
    md = p.own_method("GMRFVectorModel", "mahalanobis_distance")
    r.instance(md)
    k = [x for x in calls_in(md.node) if norm(x.func) == "self._mahalanobis_distance"]
    inner = p.own_method("GMRFVectorModel", "_mahalanobis_distance")
    from ..astutil import bind_call
    bound = {q: str(norm(v_)) for q, v_ in bind_call(k[0], inner, skip_self=True).items()} if len(k) == 1 else {}
    r.check(len(k) == 1 and bound == {"samples": "samples", "subtract_mean": "subtract_mean", "square_root": "square_root"}, md, md.node, "the public method must forward its flags (bound arguments: %s)" % bound)


INVERTERS = ("_covariance_matrix_inverse", "inv", "pinv")


def stored_state_is_covariance(p, r, routines):
    """shared by C11.R3 and C12.R5"""
    stores = 0
    for name in routines:
        f = p.func(GM + name)
        g = cfgmod.build(f.node)
        d = Defs(f.node)
        for n in walk_own(f.node):
            if isinstance(n, ast.Assign) and isinstance(n.targets[0], ast.Subscript) and norm(n.targets[0].value) in ("all_covariances", "covariances") and isinstance(n.value, ast.Name):
                stores += 1
                rd = cfgmod.reaching_defs(g, d, n.value.id, n)
                inv = [st for k, v, st in rd if isinstance(v, ast.Call) and (dotted(v.func) or "").split(".")[-1] in INVERTERS]
                r.check(not inv, f, n, "%s stores `%s` after it was overwritten with its inverse (`%s`): the covariances kept for increment() are then inverses, so the first increment "
                        "already yields a wrong precision" % (name, n.value.id, norm(inv[0])[:60] if inv else ""), {"routine": name, "stored": norm(n)[:50]})
    return stores


def rule_r5(p, res):
    r = res.rule("C12.R5", "the per-block state kept for later increments is the covariance, not its inverse; progress-reporting and silent loops cover the same items")
    stores = stored_state_is_covariance(p, r, EDGE_ROUTINES + DIAG_ROUTINES)
    for name in EDGE_ROUTINES + DIAG_ROUTINES:
        f = p.func(GM + name)
        r.instance(f)
        # verbose / silent iteration
        its = {}
        for n in walk_own(f.node):
            if isinstance(n, ast.Assign) and isinstance(n.targets[0], ast.Name) and isinstance(n.value, ast.Call):
                v = n.value
                if (dotted(v.func) or "") == "range":
                    its.setdefault(n.targets[0].id, {})["plain"] = (norm(v), n)
                elif (dotted(v.func) or "").split(".")[-1] == "print_progress" and v.args and isinstance(v.args[0], ast.Call) and (dotted(v.args[0].func) or "") == "range":
                    ni = kwarg(v, "n_items")
                    its.setdefault(n.targets[0].id, {})["verbose"] = (norm(v.args[0]), n, norm(ni) if ni is not None else None)
        for nm, e in its.items():
            if "plain" in e and "verbose" in e:
                r.check(e["plain"][0] == e["verbose"][0], f, e["verbose"][1], "%s iterates `%s` with verbose=True but `%s` otherwise: with progress reporting switched on a different set of "
                        "blocks is filled in" % (name, e["verbose"][0], e["plain"][0]), {"routine": name, "loop": e["plain"][0]})
    if stores < 4:
        raise AnalysisError("C12.R5: only %d covariance stores found in the create routines (floor 4)" % stores)


def rule_r6(p, res):
    r = res.rule("C12.R6", "distance queries convert all the samples they are given")
    for cname, mname in (("GMRFVectorModel", "mahalanobis_distance"),):
        f = p.own_method(cname, mname)
        r.instance(f)
        ks = [k for k in calls_in(f.node) if isinstance(k.func, ast.Attribute) and k.func.attr == "_data_to_matrix"]
        need(ks, "C12.R6: %s.%s no longer converts its samples with _data_to_matrix" % (cname, mname))
        for k in ks:
            r.check(len(k.args) == 2 and norm(k.args[0]) == f.params[1] and norm(k.args[1]) == "None", f, k,
                    "%s must convert *all* query samples (`_data_to_matrix(samples, None)`), found `%s`: a count taken from the model truncates a batch of queries" % (mname, norm(k)))


# rules of sibling properties over code paths this property's statement also quantifies over (DESIGN.md section 3, shared rules)
ALSO = ['C11.R2', 'C11.R3', 'C11.R4']

RULES = [rule_r1, rule_r2, rule_r3, rule_r4, rule_r5, rule_r6]

WITNESSES = [
    Witness("C12.W1", "menpo/model/gmrf.py", "_create_dense_precision", "precision[v1_from:v1_to, v1_from:v1_to] += covmat[:n_features_per_vertex, :n_features_per_vertex]",
            "precision[v1_from:v1_to, v1_from:v1_to] = covmat[:n_features_per_vertex, :n_features_per_vertex]", rule="C12.R1", construct="_create_dense_precision"),
    Witness("C12.W2", "menpo/model/gmrf.py", "_create_sparse_precision",
            "all_blocks[count] = covmat[:n_features_per_vertex, n_features_per_vertex:]\n            rows[count] = v1\n            columns[count] = v2",
            "all_blocks[count] = covmat[:n_features_per_vertex, n_features_per_vertex:]\n            rows[count] = v1\n            columns[count] = v1", rule="C12.R1", construct="_create_sparse_precision"),
    Witness("C12.W3", "menpo/model/gmrf.py", "_increment_dense_precision", "precision[v1_from:v1_to, v2_from:v2_to] = -covmat", "precision[v1_from:v1_to, v2_from:v2_to] = covmat",
            rule="C12.R1", construct="_increment_dense_precision"),
    Witness("C12.W4", "menpo/model/gmrf.py", "_create_dense_precision", "v2 = graph.edges[e, 1]", "v2 = e", rule="C12.R1", construct="_create_dense_precision"),
    Witness("C12.W5", "menpo/model/gmrf.py", "_create_sparse_precision", "covmat = np.cov(edge_data, rowvar=0, bias=bias)", "covmat = np.cov(edge_data, rowvar=0)", rule="C12.R2", construct="_create_sparse_precision"),
    Witness("C12.W6", "menpo/model/gmrf.py", "_increment_sparse_precision", "indptr[i + 1] = inds[-1] + 1", "indptr[i + 1] = inds[-1]", rule="C12.R3", construct="_increment_sparse_precision"),
    Witness("C12.W7", "menpo/model/gmrf.py", "GMRFVectorModel._mahalanobis_distance", "if subtract_mean:", "if not subtract_mean:", rule="C12.R4", construct="_mahalanobis_distance"),
    Witness("C12.W8", "menpo/model/gmrf.py", "GMRFVectorModel.__init__", "constructor = partial(_create_dense_precision, mode=self.mode)", "constructor = _create_dense_precision", rule="C12.R2", construct="GMRFVectorModel.__init__"),
    Witness("C12.W9", "menpo/model/gmrf.py", "_create_dense_precision", "edge_data = X[:, list(range(v1_from, v1_to)) + list(range(v2_from, v2_to))]",
            "edge_data = X[:, list(range(v2_from, v2_to)) + list(range(v1_from, v1_to))]", rule="C12.R1", construct="_create_dense_precision"),
    Witness("C12.W10", "menpo/model/gmrf.py", "_covariance_matrix_inverse", "d = d[:n_components, :]", "d = d[:, :n_components]", rule="C12.R2", construct="_covariance_matrix_inverse", note="seeded change C12-B"),
    Witness("C12.T1", "menpo/model/gmrf.py", "_create_dense_precision", "precision[v1_from:v1_to, v2_from:v2_to] = -covmat\n            precision[v2_from:v2_to, v1_from:v1_to] = -covmat",
            "precision[v2_from:v2_to, v1_from:v1_to] = -covmat\n            precision[v1_from:v1_to, v2_from:v2_to] = -covmat", kind="T"),
]

WITNESSES += [
    Witness("C12.W11", "menpo/model/gmrf.py", "_create_dense_precision",
            "if return_covariances:\n            all_covariances[e] = covmat\n        covmat = _covariance_matrix_inverse(covmat, n_components)", "covmat = _covariance_matrix_inverse(covmat, n_components)\n        if return_covariances:\n            all_covariances[e] = covmat",
            rule="C12.R5", construct="_create_dense_precision", note="seeded change R3-C12-C"),
    Witness("C12.W12", "menpo/model/gmrf.py", "_create_sparse_diagonal_precision", "print_progress(range(graph.n_vertices), n_items=graph.n_vertices,", "print_progress(range(graph.n_edges), n_items=graph.n_edges,",
            rule="C12.R5", construct="_create_sparse_diagonal_precision", note="seeded change R3-C12-A"),
]

WITNESSES += [
    Witness("C12.W13", "menpo/model/gmrf.py", "GMRFVectorModel.mahalanobis_distance", "self._data_to_matrix(samples, None)", "self._data_to_matrix(samples, self.n_samples)", rule="C12.R6", construct="mahalanobis_distance",
            note="seeded change R5-C12-B"),
]
