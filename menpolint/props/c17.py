"""C17 -- mesh masking keeps whole triangles and attributes; mesh geometry is sound.

 R1 in every from_mask override one orphan-corrected mask filters the triangle list and every per-vertex array;
    mask then re-index; from_tri_mask funnels into from_mask
 R2 _isolated_mask computes orphans from the masked triangle list and clears them on a copy
 R3 every numpy/scipy name reachable from the mesh API exists in the installed library (and np.cross is not fed 2-vectors)
 R4 vertex normals accumulate the face normal at all three corners; both normal functions normalise
 R5 edges: three cyclic vertex pairs; boundary / unique edges keyed on the sorted pair
 R6 areas and lengths are non-negative by construction, same factor on the 2-D and 3-D branch
 R7 triangle filter: a triangle is removed iff any of its vertices is removed; re-index is a dense renumbering
"""
import ast

from ..loader import AnalysisError, dotted
from ..astutil import walk_own, calls_in, norm, Defs, leaves, stmt_of, kwarg, need, returns_of, expand, const_value
from .. import cfg as cfgmod
from .. import apicompat
from ..calls import reachable_funcs
from ..effects import get_effects
from ..variants import Witness

PROP = "C17"
EXPLANATION = (
    "Each of the three from_mask overrides (TriMesh, ColouredTriMesh, TexturedTriMesh) must filter the triangle list with "
    "the orphan-corrected mask and row-filter every per-vertex array of its class (points; +colours; +tcoords.points) with "
    "that same mask, masking before re-indexing; from_tri_mask must funnel into from_mask; _isolated_mask must work on a "
    "copy of the caller's mask; every numpy/scipy attribute referenced by functions reachable from the mesh API must "
    "exist in the installed libraries and np.cross must not run on 2-vectors; vertex normals scatter-add at all three "
    "corners and are normalised; edge lists are the three cyclic pairs and uniqueness/boundary use the sorted pair; areas "
    "and edge lengths are abs()/norm() times one positive factor on both branches; the triangle filter removes a row iff "
    "any entry is a removed index."
)
NOT_DECIDED = "area/normal invariances under rigid motion and scaling; non-manifold boundary cases"
TECHNIQUE = "sibling comparison of from_mask overrides + API resolution against installed numpy + sign-domain check (static analysis)"

PER_VERTEX = {"TriMesh": ["points"], "ColouredTriMesh": ["points", "colours"], "TexturedTriMesh": ["points", "tcoords.points"]}
API = ("from_mask", "from_tri_mask", "tri_areas", "mean_tri_area", "boundary_tri_index", "edge_vectors", "edge_indices",
       "unique_edge_indices", "unique_edge_vectors", "edge_lengths", "unique_edge_lengths", "mean_edge_length", "tri_normals", "vertex_normals")


def rule_r1(p, res):
    r = res.rule("C17.R1", "from_mask: one orphan-corrected mask filters triangles and all per-vertex arrays; mask, then re-index")
    for cname, attrs in PER_VERTEX.items():
        c = p.cls(cname)
        f = c.methods.get("from_mask")
        if f is None:
            if cname == "TriMesh":
                raise AnalysisError("C17.R1: TriMesh.from_mask missing")
            # inherits: every per-vertex attribute beyond the base's would be dropped
            base = p.lookup(c, "from_mask")
            r.instance("%s (inherits %s)" % (cname, base.short))
            extra = [a for a in attrs if a not in PER_VERTEX.get(base.cls.name, [])]
            r.check(not extra, c, c.node, "%s inherits %s which does not filter %s" % (cname, base.short, extra))
            continue
        r.instance(f)
        d = Defs(f.node)
        mparam = f.params[1]
        g = cfgmod.build(f.node)
        # the copy that is returned
        rets = returns_of(f.node)
        need(rets and all(isinstance(x.value, ast.Name) for x in rets), "C17.R1: %s must return a local copy" % f.short)
        cp = rets[0].value.id
        need(all(x.value.id == cp for x in rets), "C17.R1: %s returns different objects" % f.short)
        v = d.single(cp)
        r.check(v is not None and norm(v) == "self.copy()", f, rets[0], "%s must work on self.copy()" % f.short)
        # the isolated mask
        iso = [(n, n.targets[0].id) for n in walk_own(f.node) if isinstance(n, ast.Assign) and isinstance(n.value, ast.Call)
               and isinstance(n.value.func, ast.Attribute) and n.value.func.attr == "_isolated_mask" and isinstance(n.targets[0], ast.Name)]
        if len(iso) != 1:
            r.violation(f, f.node, "%s does not compute the orphan-corrected mask (self._isolated_mask(mask)): vertices left without a triangle would survive" % f.short)
            continue
        iso_st, iso_name = iso[0]
        # the masking work may only be skipped when the mask keeps every *vertex*
        gs_iso = [(str(norm(t_)), pol) for t_, pol in g.guards(iso_st)]
        skip = [t_ for t_, pol in gs_iso if "all(" in t_]
        r.check(all(t_ in ("np.all(%s)" % mparam, "%s.all()" % mparam) for t_ in skip), f, iso_st, "%s skips the masking when `%s`: the fast path is only valid when the vertex mask itself is all "
                "true; a mask that removes only vertices no triangle refers to would be ignored" % (f.short, skip), {"fast_path": skip})
        r.check(len(iso_st.value.args) == 1 and isinstance(iso_st.value.args[0], ast.Name) and iso_st.value.args[0].id == mparam, f, iso_st,
                "the orphan correction must start from the caller's mask")
        # triangle list: mask then reindex
        mk = [c_ for c_ in calls_in(f.node) if (dotted(c_.func) or "").endswith("mask_adjacency_array")]
        rk = [c_ for c_ in calls_in(f.node) if (dotted(c_.func) or "").endswith("reindex_adjacency_array")]
        need(len(mk) == 1 and len(rk) == 1, "C17.R1: %s must call mask_adjacency_array and reindex_adjacency_array once each" % f.short)
        r.check(len(mk[0].args) == 2 and isinstance(mk[0].args[0], ast.Name) and mk[0].args[0].id == iso_name, f, mk[0],
                "the triangle list must be filtered with the orphan-corrected mask `%s`, found `%s`" % (iso_name, norm(mk[0].args[0]) if mk[0].args else None),
                {"function": f.short, "triangle_mask": norm(mk[0].args[0]) if mk[0].args else None})
        r.check(len(mk[0].args) == 2 and norm(mk[0].args[1]) in ("self.trilist", cp + ".trilist"), f, mk[0], "the triangle list being filtered must be the mesh's own")
        ok = len(rk[0].args) == 1 and any(mk[0] is x for x in ast.walk(expand_keep(rk[0].args[0], d, mk[0])))
        r.check(ok, f, rk[0], "the triangle list must be masked first and densely re-indexed afterwards (re-indexing `%s`)" % norm(rk[0].args[0])[:40])
        tl_store = [n for n in walk_own(f.node) if isinstance(n, ast.Assign) and any(norm(t) == cp + ".trilist" for t in n.targets)]
        r.check(len(tl_store) == 1 and any(rk[0] is x for x in ast.walk(tl_store[0].value)), f, rk[0], "the re-indexed triangle list must be stored on the copy")
        # per-vertex arrays
        for a in attrs:
            tgt = "%s.%s" % (cp, a)
            st = [n for n in walk_own(f.node) if isinstance(n, ast.Assign) and any(norm(t) == tgt for t in n.targets)]
            if not st:
                r.violation(f, rets[-1], "%s does not filter the per-vertex array `%s`: after masking it no longer lines up with the vertices" % (f.short, a))
                continue
            for n in st:
                val = n.value
                ok = isinstance(val, ast.Subscript) and norm(val.value) in (tgt, "self." + a)
                sel = None
                if ok:
                    sl = val.slice
                    first = sl.elts[0] if isinstance(sl, ast.Tuple) else sl
                    sel = norm(first)
                    rest_ok = not isinstance(sl, ast.Tuple) or all(isinstance(x, ast.Slice) and x.lower is None and x.upper is None for x in sl.elts[1:])
                    ok = sel == iso_name and rest_ok
                r.check(ok, f, n, "per-vertex array `%s` must be row-filtered with the same orphan-corrected mask `%s` (found `%s`)" % (a, iso_name, norm(val)[:50]),
                        {"function": f.short, "attribute": a, "selector": sel})
        # fast path and size check
        raises = [n for n in walk_own(f.node) if isinstance(n, ast.Raise)]
        okr = any(any(pol and "shape[0] != self.n_points" in norm(t) for t, pol in g.guards(n)) for n in raises)
        r.check(okr, f, f.node, "%s must reject a mask whose length differs from the number of points" % f.short)
    ft = p.own_method("TriMesh", "from_tri_mask")
    r.instance(ft)
    rets = returns_of(ft.node)
    ok = len(rets) == 1 and isinstance(rets[0].value, ast.Call) and norm(rets[0].value.func) == "self.from_mask" and len(rets[0].value.args) == 1
    r.check(ok, ft, ft.node, "from_tri_mask must funnel into self.from_mask (virtual dispatch picks the subclass override)")
    if ok:
        d = Defs(ft.node)
        lv = leaves(rets[0].value.args[0], d)
        stores = [n for n in walk_own(ft.node) if isinstance(n, ast.Assign) and isinstance(n.targets[0], ast.Subscript)]
        ok2 = any("self.trilist" in leaves(n.targets[0].slice, d) and ("param:" + ft.params[1]) in leaves(n.targets[0].slice, d) for n in stores)
        r.check(ok2, ft, ft.node, "the vertex mask must be the set of vertices of the selected triangles (self.trilist[tri_mask])")
        z = [c_ for c_ in calls_in(ft.node) if (dotted(c_.func) or "") in ("np.zeros", "numpy.zeros")]
        r.check(bool(z) and norm(z[0].args[0]) == "self.n_points", ft, ft.node, "the vertex mask must have one entry per vertex and start all-False")
    for c in p.descendants(p.cls("TriMesh"), include_self=False):
        for m in ("from_tri_mask", "_isolated_mask"):
            if m in c.methods:
                r.note("%s overrides %s" % (c.name, m))
    r.floor(4, "from_mask bodies + from_tri_mask")


def expand_keep(e, d, keep):
    """follow single-assignment locals from e until the node `keep` is found (identity preserved, no copying)"""
    seen = set()
    cur = [e]
    out = e

    class Wrap(ast.AST):
        _fields = ("items",)

    items = []
    todo = [e]
    while todo:
        x = todo.pop()
        items.append(x)
        for n in ast.walk(x):
            if isinstance(n, ast.Name) and n.id not in seen:
                seen.add(n.id)
                v = d.single(n.id)
                if isinstance(v, ast.AST):
                    todo.append(v)
    w = Wrap()
    w.items = items
    return w


def rule_r2(p, res):
    r = res.rule("C17.R2", "_isolated_mask: orphans from the masked triangle list, cleared on a copy of the mask")
    f = p.own_method("TriMesh", "_isolated_mask")
    r.instance(f)
    d = Defs(f.node)
    mparam = f.params[1]
    s = get_effects(p).summary(f)
    bad = s.on(mparam)
    r.check(not bad, f, bad[0].node if bad else f.node, "_isolated_mask writes into the caller's mask: %s" % (bad[0].describe() if bad else ""))
    rets = returns_of(f.node)
    need(len(rets) == 1 and isinstance(rets[0].value, ast.Name), "C17.R2: _isolated_mask must return a local")
    v = d.single(rets[0].value.id)
    r.check(v is not None and norm(v) == "%s.copy()" % mparam, f, rets[0], "the corrected mask must start as a copy of the given mask")
    mk = [c for c in calls_in(f.node) if (dotted(c.func) or "").endswith("mask_adjacency_array")]
    need(len(mk) == 1, "C17.R2: _isolated_mask must filter the triangle list once")
    r.check([norm(a) for a in mk[0].args] == [mparam, "self.trilist"], f, mk[0], "orphans must be computed from the triangle list masked with the given mask")
    sd = [c for c in calls_in(f.node) if (dotted(c.func) or "") in ("np.setdiff1d", "numpy.setdiff1d")]
    need(len(sd) == 1, "C17.R2: orphan vertices must be a set difference")
    a0, a1 = sd[0].args[0], sd[0].args[1]
    r.check(norm(a0) in ("np.nonzero(%s)[0]" % mparam, "np.flatnonzero(%s)" % mparam, "np.where(%s)[0]" % mparam) and any(mk[0] is x for it in expand_keep(a1, d, mk[0]).items for x in ast.walk(it)), f, sd[0],
            "orphans = kept vertices that occur in no kept triangle (setdiff1d(kept vertices, masked triangle list))")
    clr = [n for n in walk_own(f.node) if isinstance(n, ast.Assign) and isinstance(n.targets[0], ast.Subscript) and isinstance(n.targets[0].value, ast.Name)
           and n.targets[0].value.id == rets[0].value.id]
    r.check(len(clr) == 1 and isinstance(clr[0].value, ast.Constant) and clr[0].value.value is False, f, clr[0] if clr else f.node, "orphans must be cleared (set False) on the copy")


def _mesh_api_functions(p):
    out = {}
    for cname in PER_VERTEX:
        c = p.cls(cname)
        for m in API:
            f = p.lookup(c, m)
            if f is None:
                continue
            for (fn, k), dpt in reachable_funcs(p, f, c, max_depth=4).items():
                if fn.module.name.startswith(("menpo.shape.mesh", "menpo.shape.adjacency")):
                    out[fn] = True
    return list(out)


def rule_r3(p, res):
    r = res.rule("C17.R3", "third-party names reachable from the mesh API resolve in the installed libraries; no np.cross on 2-vectors")
    fs = _mesh_api_functions(p)
    n_ok = 0
    for f in sorted(fs, key=lambda x: x.qualname):
        r.instance(f)
        bad, ok = apicompat.check_function(p, f)
        n_ok += ok
        for node, full, detail in bad:
            r.violation(f, node, "`%s` does not exist in the installed library (%s): every call that reaches this line raises AttributeError" % (full, detail))
        for _ in range(ok):
            r.ok()
        for node in apicompat.cross_2d_sites(p, f):
            r.violation(f, node, "np.cross is applied to 2-component vectors here (n_dims == 2 branch); the installed numpy only accepts 3-component vectors and raises")
    if n_ok < 20:
        raise AnalysisError("C17.R3: only %d third-party references resolved (floor 20)" % n_ok)
    r.floor(10, "functions reachable from the mesh API")


def rule_r4(p, res):
    r = res.rule("C17.R4", "vertex normals: face normal added at all three corners; both normal functions normalise")
    vn = p.func("menpo.shape.mesh.normals.compute_vertex_normals")
    fn = p.func("menpo.shape.mesh.normals.compute_face_normals")
    nz = p.func("menpo.shape.mesh.normals._normalize")
    for f in (vn, fn, nz):
        r.instance(f)
    # the face normal is the cross product of two edge *vectors* (differences from one common vertex): translation invariant
    dfn = Defs(fn.node)
    crosses = [k for k in calls_in(fn.node) if (dotted(k.func) or "") in ("np.cross", "numpy.cross")]
    need(crosses, "C17.R4: compute_face_normals no longer uses np.cross")
    okc = len(crosses) == 1 and len(crosses[0].args) >= 2
    if okc:
        a0, a1 = [expand(x, dfn) for x in crosses[0].args[:2]]
        okc = isinstance(a0, ast.BinOp) and isinstance(a0.op, ast.Sub) and isinstance(a1, ast.BinOp) and isinstance(a1.op, ast.Sub) and norm(a0.right) == norm(a1.right) and norm(a0.left) != norm(a1.left)
    r.check(okc, fn, crosses[0], "the face normal must be cross(b - a, c - a), the product of two edge vectors from one vertex: a sum of cross products of absolute positions is "
            "algebraically equal but cancels catastrophically away from the origin (normals stop being perpendicular to their triangle)")
    tparam = vn.params[1]
    ats = [c for c in calls_in(vn.node) if (dotted(c.func) or "") in ("np.add.at", "numpy.add.at")]
    cols = []
    for c in ats:
        if len(c.args) != 3:
            continue
        # a scatter inside `for k in range(3)` (or over (0, 1, 2)) stands for the three columns
        lp_ = None
        n_ = getattr(c, "_parent", None)
        while n_ is not None and n_ is not vn.node:
            if isinstance(n_, ast.For):
                lp_ = n_
                break
            n_ = getattr(n_, "_parent", None)
        idx = c.args[1]
        ks = None
        if lp_ is not None and isinstance(lp_.target, ast.Name):
            it = lp_.iter
            if isinstance(it, ast.Call) and (dotted(it.func) or "") == "range" and len(it.args) == 1 and const_value(it.args[0]) is not None:
                ks = list(range(const_value(it.args[0])))
            elif isinstance(it, (ast.Tuple, ast.List)) and all(const_value(x) is not None for x in it.elts):
                ks = [const_value(x) for x in it.elts]
        if ks is not None and any(isinstance(x, ast.Name) and x.id == lp_.target.id for x in ast.walk(idx)):
            for k_ in ks:
                cols.append(norm(idx).replace(lp_.target.id, str(k_)))
        else:
            cols.append(norm(idx))
    cols = sorted(str(x) for x in cols)
    want = sorted("%s[:, %d]" % (tparam, k) for k in range(3))
    r.check(cols == want, vn, vn.node, "vertex normals must accumulate the face normal at the three corner indices %s (found %s)" % (want, cols), {"scatter_columns": cols})
    d = Defs(vn.node)
    for c in ats:
        r.check(len(c.args) == 3 and "call:compute_face_normals" in leaves(c.args[2], d), vn, c, "what is accumulated must be the face normals")
        r.check(len(c.args) == 3 and norm(c.args[0]) == norm(ats[0].args[0]), vn, c, "all corners must accumulate into the same array")
    for f in (vn, fn):
        rets = returns_of(f.node)
        r.check(len(rets) == 1 and isinstance(rets[0].value, ast.Call) and (dotted(rets[0].value.func) or "") == "_normalize", f, f.node, "%s must return normalised vectors" % f.short)
    dn = Defs(fn.node)
    cr = [c for c in calls_in(fn.node) if (dotted(c.func) or "") in ("np.cross", "numpy.cross")]
    need(len(cr) == 1, "C17.R4: compute_face_normals must take one cross product")
    a, b = (norm(expand(x, dn)) for x in cr[0].args[:2])
    P = "%s[%s]" % (fn.params[0], fn.params[1])
    r.check((a, b) == ("%s[:, 1] - %s[:, 0]" % (P, P), "%s[:, 2] - %s[:, 0]" % (P, P)), fn, cr[0], "face normal must be (b - a) x (c - a) (right-handed for counter-clockwise triangles); found %s x %s" % (a, b),
            {"cross": [a, b]})
    rz = returns_of(nz.node)
    s = norm(rz[0].value) if rz else ""
    r.check("sqrt" in s and "sum(axis=1" in s and "/" in s, nz, nz.node, "_normalize must divide each row by its Euclidean length")
    e = rz[0].value if rz else None
    while isinstance(e, ast.Call) and (dotted(e.func) or "").split(".")[-1] in ("nan_to_num",) and e.args:
        e = e.args[0]
    okd = isinstance(e, ast.BinOp) and isinstance(e.op, ast.Div) and norm(e.left) == nz.params[0]
    if okd:
        den = e.right
        eps = [x for x in ast.walk(den) if isinstance(x, ast.BinOp) and isinstance(x.op, ast.Add) and (const_value(x.left) is not None or const_value(x.right) is not None)]
        r.check(not eps, nz, rz[0], "the length used for normalising has a constant added to it (`%s`): the result is no longer a unit vector and depends on the scale of the mesh" % norm(den)[:60],
                {"divisor": norm(den)[:60]})
        r.check(norm(den) in ("np.sqrt((%s ** 2).sum(axis=1, keepdims=True))" % nz.params[0], "np.linalg.norm(%s, axis=1, keepdims=True)" % nz.params[0], "np.linalg.norm(%s, axis=1)[:, None]" % nz.params[0]), nz, rz[0],
                "the divisor must be the Euclidean length of each row (found `%s`)" % norm(den)[:60])
    else:
        r.check(False, nz, nz.node, "_normalize must return v / |v| (optionally through nan_to_num)")


def rule_r5(p, res):
    r = res.rule("C17.R5", "edges are the three cyclic vertex pairs; uniqueness and boundary detection key on the sorted pair")
    ei = p.own_method("TriMesh", "edge_indices")
    r.instance(ei)
    pairs = []
    dei = Defs(ei.node)
    for n in walk_own(ei.node):
        if isinstance(n, ast.Subscript) and isinstance(n.slice, ast.Tuple) and len(n.slice.elts) == 2 and isinstance(n.slice.elts[1], ast.List):
            pairs.append(tuple(const_value(x) for x in n.slice.elts[1].elts))
    def _n2(v):
        # `.reshape(-1, 2)` / `.reshape((-1, 2))` / `.reshape([-1, 2])` of three two-column blocks laid side by side
        if not (isinstance(v, ast.Call) and isinstance(v.func, ast.Attribute) and v.func.attr == "reshape"):
            return False
        a_ = v.args[0].elts if len(v.args) == 1 and isinstance(v.args[0], (ast.Tuple, ast.List)) else v.args
        return [const_value(x) for x in a_] == [-1, 2]
    r.check(sorted(tuple(sorted(x)) for x in pairs) == [(0, 1), (0, 2), (1, 2)] and len(pairs) == 3, ei, ei.node,
            "edge_indices must list the vertex pairs (0,1), (1,2), (2,0) of every triangle (found %s)" % pairs, {"pairs": pairs})
    rets = returns_of(ei.node)
    r.check(bool(rets) and (norm(rets[0].value).endswith(".reshape(-1, 2)") or _n2(expand(rets[0].value, dei))), ei, ei.node, "edge list must be (n_edges, 2)")
    ev = p.own_method("TriMesh", "edge_vectors")
    r.instance(ev)
    diffs = []
    for n in walk_own(ev.node):
        if isinstance(n, ast.BinOp) and isinstance(n.op, ast.Sub) and isinstance(n.left, ast.Subscript) and isinstance(n.right, ast.Subscript):
            diffs.append((norm(n.left.slice), norm(n.right.slice)))
    got = sorted(tuple(sorted(x)) for x in diffs)
    r.check(got == [("(:, 0)", "(:, 1)"), ("(:, 0)", "(:, 2)"), ("(:, 1)", "(:, 2)")] or len({frozenset(x) for x in diffs}) == 3, ev, ev.node, "edge_vectors must cover the three edges of each triangle (found %s)" % diffs)
    bt = p.own_method("TriMesh", "boundary_tri_index")
    r.instance(bt)
    d = Defs(bt.node)
    keys = [n for n in walk_own(bt.node) if isinstance(n, ast.Assign) and isinstance(n.value, ast.Call) and "sorted" in norm(n.value)]
    r.check(any(norm(n.value) in ("tuple(sorted(edge))",) or ("sorted(" in norm(n.value) and "tuple(" in norm(n.value)) for n in keys), bt, bt.node,
            "boundary detection must key edges on the sorted vertex pair (an edge shared by two triangles appears in both orientations)")
    rep = [c for c in calls_in(bt.node) if isinstance(c.func, ast.Attribute) and c.func.attr == "repeat"]
    r.check(any(c.args and const_value(c.args[0]) == 3 for c in rep), bt, bt.node, "each triangle index must be repeated once per edge (3)")
    ue = p.own_method("TriMesh", "unique_edge_indices")
    r.instance(ue)
    v = Defs(ue.node).single("edge_pairs")
    r.check(v is not None and norm(v) in ("np.sort(self.edge_indices())", "np.sort(self.edge_indices(), axis=1)", "np.sort(self.edge_indices(), axis=-1)"), ue, ue.node,
            "unique edges must be computed on pairs sorted within each row")
    # the de-duplication compares whole pairs exactly (row-wise unique / a byte view of the row), for every integer dtype of the trilist
    due = Defs(ue.node)
    uq = [k for k in calls_in(ue.node) if (dotted(k.func) or "") in ("np.unique", "numpy.unique") and k.args]
    need(len(uq) == 1, "C17.R5: the np.unique call of unique_edge_indices was not found")
    arg0 = arg = uq[0].args[0]
    arg_full = arg
    if isinstance(arg, ast.Name) and due.single(arg.id) is not None:
        arg_full = expand(due.single(arg.id), due)
        arg = due.single(arg.id)
    ax = kwarg(uq[0], "axis")
    if ax is not None and const_value(ax) == 0 and norm(arg0) == "edge_pairs":
        r.ok({"dedup": "row-wise unique"})
    elif any(isinstance(x, ast.Call) and isinstance(x.func, ast.Attribute) and x.func.attr == "view" for x in ast.walk(arg_full)) and "np.void" in norm(arg_full):
        r.ok({"dedup": "byte view of each row"})
    elif isinstance(arg, ast.BinOp) and any(isinstance(x, ast.Subscript) and norm(x.value) == "edge_pairs" for x in ast.walk(arg)):
        wide = any(isinstance(x, ast.Attribute) and x.attr in ("int64", "uint64") for x in ast.walk(arg))
        r.check(wide, ue, stmt_of(uq[0].args[0]) if not isinstance(uq[0].args[0], ast.Name) else ue.node, "unique edges are keyed on the arithmetic fold `%s` of the two vertex indices, computed in the trilist's own "
                "integer dtype: for narrow dtypes (uint16 / int32 meshes) the product wraps around, distinct edges collide and disappear from the unique-edge queries" % norm(arg)[:60])
    else:
        raise AnalysisError("C17.R5: de-duplication idiom `%s` of unique_edge_indices not recognised" % norm(arg)[:70])


def rule_r6(p, res):
    r = res.rule("C17.R6", "areas / lengths non-negative by construction; same factor on both branches")
    ta = p.own_method("TriMesh", "tri_areas")
    r.instance(ta)
    factors = []
    for ret in returns_of(ta.node):
        v = ret.value
        nonneg, factor = _nonneg(v)
        r.check(nonneg, ta, ret, "tri_areas returns `%s`, which can be negative (signed cross product without abs / norm)" % norm(v)[:60], {"return": norm(v)[:60]})
        factors.append(factor)
    need(len(factors) == 2, "C17.R6: tri_areas should have a 2-D and a 3-D branch")
    r.check(factors[0] == factors[1] == 0.5, ta, ta.node, "both branches of tri_areas must use the factor 0.5 (found %s)" % factors, {"factors": factors})
    for name in ("edge_lengths", "unique_edge_lengths"):
        f = p.own_method("TriMesh", name)
        r.instance(f)
        for ret in returns_of(f.node):
            nonneg, _ = _nonneg(ret.value)
            r.check(nonneg, f, ret, "%s must be a norm" % name)


def _nonneg(v):
    """(is >= 0 by construction, positive literal factor)"""
    factor = 1.0
    e = v
    while isinstance(e, ast.BinOp) and isinstance(e.op, ast.Mult):
        c = const_value(e.right)
        if c is not None and c > 0:
            factor *= c
            e = e.left
            continue
        c = const_value(e.left)
        if c is not None and c > 0:
            factor *= c
            e = e.right
            continue
        break
    if isinstance(e, ast.Call):
        d = dotted(e.func) or ""
        if d in ("np.abs", "numpy.abs", "np.absolute", "abs", "np.fabs"):
            inner = e.args[0]
            f2 = 1.0
            while isinstance(inner, ast.BinOp) and isinstance(inner.op, ast.Mult):
                c = const_value(inner.right)
                if c is not None and c > 0:
                    f2 *= c
                    inner = inner.left
                    continue
                c = const_value(inner.left)
                if c is not None and c > 0:
                    f2 *= c
                    inner = inner.right
                    continue
                break
            return True, factor * f2
        if d in ("np.linalg.norm", "numpy.linalg.norm"):
            return True, factor
        if d in ("np.sqrt",) and e.args and not any(isinstance(x, ast.BinOp) and isinstance(x.op, ast.Sub) for x in ast.walk(e.args[0])):
            return True, factor
    return False, factor


def rule_r7(p, res):
    r = res.rule("C17.R7", "triangle filter removes a row iff any entry is a removed vertex; re-index is a dense renumbering")
    f = p.func("menpo.shape.adjacency.mask_adjacency_array")
    r.instance(f)
    d = Defs(f.node)
    mparam, aparam = f.params[0], f.params[1]
    v = d.single("indices_to_remove")
    r.check(v is not None and norm(v) in ("np.nonzero(~%s)[0]" % mparam, "np.flatnonzero(~%s)" % mparam, "np.where(~%s)[0]" % mparam), f, f.node,
            "removed indices must be the positions where the mask is False (~mask)")
    memb = [c for c in calls_in(f.node) if (dotted(c.func) or "").split(".")[-1] in ("isin", "in1d")]
    need(len(memb) == 1, "C17.R7: membership test (np.isin) not found in mask_adjacency_array")
    r.check([norm(a) for a in memb[0].args[:2]] == [aparam, "indices_to_remove"], f, memb[0], "membership must test the triangle entries against the removed indices")
    rets = returns_of(f.node)
    need(len(rets) == 1, "C17.R7: single return expected")
    keep = d.single("indices_to_keep")
    r.check(keep is not None and norm(keep) == "~entries_to_remove.any(axis=1)", f, f.node, "a triangle is kept iff none of its vertices is removed (~any(axis=1))")
    r.check(norm(rets[0].value) in ("%s[indices_to_keep, :]" % aparam, "%s[indices_to_keep]" % aparam), f, rets[0], "the kept rows of the triangle list must be returned")
    s = get_effects(p).summary(f)
    r.check(not s.on(mparam) and not s.on(aparam), f, f.node, "mask_adjacency_array must not write into its arguments")
    g = p.func("menpo.shape.adjacency.reindex_adjacency_array")
    r.instance(g)
    dg = Defs(g.node)
    a = g.params[0]
    rv = returns_of(g.node)
    r.check(len(rv) == 1 and norm(rv[0].value) == "remap_vector[%s]" % a, g, g.node, "re-index must map every entry through the remap vector")
    uv = dg.single("unique_values")
    r.check(uv is not None and norm(uv) == "np.unique(%s)" % a, g, g.node, "surviving indices = sorted unique entries")
    st = [n for n in walk_own(g.node) if isinstance(n, ast.Assign) and isinstance(n.targets[0], ast.Subscript) and norm(n.targets[0]) == "remap_vector[unique_values]"]
    r.check(len(st) == 1 and norm(st[0].value) == "np.arange(unique_values.shape[0])", g, g.node, "surviving indices must be renumbered 0..k-1 in order")


# the in-place API of a shape: the only methods that may (re)bind or write the receiver's state
INPLACE_API = {"__init__", "_from_vector_inplace", "from_vector_inplace", "_transform_inplace", "_transform_self_inplace", "__setstate__"}


def rule_r8(p, res):
    r = res.rule("C17.R8", "mesh queries are stateless: no method outside the in-place API stores anything on the mesh (a cached normal / area would survive transforms, masking and copy())")
    eff = get_effects(p)
    n = 0
    for cn in ("TriMesh", "ColouredTriMesh", "TexturedTriMesh"):
        c = p.cls(cn)
        names = set()
        for b in c.mro:
            names |= set(getattr(b, "methods", {}))
        for name in sorted(names):
            if name in INPLACE_API or name.startswith("_view") or name.startswith("view"):
                continue
            f = p.lookup(c, name)
            if f is None or not f.params:
                continue
            n += 1
            r.instance("%s@%s" % (f.short, cn))
            es = [e for e in eff.summary(f, c).on(f.params[0])
                  if not (e.kind == "set:writeable") and not (e.func is not None and e.func.name == "landmarks" and e.func.is_property())]
            for e in es[:1]:
                r.violation(f, e.node if e.func is f else f.node, "%s (on %s) stores into the mesh (%s%s): state written by a query is carried along by copy(), transforms and masking and is never "
                            "invalidated, so later answers describe the mesh as it was" % (f.short, cn, e.kind, (" ." + ".".join(map(str, e.path))) if e.path else ""))
            if not es:
                r.ok()
    if n < 100:
        raise AnalysisError("C17.R8: only %d mesh methods analysed (floor 100)" % n)


RULES = [rule_r1, rule_r2, rule_r3, rule_r4, rule_r5, rule_r6, rule_r7, rule_r8]

WITNESSES = [
    Witness("C17.W1", "menpo/shape/mesh/coloured.py", "ColouredTriMesh.from_mask", "ctm.colours = ctm.colours[isolated_mask, :]", "ctm.colours = ctm.colours[mask, :]",
            rule="C17.R1", construct="ColouredTriMesh.from_mask"),
    Witness("C17.W2", "menpo/shape/mesh/textured.py", "TexturedTriMesh.from_mask", "ttm.tcoords.points = ttm.tcoords.points[isolated_mask, :]", "pass",
            rule="C17.R1", construct="TexturedTriMesh.from_mask"),
    Witness("C17.W3", "menpo/shape/mesh/base.py", "TriMesh.from_mask", "masked_adj = mask_adjacency_array(isolated_mask, self.trilist)\n        tm.trilist = reindex_adjacency_array(masked_adj)",
            "masked_adj = reindex_adjacency_array(self.trilist)\n        tm.trilist = mask_adjacency_array(isolated_mask, masked_adj)", rule="C17.R1", construct="TriMesh.from_mask"),
    Witness("C17.W4", "menpo/shape/mesh/base.py", "TriMesh._isolated_mask", "new_mask = mask.copy()", "new_mask = mask", rule="C17.R2", construct="TriMesh._isolated_mask"),
    Witness("C17.W5", "menpo/shape/adjacency.py", "mask_adjacency_array", "np.isin(adjacency_array, indices_to_remove)", "np.in1d(adjacency_array, indices_to_remove)",
            rule="C17.R3", construct="mask_adjacency_array", note="reverts the repair of finding #13"),
    Witness("C17.W6", "menpo/shape/mesh/base.py", "TriMesh.tri_areas", "return np.abs(", "return (", rule="C17.R6", construct="TriMesh.tri_areas"),
    Witness("C17.W7", "menpo/shape/mesh/normals.py", "compute_vertex_normals", "np.add.at(vertex_normals, trilist[:, 2], face_normals)", "np.add.at(vertex_normals, trilist[:, 1], face_normals)",
            rule="C17.R4", construct="compute_vertex_normals"),
    Witness("C17.W8", "menpo/shape/adjacency.py", "mask_adjacency_array", "indices_to_keep = ~entries_to_remove.any(axis=1)", "indices_to_keep = ~entries_to_remove.all(axis=1)",
            rule="C17.R7", construct="mask_adjacency_array"),
    Witness("C17.W9", "menpo/shape/mesh/base.py", "TriMesh.edge_indices", "tl[:, [2, 0]]", "tl[:, [2, 1]]", rule="C17.R5", construct="TriMesh.edge_indices"),
    Witness("C17.W10", "menpo/shape/mesh/base.py", "TriMesh.from_mask", "masked_adj = mask_adjacency_array(isolated_mask, self.trilist)", "masked_adj = mask_adjacency_array(mask, self.trilist)",
            rule="C17.R1", construct="TriMesh.from_mask"),
    Witness("C17.W11", "menpo/shape/mesh/normals.py", "_normalize", "np.nan_to_num(v / np.sqrt((v ** 2).sum(axis=1, keepdims=True)))", "v / (np.sqrt((v ** 2).sum(axis=1, keepdims=True)) + 1e-08)",
            rule="C17.R4", construct="_normalize", note="seeded change C17-B"),
    Witness("C17.W12", "menpo/shape/mesh/base.py", "TriMesh.tri_areas", "return np.linalg.norm(np.cross(ij, ik), axis=1) * 0.5",
            "return np.sqrt((ij ** 2).sum(axis=1) * (ik ** 2).sum(axis=1) - (ij * ik).sum(axis=1) ** 2) * 0.5", rule="C17.R6", construct="TriMesh.tri_areas", note="seeded change R2-C17-C"),
    Witness("C17.T1", "menpo/shape/mesh/base.py", "TriMesh.from_mask", "tm.points = tm.points[isolated_mask, :]", "tm.points = tm.points[isolated_mask]", kind="T"),
]

WITNESSES += [
    Witness("C17.W13", "menpo/shape/mesh/base.py", "TriMesh.unique_edge_indices",
            "edge_pair_view = np.ascontiguousarray(edge_pairs).view(np.dtype((np.void, edge_pairs.dtype.itemsize * edge_pairs.shape[1])))\n    unique_edge_index = np.unique(edge_pair_view, return_index=True)[1]",
            "edge_keys = edge_pairs[:, 0] * self.n_points + edge_pairs[:, 1]\n    unique_edge_index = np.unique(edge_keys, return_index=True)[1]", rule="C17.R5", construct="unique_edge_indices", note="seeded change R3-C17-A"),
    Witness("C17.T2", "menpo/shape/mesh/base.py", "TriMesh.unique_edge_indices",
            "edge_pair_view = np.ascontiguousarray(edge_pairs).view(np.dtype((np.void, edge_pairs.dtype.itemsize * edge_pairs.shape[1])))\n    unique_edge_index = np.unique(edge_pair_view, return_index=True)[1]",
            "unique_edge_index = np.unique(edge_pairs, axis=0, return_index=True)[1]", kind="T"),
    Witness("C17.W14", "menpo/shape/mesh/base.py", "TriMesh.tri_normals", "return compute_face_normals(self.points, self.trilist)",
            "if getattr(self, '_tri_normals', None) is None:\n        self._tri_normals = compute_face_normals(self.points, self.trilist)\n    return self._tri_normals", rule="C17.R8", construct="tri_normals", note="seeded change R3-C17-C"),
]

WITNESSES += [
    Witness("C17.W15", "menpo/shape/mesh/base.py", "TriMesh.from_mask", "if np.all(mask):", "if np.all(mask[self.trilist]):", rule="C17.R1", construct="TriMesh.from_mask", note="seeded change R4-C17-C"),
]

WITNESSES += [
    Witness("C17.W16", "menpo/shape/mesh/base.py", "TriMesh.tri_areas", "t = self.points[self.trilist]",
            "if getattr(self, '_areas', None) is not None:\n        return self._areas\n    t = self.points[self.trilist]\n    self._areas = None", rule="C17.G5", construct="tri_areas", note="generic: a method gives the object a new attribute"),
]

WITNESSES += [
    Witness("C17.W17", "menpo/shape/adjacency.py", "mask_adjacency_array", "np.isin(adjacency_array, indices_to_remove)", "np.isin(adjacency_array, indices_to_remove, assume_unique=True)",
            rule="C17.G10", construct="mask_adjacency_array", note="seeded change R5-C17-A (generic: precondition-waiving keyword)"),
]
