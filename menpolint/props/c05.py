"""C05 -- vectorisation round-trips the whole object and never mutates it.

Decided (structural necessary conditions, DESIGN.md section 4/C05):
 R1 error discipline: a constructed exception is raised; no None initialiser reaches a state write
 R2 `_as_vector` returns rank 1 on every path
 R3 `_as_vector` never returns the stored array itself (read-only flag must land on a view/copy)
 R4 `from_vector` has no effect on its receiver
 R5 rebuilding `from_vector` overrides transfer landmarks and every state attribute
 R6 alignment classes re-sync their target after a parameter update
 R7 masked images use one selector / layout in _as_vector, from_vector, _set_masked_pixels
"""
import ast

from ..loader import AnalysisError, ClassInfo, dotted
from ..astutil import walk_own, calls_in, norm, Defs, leaves, stmt_of, returns_of, bind_call, kwarg
from .. import cfg as cfgmod
from ..calls import CallCtx, reachable_funcs
from ..effects import Effects, get_effects
from ..domains import RankEval, alias_class, SAME
from ..variants import Witness
from .common import exception_classes, is_exception_ctor, vectorizable_classes, concrete_defs, only_raises

PROP = "C05"
EXPLANATION = (
    "Static rules over all Vectorizable classes (resolved through the MRO): constructed exceptions are raised and no "
    "None initialiser reaches a state write in _from_vector_inplace/from_vector/_as_vector/n_parameters; every "
    "_as_vector returns a rank-1 array that is not the stored array itself; every resolved from_vector has an empty "
    "mutation summary on self; constructor-rebuilding from_vector overrides transfer landmarks on every path and pass "
    "every state attribute; every alignment class reaches _sync_target_from_state after a parameter write; the three "
    "masked-pixel accessors use one selector and one (n_channels, -1) layout."
)
NOT_DECIDED = "value equality after the round trip; rejection of every wrong length (only 'a constructed error is raised')"
TECHNIQUE = "raise-discipline lint + rank/alias abstract domains + interprocedural mutation summaries + re-sync reachability (static analysis)"
ASSUMPTIONS = ["rank facts of h_matrix/points are a frozen table (menpolint.domains.ATTR_RANK)"]

VEC_METHODS = ("_as_vector", "from_vector", "_from_vector_inplace", "n_parameters")
HELPERS = ("_set_h_matrix", "set_rotation_matrix", "_set_masked_pixels", "masked_pixels", "as_vector")


def _bodies(p):
    """distinct FuncInfo definitions of the vectorisation protocol in Vectorizable subclasses"""
    out = []
    for c in vectorizable_classes(p):
        for m in VEC_METHODS + HELPERS:
            f = c.methods.get(m)
            if f is not None and f not in out:
                out.append(f)
    return out


def rule_r1(p, res):
    r = res.rule("C05.R1", "constructed exception is raised; no None initialiser reaches a state write")
    exc = exception_classes(p)
    for f in _bodies(p):
        r.instance(f)
        for n in walk_own(f.node):
            if isinstance(n, ast.Expr) and isinstance(n.value, ast.Call) and is_exception_ctor(p, f, n.value, exc):
                r.violation(f, n, "exception %s is constructed but not raised: the length/shape guard has no effect" % (dotted(n.value.func)))
            elif isinstance(n, ast.Raise):
                r.ok()
        # None-flow: local initialised to None, used as argument of a self-method call / stored on self
        defs = Defs(f.node)
        g = None
        for name, ds in defs.defs.items():
            none_defs = [st for kind, val, st in ds if kind == "assign" and isinstance(val, ast.Constant) and val.value is None]
            if not none_defs:
                continue
            other_defs = [st for kind, val, st in ds if st is not None and st not in none_defs]
            uses = []
            for c in calls_in(f.node):
                if isinstance(c.func, ast.Attribute) and isinstance(c.func.value, ast.Name) and c.func.value.id == "self":
                    for a in list(c.args) + [k.value for k in c.keywords]:
                        if isinstance(a, ast.Name) and a.id == name:
                            uses.append(stmt_of(c))
            for n in walk_own(f.node):
                if isinstance(n, ast.Assign) and isinstance(n.value, ast.Name) and n.value.id == name:
                    if any(isinstance(t, ast.Attribute) and isinstance(t.value, ast.Name) and t.value.id == "self" for t in n.targets):
                        uses.append(n)
            if not uses:
                continue
            g = g or cfgmod.build(f.node)
            for nd in none_defs:
                for u in uses:
                    if g.reaches(nd, u, avoid=other_defs):
                        r.violation(f, u, "local '%s' may still be its None initialiser when it is written into the object "
                                    "(path from line %d avoiding every other assignment)" % (name, nd.lineno))
                    else:
                        r.ok({"function": f.short, "local": name, "use": norm(u)[:80]})
    r.floor(25, "vectorisation bodies")


def rule_r2(p, res):
    r = res.rule("C05.R2", "_as_vector returns a rank-1 array on every path")
    seen = set()
    for c in vectorizable_classes(p):
        f = p.lookup(c, "_as_vector")
        if f is None or f.cls.name == "Vectorizable":
            continue
        key = (f, c if f.cls is not c else None)
        # evaluate per concrete class (properties such as `scale` resolve differently)
        r.instance("%s@%s" % (f.short, c.name))
        ev = RankEval(p, f, c)
        g = cfgmod.build(f.node)
        for ret in returns_of(f.node):
            if ret.value is None:
                continue
            if not cfgmod.default_feasible(g, f, ret):
                r.note("%s: `%s` only under a non-default keyword (e.g. keep_channels=True); as_vector() default path is what C05 states" % (f.short, norm(ret)[:50]))
                continue
            rk = ev.rank(ret.value)
            if rk is None:
                r.undecide("%s@%s: rank of `%s` unknown" % (f.short, c.name, norm(ret.value)[:60]))
                continue
            if (f, ret.lineno, rk) in seen and rk != 1:
                continue
            seen.add((f, ret.lineno, rk))
            r.check(rk == 1, f, ret, "returns a rank-%d value `%s` for class %s; as_vector() must be a 1-D array of n_parameters numbers" % (rk, norm(ret.value)[:60], c.name),
                    {"function": f.short, "class": c.name, "return": norm(ret.value)[:60], "rank": rk})
    r.floor(20, "_as_vector resolutions")


def rule_r3(p, res):
    r = res.rule("C05.R3", "_as_vector never returns the stored array itself; as_vector flags only its local result")
    for f in concrete_defs(p, "_as_vector"):
        r.instance(f)
        for ret in returns_of(f.node):
            if ret.value is None:
                continue
            k = alias_class(p, f, ret.value, f.cls)
            r.check(k != SAME, f, ret, "returns the object's own array `%s`; as_vector() would make the object read-only" % norm(ret.value)[:60],
                    {"function": f.short, "return": norm(ret.value)[:60], "alias": k})
    av = p.method("Vectorizable", "as_vector")
    r.instance(av)
    flagged = [n for n in walk_own(av.node) if isinstance(n, ast.Assign) and any(
        isinstance(t, ast.Attribute) and t.attr == "writeable" for t in n.targets)]
    if not flagged:
        r.violation(av, av.node, "as_vector no longer marks its result read-only")
    for n in flagged:
        t = [t for t in n.targets if isinstance(t, ast.Attribute) and t.attr == "writeable"][0]
        base = t.value.value if isinstance(t.value, ast.Attribute) else None
        ok = isinstance(base, ast.Name) and base.id != "self" and isinstance(n.value, ast.Constant) and n.value.value is False
        d = Defs(av.node)
        if ok:
            v = d.single(base.id)
            ok = isinstance(v, ast.Call) and isinstance(v.func, ast.Attribute) and v.func.attr == "_as_vector"
        r.check(ok, av, n, "the read-only flag must be cleared on the local result of self._as_vector() only")
        rets = returns_of(av.node)
        r.check(all(isinstance(x.value, ast.Name) and isinstance(base, ast.Name) and x.value.id == base.id for x in rets), av, n,
                "as_vector must return the flagged array")
    r.floor(8, "_as_vector bodies")


def rule_r4(p, res):
    r = res.rule("C05.R4", "from_vector has an empty mutation summary on its receiver")
    eff = get_effects(p)
    n = 0
    for c in vectorizable_classes(p):
        f = p.lookup(c, "from_vector")
        if f is None:
            continue
        inpl = p.lookup(c, "_from_vector_inplace")
        if inpl is None or inpl.cls.name == "Vectorizable":
            if f.cls.name in ("Vectorizable",):
                continue  # abstract
        r.instance("%s@%s" % (f.short, c.name))
        s = eff.summary(f, c)
        selfn = f.params[0]
        bad = [e for e in s.on(selfn) if not _benign_self_effect(e)]
        if bad:
            e = bad[0]
            r.violation(f, e.node, "from_vector on %s writes its receiver: %s" % (c.name, e.describe()))
        else:
            r.ok({"function": f.short, "class": c.name, "self_effects": 0})
        vec = f.params[1] if len(f.params) > 1 else None
        if vec:
            badv = s.on(vec)
            r.check(not badv, f, badv[0].node if badv else f.node, "from_vector on %s writes into the vector it was given: %s" % (c.name, badv[0].describe() if badv else ""))
    r.floor(20, "from_vector resolutions")


def _benign_self_effect(e):
    return False


def _state_params(p, c):
    """constructor parameters of class c that name state attributes of c (other than the primary data and `copy`)"""
    init = p.lookup(c, "__init__")
    if init is None:
        return []
    params = init.params[1:]
    out = []
    for i, q in enumerate(params):
        if i == 0 or q in ("copy", "skip_checks"):
            continue
        out.append(q)
    return out


def rule_r5(p, res):
    r = res.rule("C05.R5", "rebuilding from_vector overrides transfer landmarks and every state attribute")
    lm = p.cls("Landmarkable")
    for c in vectorizable_classes(p):
        f = c.methods.get("from_vector")
        if f is None or lm not in c.mro:
            continue
        ctx = CallCtx(p, f, c)
        ctor_calls = [k for k in calls_in(f.node) if isinstance(ctx.class_constructed(k), ClassInfo)]
        if not ctor_calls:
            continue  # copy-based
        r.instance(f)
        g = cfgmod.build(f.node)
        transfers = []
        guards = []
        for n in walk_own(f.node):
            if isinstance(n, ast.Assign) and any(isinstance(t, ast.Attribute) and t.attr == "landmarks" for t in n.targets):
                if "self.landmarks" in leaves(n.value, None) or (isinstance(n.value, ast.Attribute) and norm(n.value) == "self.landmarks"):
                    transfers.append(n)
            elif isinstance(n, ast.Call) and (dotted(n.func) or "").endswith("copy_landmarks_and_path"):
                if n.args and isinstance(n.args[0], ast.Name) and n.args[0].id == "self":
                    transfers.append(stmt_of(n))
        for n in walk_own(f.node):
            if isinstance(n, ast.If) and norm(n.test) in ("self.has_landmarks",) and any(t in list(ast.walk(n)) for t in transfers):
                guards.append(n)
        avoid_edges = set()
        for gd in guards:
            for nid in g.nodes(gd):
                avoid_edges.add((nid, "F"))
        tn = set()
        for t in transfers:
            tn.update(g.nodes(t))
        reach = g.reachable(avoid=tn, avoid_edges=avoid_edges)
        ok = cfgmod.RETURN not in reach
        r.check(ok, f, ctor_calls[0], "%s rebuilds the object through its constructor but some path returns without transferring "
                "the landmarks (no `.landmarks = self.landmarks` / copy_landmarks_and_path(self, new))" % f.short,
                {"function": f.short, "landmark_transfers": [norm(t)[:70] for t in transfers]})
        # state attributes
        for k in ctor_calls:
            kc = ctx.class_constructed(k)
            if kc is not c:
                continue
            init = p.lookup(kc, "__init__")
            b = bind_call(k, init, skip_self=True)
            for q in _state_params(p, kc):
                e = b.get(q)
                want = "self." + q
                got = e is not None and any(l == want or l.startswith(want + ".") for l in leaves(e, Defs(f.node)))
                r.check(got, f, k, "constructor argument `%s` of the rebuilt %s does not come from self.%s: that part of the state is lost" % (q, kc.name, q),
                        {"function": f.short, "param": q, "arg": norm(e)[:50] if e is not None else None})
    r.floor(4, "rebuilding from_vector overrides")


def rule_r6(p, res):
    r = res.rule("C05.R6", "alignment classes reach _sync_target_from_state after every parameter write")
    al = p.cls("Alignment")
    eff = get_effects(p)
    sync = p.method("Targetable", "_sync_target_from_state")
    for c in vectorizable_classes(p):
        if al not in c.mro:
            continue
        f = p.lookup(c, "_from_vector_inplace")
        if f is None or f.cls.name == "Vectorizable":
            continue
        r.instance("%s@%s" % (f.short, c.name))
        ctx = CallCtx(p, f, c)
        s = eff.summary(f, c)
        writes = [e for e in s.on(f.params[0]) if e.path[:1] in (("h_matrix",), ("_h_matrix",)) or e.kind.startswith("set:_h_matrix")]
        if not writes:
            r.undecide("%s@%s: no matrix write found" % (f.short, c.name))
            continue
        g = cfgmod.build(f.node)
        syncing = []
        for st in [n for n in walk_own(f.node) if isinstance(n, ast.stmt)]:
            for k in calls_in(st) if not isinstance(st, (ast.If, ast.For, ast.While, ast.Try, ast.With)) else []:
                for t in ctx.resolve_call(k):
                    if t.func is sync or any(fn is sync for (fn, _c) in reachable_funcs(p, t.func, t.recv_cls)):
                        syncing.append(st)
        for e in writes:
            st = stmt_of(e.node)
            ok = st in syncing or g.all_paths_after_pass(st, syncing)
            r.check(ok, f, st, "%s: after the parameter write `%s` some path returns without re-synchronising the target "
                    "(_sync_target_from_state is not reached for class %s)" % (f.short, norm(st)[:60], c.name),
                    {"class": c.name, "write": norm(st)[:60], "sync_sites": [norm(x)[:50] for x in syncing]})
    r.floor(5, "alignment classes")


def _selector_key(sub):
    return norm(sub.slice)


def rule_r7(p, res):
    r = res.rule("C05.R7", "masked accessors share one selector and (n_channels, -1) layout")
    mp = p.own_method("MaskedImage", "masked_pixels")
    fv = p.own_method("MaskedImage", "from_vector")
    sp = p.own_method("MaskedImage", "_set_masked_pixels")
    av = p.own_method("MaskedImage", "_as_vector")
    fi = p.own_method("MaskedImage", "_from_vector_inplace")
    sels = {}
    for f in (mp, fv, sp):
        r.instance(f)
        found = []
        for n in walk_own(f.node):
            if isinstance(n, ast.Subscript) and "mask" in norm(n.slice):
                found.append(n)
        if not found:
            raise AnalysisError("C05.R7: no mask-selected subscript in %s" % f.short)
        for n in found:
            sels.setdefault(_selector_key(n), []).append((f, n))
    keys = sorted(sels)
    want = "(..., self.mask.mask)"
    for k in keys:
        for f, n in sels[k]:
            r.check(k == want, f, n, "masked pixels are selected with `[%s]` here but with `[%s]` elsewhere: exposed and accepted "
                    "pixels would not be the same set / order" % (k, want), {"function": f.short, "selector": k})
    # from_vector zero-initialises and reshapes to (n_channels, -1)
    zeros = [c for c in calls_in(fv.node) if (dotted(c.func) or "") in ("np.zeros", "numpy.zeros")]
    store = [n for n in walk_own(fv.node) if isinstance(n, ast.Assign) and any(isinstance(t, ast.Subscript) and "mask" in norm(t.slice) for t in n.targets)]
    d = Defs(fv.node)
    ok = False
    gfv = cfgmod.build(fv.node)
    for st in store:
        tgt = [t for t in st.targets if isinstance(t, ast.Subscript)][0]
        if isinstance(tgt.value, ast.Name):
            rd = cfgmod.reaching_defs(gfv, d, tgt.value.id, st)
            ok = bool(rd) and all(kind == "assign" and any(v is z for z in zeros) for kind, v, _ in rd)
    r.check(ok, fv, store[0] if store else fv.node, "from_vector must write the masked pixels into a zero-initialised array (zero elsewhere)")
    for z in zeros:
        dt = kwarg(z, "dtype")
        if dt is None:
            r.violation(fv, z, "the buffer that receives the vector is allocated with numpy's default dtype: from_vector(v).as_vector() would not return v for other dtypes")
        else:
            r.check(("param:" + fv.params[1]) in leaves(dt, d), fv, z, "the buffer that receives the vector takes its dtype from `%s`, not from the vector: the values are silently cast and "
                    "from_vector(v).as_vector() != v" % norm(dt), {"function": fv.short, "buffer_dtype": norm(dt)})
    r.instance(av)
    r.instance(fi)
    for f in (av, fv, fi):
        shapes = []
        for c in calls_in(f.node):
            if isinstance(c.func, ast.Attribute) and c.func.attr == "reshape" and c.args:
                a = c.args[0]
                if isinstance(a, (ast.Tuple, ast.List)) and len(a.elts) == 2:
                    shapes.append((c, a))
        for c, a in shapes:
            first, second = norm(a.elts[0]), norm(a.elts[1])
            r.check(second == "-1" and first in ("self.n_channels", "n_channels"), f, c,
                    "masked vector layout must be (n_channels, -1) (channel-major); found (%s, %s)" % (first, second),
                    {"function": f.short, "reshape": norm(a)})
    # _as_vector goes through masked_pixels
    for ret in returns_of(av.node):
        r.check("call:self.masked_pixels" in leaves(ret.value, Defs(av.node)), av, ret, "_as_vector must expose exactly masked_pixels()")
    # _from_vector_inplace goes through _set_masked_pixels
    r.check(any((dotted(c.func) or "") == "self._set_masked_pixels" for c in calls_in(fi.node)), fi, fi.node,
            "_from_vector_inplace must accept pixels through _set_masked_pixels")


def rule_r8(p, res):
    r = res.rule("C05.R8", "a parameter update overwrites the parameters (no accumulation into the old state); the vector is not annihilated by a sign factor")
    n = 0
    for f in concrete_defs(p, "_from_vector_inplace"):
        n += 1
        r.instance(f)
        bad = None
        for st in walk_own(f.node):
            if isinstance(st, ast.AugAssign):
                for x in ast.walk(st.target):
                    if isinstance(x, ast.Name) and x.id == f.params[0]:
                        bad = st
        r.check(bad is None, f, bad if bad is not None else f.node, "%s accumulates into the object's state (`%s`): from_vector(v).as_vector() then returns old + v instead of v whenever the "
                "object is not the identity" % (f.short, norm(bad)[:60] if bad is not None else ""), {"function": f.short, "accumulates": bad is not None})
    for f in concrete_defs(p, "_as_vector"):
        r.instance(f)
        for k in calls_in(f.node):
            if (dotted(k.func) or "") in ("np.sign", "numpy.sign"):
                par = getattr(k, "_parent", None)
                if isinstance(par, ast.BinOp) and isinstance(par.op, ast.Mult):
                    r.violation(f, k, "%s multiplies the parameter vector by np.sign(...): where the argument is exactly zero the whole vector becomes zero (not a valid parameter vector)" % f.short)
    if n < 10:
        raise AnalysisError("C05.R8: only %d _from_vector_inplace bodies (floor 10)" % n)


def rule_r9(p, res):
    r = res.rule("C05.R9", "flattening and rebuilding use a fixed logical element order (C or F), never one that follows the memory layout of the stored array (K / A)")
    n = 0
    for c in p.classes.values():
        for name in ("_as_vector", "as_vector", "from_vector", "_from_vector_inplace", "from_vector_inplace"):
            f = c.methods.get(name)
            if f is None or only_raises(f.node):
                continue
            n += 1
            r.instance(f)
            bad = []
            for k in calls_in(f.node):
                if isinstance(k.func, ast.Attribute) and k.func.attr in ("ravel", "flatten", "reshape") or (dotted(k.func) or "").split(".")[-1] in ("ravel", "reshape"):
                    o = kwarg(k, "order")
                    if o is not None and not (isinstance(o, ast.Constant) and o.value in ("C", "F")):  # 'C' and 'F' are fixed logical orders; 'K' / 'A' follow the memory layout
                        bad.append(k)
            for k in bad:
                r.violation(f, k, "%s flattens / reshapes with order=%s: the element order then follows the memory layout of the stored array, but the inverse operation rebuilds "
                            "in a fixed order, so a Fortran-ordered or transposed matrix does not survive as_vector / from_vector" % (f.short, norm(kwarg(k, "order"))))
            if not bad:
                r.ok()
    if n < 20:
        raise AnalysisError("C05.R9: only %d vectorisation methods found (floor 20)" % n)


# rules of sibling properties over code paths this property's statement also quantifies over (DESIGN.md section 3, shared rules)
ALSO = ['C06.R2', 'C20.R6']

def rule_r10(p, res):
    r = res.rule("C05.R10", "a parameter vector installed as the matrix with the checks switched off is reshaped to a fully determined shape: no -1 wildcard "
                 "that would let a wrong-length vector through as a malformed matrix")
    n_sites = 0
    for f in sorted(p.all_functions(), key=lambda x: x.qualname):
        if not f.module.name.startswith("menpo.transform.") or "/test/" in f.module.relpath:
            continue
        locs = {}
        for n in walk_own(f.node):
            if isinstance(n, ast.Assign) and len(n.targets) == 1 and isinstance(n.targets[0], ast.Name):
                locs.setdefault(n.targets[0].id, []).append(n.value)
        for k in calls_in(f.node):
            if not (isinstance(k.func, ast.Attribute) and k.func.attr in ("_set_h_matrix", "set_h_matrix") and k.args):
                continue
            sc = kwarg(k, "skip_checks")
            if not (isinstance(sc, ast.Constant) and sc.value is True):
                continue
            todo, seen, exprs = [k.args[0]], set(), []
            while todo:
                e = todo.pop()
                exprs.append(e)
                for n in ast.walk(e):
                    if isinstance(n, ast.Name) and n.id not in seen:
                        seen.add(n.id)
                        todo.extend(locs.get(n.id, ()))
            for e in exprs:
                for n in ast.walk(e):
                    if isinstance(n, ast.Call) and ((isinstance(n.func, ast.Attribute) and n.func.attr == "reshape") or (dotted(n.func) or "") == "np.reshape"):
                        n_sites += 1
                        r.instance("%s: %s" % (f.short, norm(n)[:70]))
                        shape_args = n.args[1:] if (dotted(n.func) or "") == "np.reshape" else n.args
                        wild = [c for a in shape_args for c in ast.walk(a)
                                if isinstance(c, ast.UnaryOp) and isinstance(c.op, ast.USub) and isinstance(c.operand, ast.Constant) and c.operand.value == 1]
                        r.check(not wild, f, n, "%s reshapes the parameter vector with a -1 wildcard and installs it with skip_checks=True: a vector of the wrong length "
                                "no longer raises but yields a non-square matrix whose apply / pseudoinverse / compose then fail" % f.short)
    if n_sites < 1:
        raise AnalysisError("C05.R10: no unchecked matrix installation from a reshaped vector found (Homogeneous._from_vector_inplace expected)")


RULES = [rule_r1, rule_r2, rule_r3, rule_r4, rule_r5, rule_r6, rule_r7, rule_r8, rule_r9, rule_r10]

WITNESSES = [
    Witness("C05.W1", "menpo/transform/homogeneous/similarity.py", "Similarity._from_vector_inplace",
            "        raise ValueError('Only 2D and 3D", "        ValueError('Only 2D and 3D", rule="C05.R1", construct="Similarity._from_vector_inplace"),
    Witness("C05.W2", "menpo/transform/homogeneous/translation.py", "Translation._as_vector",
            "return self.h_matrix[:-1, -1]", "return self.h_matrix[0, -1]", rule="C05.R2", construct="Translation._as_vector"),
    Witness("C05.W3", "menpo/shape/pointcloud.py", "PointCloud._as_vector",
            "return self.points.ravel()", "return self.points", rule="C05.R3", construct="PointCloud._as_vector"),
    Witness("C05.W4", "menpo/transform/homogeneous/base.py", "Homogeneous.from_vector",
            "self_copy._from_vector_inplace(vector)", "self._from_vector_inplace(vector)", rule="C05.R4", construct="Homogeneous.from_vector"),
    Witness("C05.W5", "menpo/image/masked.py", "MaskedImage.from_vector",
            "return copy_landmarks_and_path(self, new_image)", "return new_image", rule="C05.R5", construct="MaskedImage.from_vector"),
    Witness("C05.W6", "menpo/transform/homogeneous/translation.py", "AlignmentTranslation._from_vector_inplace",
            "self._sync_target_from_state()", "pass", rule="C05.R6", construct="_from_vector_inplace"),
    Witness("C05.W7", "menpo/image/masked.py", "MaskedImage.from_vector",
            "vector.reshape((n_channels, -1))", "vector.reshape((-1, n_channels))", rule="C05.R7", construct="MaskedImage.from_vector"),
    Witness("C05.W8", "menpo/image/masked.py", "MaskedImage.from_vector",
            "MaskedImage(image_data, mask=self.mask)", "MaskedImage(image_data)", rule="C05.R5", construct="MaskedImage.from_vector"),
    Witness("C05.W9", "menpo/image/boolean.py", "BooleanImage.from_vector",
            "if self.has_landmarks:\n        mask.landmarks = self.landmarks", "if copy:\n        mask.landmarks = self.landmarks",
            rule="C05.R5", construct="BooleanImage.from_vector"),
    Witness("C05.W10", "menpo/image/masked.py", "MaskedImage.from_vector", "dtype=vector.dtype", "dtype=self.pixels.dtype", rule="C05.R7", construct="MaskedImage.from_vector", note="seeded change C05-A"),
    Witness("C05.W11", "menpo/transform/homogeneous/translation.py", "Translation._from_vector_inplace", "self.h_matrix[:-1, -1] = p", "self.h_matrix[:-1, -1] += p", rule="C05.R8", construct="Translation._from_vector_inplace", note="seeded change R2-C05-B"),
    Witness("C05.W12", "menpo/transform/homogeneous/rotation.py", "Rotation._as_vector", "if q[0] < 0.0:\n            q = -q\n        return q", "return q * np.sign(q[0])", rule="C05.R8", construct="Rotation._as_vector", note="seeded change R2-C05-A"),
    Witness("C05.T1", "menpo/transform/homogeneous/similarity.py", "Similarity._from_vector_inplace",
            "self._set_h_matrix(homog, skip_checks=True, copy=False)", "self._set_h_matrix(homog, copy=False, skip_checks=True)", kind="T"),
    Witness("C05.T2", "menpo/shape/pointcloud.py", "PointCloud._as_vector",
            "return self.points.ravel()", "flat = self.points.ravel()\n    return flat", kind="T"),
]

WITNESSES += [
    Witness("C05.W13", "menpo/transform/homogeneous/base.py", "Homogeneous._as_vector", "self.h_matrix.ravel()", "self.h_matrix.ravel(order='K')", rule="C05.R9", construct="Homogeneous._as_vector", note="seeded change R4-C05-B"),
    Witness("C05.T3", "menpo/transform/homogeneous/base.py", "Homogeneous._as_vector", "self.h_matrix.ravel()", "self.h_matrix.ravel(order='C')", kind="T"),
]

WITNESSES += [
    Witness("C05.W14", "menpo/shape/pointcloud.py", "PointCloud._from_vector_inplace", "self.points = vector.reshape([-1, self.n_dims])", "self.points[...] = vector.reshape([-1, self.n_dims])",
            rule="C05.G6", construct="_from_vector_inplace", note="seeded change R5-C05-B (generic: whole-buffer overwrite)"),
    Witness("C05.W15", "menpo/transform/homogeneous/rotation.py", "AlignmentRotation.set_rotation_matrix", "self._sync_target_from_state()", "if not skip_checks:\n        self._sync_target_from_state()",
            rule="C05.G9", construct="set_rotation_matrix", note="seeded change R5-C05-A (generic: unconditional call made conditional)"),
]

WITNESSES += [
    Witness("C05.W_R10", "menpo/transform/homogeneous/base.py", "Homogeneous._from_vector_inplace", "vector.reshape(self.h_matrix.shape)", "vector.reshape((self.n_dims_output + 1, -1))",
            rule="C05.R10", construct="_from_vector_inplace", note="seeded change R4-C05-C (wrong-length vector accepted as a non-square matrix)"),
]
