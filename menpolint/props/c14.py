"""C14 -- graphs, trees and their queries agree with the edges they were built from.

 R1 one axis convention (from = row, to = column) at every site that reads or writes the adjacency matrix
 R2 undirected construction stores both orientations; undirected edges read one triangle (each edge once)
 R3 masking keeps the induced subgraph (same selector on rows, columns and points); trees re-index their root after
    every masking step and refuse to drop it
 R4 shortest-path cost is the all-pairs entry (start, end), not an accumulation of all-pairs entries along the route
 R5 tree bookkeeping: root stored, predecessors derived after the adjacency is set; leaf <=> no children
"""
import ast

from ..loader import AnalysisError, dotted
from ..astutil import walk_own, calls_in, norm, Defs, leaves, stmt_of, kwarg, need, returns_of, expand, const_value
from .. import cfg as cfgmod
from ..effects import get_effects
from ..variants import Witness

PROP = "C14"
EXPLANATION = (
    "The edge-list -> adjacency converter puts edges[:,0] on rows and edges[:,1] on columns; every reader (children, "
    "parents, adjacency list, directed edges, predecessors, relative locations, is_edge, path search) is checked against "
    "that from=row / to=column convention; the symmetric converter stacks both orientations and undirected edges are read "
    "from the upper triangle; _mask_adjacency_matrix_and_points selects rows, columns and points with one selector and "
    "all three point-graph from_mask overrides go through it; PointTree re-indexes its root by the number of removed "
    "vertices before it after every masking step and refuses to drop the root; the shortest-path cost must be the "
    "all-pairs entry (start, end); Tree.__init__ stores the root and derives the predecessor list after the adjacency."
)
NOT_DECIDED = "cycle detection, paths, spanning trees against reference algorithms (needs enumeration of graphs at run time)"
TECHNIQUE = "convention agreement across sibling accessors of the adjacency matrix + CFG pairing of masking and root re-index (static analysis)"

G = "menpo.shape.graph."


def _zip_source(f, name):
    """`name` is bound by  for a, b in zip(A, B)  (or  for a in A): the iterable it walks over"""
    for n in walk_own(f.node):
        if isinstance(n, ast.For):
            tg = n.target.elts if isinstance(n.target, ast.Tuple) else [n.target]
            it = n.iter
            srcs = it.args if isinstance(it, ast.Call) and (dotted(it.func) or "") == "zip" else [it]
            if len(srcs) == len(tg):
                for t_, s_ in zip(tg, srcs):
                    if isinstance(t_, ast.Name) and t_.id == name and isinstance(s_, ast.Name):
                        return s_.id
    return None


def _axis_of(f, d, ax, e):
    """0 / 1 when `e` is an element of the row / column index array of the adjacency matrix (X[i] or a zip loop variable)"""
    e2 = expand(e, d)
    if isinstance(e2, ast.Subscript) and isinstance(e2.value, ast.Name):
        return ax.get(e2.value.id)
    if isinstance(e2, ast.Name):
        src = _zip_source(f, e2.id)
        if src is not None:
            return ax.get(src)
    return None


def _unpack_nonzero(f, d):
    """locals bound to (rows, cols) = X.adjacency_matrix.nonzero(): name -> 0 | 1"""
    out = {}
    for n in walk_own(f.node):
        if isinstance(n, ast.Assign) and isinstance(n.targets[0], ast.Tuple) and len(n.targets[0].elts) == 2 \
                and norm(n.value) in ("self.adjacency_matrix.nonzero()",):
            out[n.targets[0].elts[0].id] = 0
            out[n.targets[0].elts[1].id] = 1
        elif isinstance(n, ast.Assign) and isinstance(n.targets[0], ast.Name):
            s = norm(n.value)
            for ax in (0, 1):
                if s in ("self.adjacency_matrix.nonzero()[%d]" % ax, "list(self.adjacency_matrix.nonzero()[%d])" % ax):
                    out[n.targets[0].id] = ax
    return out


def _rowcol(e, inner_ok):
    """<stack of X.nonzero() as rows>.T : (row, column) pairs; accepts vstack / stack(axis=0) / array / column_stack without .T"""
    t = False
    if isinstance(e, ast.Attribute) and e.attr == "T":
        e, t = e.value, True
    if not isinstance(e, ast.Call) or not e.args:
        return False
    fn_ = (dotted(e.func) or "").split(".")[-1]
    arg = e.args[0]
    if not (isinstance(arg, ast.Call) and isinstance(arg.func, ast.Attribute) and arg.func.attr == "nonzero" and str(norm(arg.func.value)) in inner_ok):
        return False
    ax = kwarg(e, "axis")
    if fn_ in ("vstack", "array", "asarray") or (fn_ == "stack" and (ax is None or const_value(ax) == 0)):
        return t
    if fn_ in ("column_stack",) or (fn_ == "stack" and const_value(ax) in (1, -1)):
        return not t
    return False


def rule_r1(p, res):
    r = res.rule("C14.R1", "from = row, to = column at every adjacency site")
    conv = p.func(G + "_convert_edges_to_adjacency_matrix")
    r.instance(conv)
    ok = False
    for c in calls_in(conv.node):
        if (dotted(c.func) or "") == "csr_matrix" and c.args and isinstance(c.args[0], ast.Tuple) and len(c.args[0].elts) == 2 and isinstance(c.args[0].elts[1], ast.Tuple):
            dcv = Defs(conv.node)
            ep = conv.params[0]
            rc = [str(norm(expand(x, dcv))) for x in c.args[0].elts[1].elts]
            ok = rc == ["%s[:, 0]" % ep, "%s[:, 1]" % ep]
            site = c
    need(any((dotted(c.func) or "") == "csr_matrix" for c in calls_in(conv.node)), "C14.R1: converter no longer builds a csr_matrix")
    r.check(ok, conv, conv.node, "edge (a, b) must be stored at row a, column b (rows=edges[:,0], cols=edges[:,1])", {"site": "converter"})
    # children / parents
    ch = p.own_method("DirectedGraph", "children")
    pa = p.own_method("DirectedGraph", "parents")
    for f, want, what in ((ch, "list(self.adjacency_matrix[vertex, :].nonzero()[1])", "children(v) = columns of row v"),
                          (pa, "list(self.adjacency_matrix[:, vertex].nonzero()[0])", "parents(v) = rows of column v")):
        r.instance(f)
        rets = returns_of(f.node)
        got = norm(rets[0].value).replace(f.params[1], "vertex") if rets else None
        r.check(len(rets) == 1 and got == want, f, f.node, "%s; found `%s`" % (what, got), {"site": f.short, "expr": got})
    nb = p.own_method("UndirectedGraph", "neighbours")
    r.instance(nb)
    rets = returns_of(nb.node)
    got = norm(rets[0].value).replace(nb.params[1], "vertex") if rets else ""
    r.check(got in ("list(self.adjacency_matrix[vertex, :].nonzero()[1])", "list(self.adjacency_matrix[:, vertex].nonzero()[0])"), nb, nb.node, "neighbours(v) must read row (or column) v")
    # adjacency list
    al = p.own_method("Graph", "get_adjacency_list")
    r.instance(al)
    d = Defs(al.node)
    ax = _unpack_nonzero(al, d)
    app = [c for c in calls_in(al.node) if isinstance(c.func, ast.Attribute) and c.func.attr == "append" and isinstance(c.func.value, ast.Subscript)]
    need(len(app) == 1 and app[0].args, "C14.R1: get_adjacency_list append site not recognised")
    key, val = app[0].func.value.slice, app[0].args[0]

    def axis_of(e):
        return _axis_of(al, d, ax, e)
    r.check(axis_of(key) == 0 and axis_of(val) == 1, al, app[0], "adjacency list of a vertex (row) must collect the column indices of its row", {"site": "adjacency list"})
    # directed edges
    de = p.own_method("DirectedGraph", "edges")
    r.instance(de)
    rets = returns_of(de.node)
    r.check(len(rets) == 1 and _rowcol(rets[0].value, ("self.adjacency_matrix",)), de, de.node, "directed edges must be listed as (row, column) = (from, to)")
    # predecessors
    pl = p.own_method("Tree", "_get_predecessors_list")
    r.instance(pl)
    d = Defs(pl.node)
    ax = _unpack_nonzero(pl, d)
    st = [n for n in walk_own(pl.node) if isinstance(n, ast.Assign) and isinstance(n.targets[0], ast.Subscript) and norm(n.targets[0].value) == "predecessors_list"]
    need(len(st) == 1, "C14.R1: predecessor store not recognised")

    def axis2(e):
        return _axis_of(pl, d, ax, e)
    r.check(axis2(st[0].targets[0].slice) == 1 and axis2(st[0].value) == 0, pl, st[0], "predecessor of a child (column) is its parent (row)", {"site": "predecessors"})
    # relative locations
    rl = p.own_method("PointDirectedGraph", "relative_locations")
    r.instance(rl)
    d = Defs(rl.node)
    ax = _unpack_nonzero(rl, d)
    rets = returns_of(rl.node)
    v = rets[0].value if rets else None
    ok = isinstance(v, ast.BinOp) and isinstance(v.op, ast.Sub) and isinstance(v.left, ast.Subscript) and isinstance(v.right, ast.Subscript) \
        and isinstance(v.left.slice, ast.Name) and isinstance(v.right.slice, ast.Name) and ax.get(v.left.slice.id) == 1 and ax.get(v.right.slice.id) == 0
    r.check(ok, rl, rl.node, "relative location of an edge is points[child=column] - points[parent=row]", {"site": "relative_locations"})
    re_ = p.own_method("PointDirectedGraph", "relative_location_edge")
    r.instance(re_)
    a, b = re_.params[1], re_.params[2]
    rets = returns_of(re_.node)
    r.check(len(rets) == 1 and norm(rets[0].value) == "self.points[%s, ...] - self.points[%s, ...]" % (b, a), re_, re_.node, "relative_location_edge(parent, child) = points[child] - points[parent]")
    r.check(any(norm(c) == "self.is_edge(%s, %s)" % (a, b) for c in calls_in(re_.node)), re_, re_.node, "the edge test must be (parent, child)")
    ie = p.own_method("Graph", "is_edge")
    r.instance(ie)
    rets = returns_of(ie.node)
    r.check(len(rets) == 1 and norm(rets[0].value) == "self.adjacency_matrix[%s, %s] != 0" % (ie.params[1], ie.params[2]), ie, ie.node, "is_edge(a, b) reads entry [a, b]")
    fp = p.own_method("Graph", "find_all_paths")
    r.instance(fp)
    loops = [n for n in walk_own(fp.node) if isinstance(n, ast.For)]
    dfp = Defs(fp.node)
    succ_ok = ("list(self.adjacency_matrix[%s, :].nonzero()[1])" % fp.params[1], "self.adjacency_matrix[%s, :].nonzero()[1]" % fp.params[1], "self.children(%s)" % fp.params[1])
    its = [str(norm(expand(n.iter, dfp))) for n in loops] + [str(norm(expand(c.args[0], dfp))) for c in calls_in(fp.node) if isinstance(c.func, ast.Attribute) and c.func.attr == "extend" and c.args]
    col_form = "self.adjacency_matrix[:, %s]" % fp.params[1]
    if any(col_form in x for x in its):
        r.violation(fp, fp.node, "path search expands the predecessors (column) of the current vertex instead of its successors (row)")
    else:
        need(any(x in succ_ok or any(y in x for y in succ_ok) for x in its), "C14.R1: the successor expansion of find_all_paths was not recognised")
        r.ok({"site": "find_all_paths"})
    # isolated vertices: no entry in their row and none in their column
    iv = p.func(G + "_isolated_vertices")
    r.instance(iv)
    s = norm(iv.node)
    r.check("nonzero()[0]" in s and "nonzero()[1]" in s and "rows.intersection(cols)" in s, iv, iv.node, "a vertex is isolated iff it has neither outgoing nor incoming edges")
    r.floor(11, "axis-convention sites")


def rule_r2(p, res):
    r = res.rule("C14.R2", "undirected graphs: both orientations stored, each edge reported once")
    f = p.func(G + "_convert_edges_to_symmetric_adjacency_matrix")
    r.instance(f)
    d = Defs(f.node)
    rows, cols = d.single("rows"), d.single("cols")
    ok = rows is not None and cols is not None and norm(rows) == "np.hstack((edges[:, 0], edges[:, 1]))" and norm(cols) == "np.hstack((edges[:, 1], edges[:, 0]))"
    r.check(ok, f, f.node, "the symmetric converter must store (a,b) and (b,a): rows=[e0,e1], cols=[e1,e0] (found rows=%s cols=%s)" % (norm(rows) if rows else None, norm(cols) if cols else None),
            {"rows": norm(rows) if rows else None, "cols": norm(cols) if cols else None})
    r.check(any(isinstance(n, ast.Assign) and norm(n) == "adjacency_matrix[adjacency_matrix.nonzero()] = 1" for n in walk_own(f.node)), f, f.node,
            "duplicate edges must not accumulate into weights (entries reset to 1)")
    ue = p.own_method("UndirectedGraph", "edges")
    r.instance(ue)
    rets = returns_of(ue.node)
    r.check(len(rets) == 1 and _rowcol(rets[0].value, ("triu(self.adjacency_matrix)", "tril(self.adjacency_matrix)")), ue, ue.node,
            "undirected edges must be read from one triangle of the symmetric matrix (each edge once)")
    for cname, conv in (("UndirectedGraph", "_convert_edges_to_symmetric_adjacency_matrix"), ("PointUndirectedGraph", "_convert_edges_to_symmetric_adjacency_matrix"),
                        ("Graph", "_convert_edges_to_adjacency_matrix"), ("PointGraph", "_convert_edges_to_adjacency_matrix"),
                        ("Tree", "_convert_edges_to_adjacency_matrix"), ("PointTree", "_convert_edges_to_adjacency_matrix")):
        m = p.own_method(cname, "init_from_edges")
        r.instance(m)
        r.check(any((dotted(c.func) or "") == conv for c in calls_in(m.node)), m, m.node, "%s.init_from_edges must build its adjacency with %s" % (cname, conv))
    # directed classes must not inherit the symmetric constructor and vice versa
    for cname, want in (("PointDirectedGraph", "PointGraph"), ("DirectedGraph", "Graph"), ("LabelledPointUndirectedGraph", None)):
        c = p.cls(cname)
        m = p.lookup(c, "init_from_edges")
        if want:
            r.check(m.cls.name == want, c, c.node, "%s.init_from_edges resolves to %s (expected %s)" % (cname, m.cls.name, want))
    gi = p.own_method("Graph", "__init__")
    r.instance(gi)
    s = norm(gi.node)
    r.check("not self._directed and (not _is_symmetric(adjacency_matrix))" in s, gi, gi.node, "an undirected graph must reject an asymmetric adjacency matrix")


def rule_r3(p, res):
    r = res.rule("C14.R3", "masking = induced subgraph; trees re-index the root after every masking step")
    f = p.func(G + "_mask_adjacency_matrix_and_points")
    r.instance(f)
    d = Defs(f.node)
    mk = f.params[0]
    keep = d.single("indices_to_keep")
    if keep is None:
        cands = [v_ for nm_, ds_ in d.defs.items() for k_, v_, st_ in ds_ if k_ == "assign" and isinstance(v_, ast.AST) and ("nonzero(" in norm(v_)) and mk in norm(v_)]
        keep = cands[0] if len(cands) == 1 else None
    need(keep is not None, "C14.R3: the index of kept vertices was not found in _mask_adjacency_matrix_and_points")
    r.check(norm(keep) in ("np.nonzero(%s)[0]" % mk, "np.flatnonzero(%s)" % mk, "np.where(%s)[0]" % mk), f, f.node, "kept vertices = positions where the mask is True")
    sel = [norm(v) for k, v, s in d.of(f.params[1]) if k == "assign"]
    r.check(sorted(sel) == sorted(["%s[indices_to_keep, :]" % f.params[1], "%s[:, indices_to_keep]" % f.params[1]]), f, f.node,
            "rows and columns must both be selected with the kept indices (found %s)" % sel, {"adjacency_selection": sel})
    psel = [norm(v) for k, v, s in d.of(f.params[2]) if k == "assign"]
    r.check(psel in (["%s[%s, :]" % (f.params[2], mk)], ["%s[indices_to_keep, :]" % f.params[2]], ["%s[%s]" % (f.params[2], mk)]), f, f.node,
            "points must be selected with the same mask (found %s)" % psel, {"point_selection": psel})
    rets = returns_of(f.node)
    r.check(len(rets) == 1 and norm(rets[0].value) == "(%s, %s)" % (f.params[1], f.params[2]), f, f.node, "masked adjacency and points must be returned together")
    s = get_effects(p).summary(f)
    r.check(not s.effects, f, f.node, "the masking helper must not modify its arguments")
    for cname in ("PointUndirectedGraph", "PointDirectedGraph", "PointTree"):
        m = p.own_method(cname, "from_mask")
        r.instance(m)
        d = Defs(m.node)
        g = cfgmod.build(m.node)
        cs = [c for c in calls_in(m.node) if (dotted(c.func) or "") == "_mask_adjacency_matrix_and_points"]
        need(cs, "C14.R3: %s.from_mask does not use the masking helper" % cname)
        first = min(cs, key=lambda c: c.lineno)
        r.check([norm(a) for a in first.args] == [m.params[1], "self.adjacency_matrix", "self.points"], m, first, "the graph's own adjacency and points must be masked with the caller's mask")
        ctor = [c for c in calls_in(m.node) if (dotted(c.func) or "") == cname and len(c.args) >= 2]
        part = [c for c in ctor if [norm(a) for a in c.args[:2]] == ["points", "adjacency_matrix"]]
        r.check(bool(part), m, m.node, "%s.from_mask must build the result from the masked points and adjacency" % cname)
        for c in part:
            sk = kwarg(c, "skip_checks")
            r.check(sk is not None and const_value(sk) is False, m, c, "the masked %s must be re-validated (skip_checks=False)" % cname)
        raises = [n for n in walk_own(m.node) if isinstance(n, ast.Raise)]
        r.check(any(any(pol and "shape[0] != self.n_points" in norm(t) for t, pol in g.guards(n)) for n in raises), m, m.node, "a mask of the wrong length must be rejected")
    # the tree
    m = p.own_method("PointTree", "from_mask")
    d = Defs(m.node)
    g = cfgmod.build(m.node)
    cs = [c for c in calls_in(m.node) if (dotted(c.func) or "") == "_mask_adjacency_matrix_and_points"]
    reidx = []
    for n in walk_own(m.node):
        if isinstance(n, ast.Assign) and isinstance(n.targets[0], ast.Name) and n.targets[0].id == "root_vertex" and isinstance(n.value, ast.BinOp) and isinstance(n.value.op, ast.Sub):
            left, right = norm(n.value.left), norm(n.value.right)
            for mk_name in {norm(c.args[0]) for c in cs}:
                if right == "np.sum(~%s[:%s])" % (mk_name, left) and left in ("self.root_vertex", "root_vertex"):
                    reidx.append((n, mk_name))
    for c in cs:
        st = stmt_of(c)
        mk_name = norm(c.args[0])
        mine = [n for n, k in reidx if k == mk_name]
        # the root being shifted must be expressed in the index space of the arrays that were just masked:
        # self.root_vertex for self.adjacency_matrix, the already renumbered local root for the local arrays
        space = "self.root_vertex" if norm(c.args[1]) == "self.adjacency_matrix" else "root_vertex"
        near = [n for n in mine if g.reaches(st, n) and not any(g.reaches(stmt_of(o), n) and g.reaches(st, stmt_of(o)) and stmt_of(o) is not st for o in cs if o is not c and norm(o.args[0]) != mk_name)]
        for n in mine:
            if g.reaches(st, n):
                src = norm(n.value.left)
                # re-index statements that follow this masking step directly (same block)
                if getattr(n, "_parent", None) is getattr(st, "_parent", None):
                    r.check(src == space, m, n, "after masking `%s` the root is shifted starting from `%s`, but the arrays just masked are indexed like `%s`: after a second "
                            "masking step the root would be computed from a stale numbering" % (norm(c.args[1]), src, space), {"masked": norm(c.args[1]), "root_source": src})
        others = [stmt_of(x) for x in cs if x is not c]
        # every path from this masking step to a return or to another masking step passes a re-index with the same mask
        ok = bool(mine) and g.all_paths_after_pass(st, mine, cfgmod.RETURN) and all(not g.reaches(st, o, avoid=mine) or o is st for o in others)
        r.check(ok, m, c, "after masking with `%s` the root index is not shifted by the number of removed vertices before it on every path: the "
                "tree would be rebuilt around the wrong vertex" % mk_name, {"masking": norm(c)[:60], "reindex": [norm(n)[:60] for n in mine]})
    raises = [n for n in walk_own(m.node) if isinstance(n, ast.Raise)]
    r.check(any(any((not pol) and norm(t) == "%s[self.root_vertex]" % m.params[1] for t, pol in g.guards(n)) for n in raises), m, m.node, "removing the root vertex must be refused")
    ctor = [c for c in calls_in(m.node) if (dotted(c.func) or "") == "PointTree"]
    r.check(bool(ctor) and all(kwarg(c, "root_vertex") is not None and norm(kwarg(c, "root_vertex")) == "root_vertex" for c in ctor), m, m.node, "the rebuilt tree must use the re-indexed root")
    r.check("csgraph.connected_components" in norm(m.node) and "labels[root_vertex]" in norm(m.node), m, m.node, "only the component connected to the root may be kept")
    di = p.own_method("PointTree", "init_from_depth_image")
    r.instance(di)
    s = norm(di.node)
    r.check("root_vertex = root_vertex - np.sum(~mask[:root_vertex])" in s, di, di.node, "the root of a masked depth image must be shifted by the removed pixels before it")


def rule_r4(p, res):
    r = res.rule("C14.R4", "shortest-path cost is the all-pairs entry (start, end)")
    f = p.own_method("Graph", "find_shortest_path")
    r.instance(f)
    d = Defs(f.node)
    start, end = f.params[1], f.params[2]
    rets = returns_of(f.node)
    need(len(rets) == 1 and isinstance(rets[0].value, ast.Tuple) and len(rets[0].value.elts) == 2, "C14.R4: find_shortest_path must return (path, distance)")
    dist = rets[0].value.elts[1]
    need(isinstance(dist, ast.Name), "C14.R4: distance is not a local")
    # the all-pairs matrix
    ap = None
    for n in walk_own(f.node):
        if isinstance(n, ast.Assign) and isinstance(n.value, ast.Call) and norm(n.value.func) == "self.find_all_shortest_paths" and isinstance(n.targets[0], ast.Tuple):
            ap = n.targets[0].elts[0].id
            pred = n.targets[0].elts[1].id
    need(ap is not None, "C14.R4: the all-pairs distances are no longer obtained from find_all_shortest_paths")
    ok_direct = False
    for kind, val, st in d.of(dist.id):
        if kind == "aug":
            op, rhs = val
            if any(isinstance(x, ast.Subscript) and isinstance(x.value, ast.Name) and x.value.id == ap for x in ast.walk(rhs)):
                r.violation(f, st, "the cost accumulates all-pairs distances `%s` along the route: each term is already the full distance from "
                            "the start, so the total is wrong (an edge 0->1 reports 0, a two-edge path counts the first edge twice)" % norm(rhs))
            else:
                r.ok()
        elif kind == "assign" and isinstance(val, ast.Subscript) and isinstance(val.value, ast.Name) and val.value.id == ap:
            ok_direct = norm(val.slice) == "(%s, %s)" % (start, end)
            r.check(ok_direct, f, st, "the cost must be the all-pairs entry [start, end], found [%s]" % norm(val.slice), {"cost": norm(val)})
    unreachable = [st for kind, val, st in d.of(dist.id) if kind == "assign" and norm(val) == "np.inf"]
    r.check(bool(unreachable), f, f.node, "an unreachable end vertex must cost infinity")
    # route reconstruction walks predecessors[start, .]
    loops = [n for n in walk_own(f.node) if isinstance(n, ast.While)]
    r.check(any("%s[%s, path[-1]]" % (pred, start) in norm(n) for n in loops), f, f.node, "the route must follow the predecessor matrix of the start vertex back from the end")
    r.check(any(norm(c) == "path.reverse()" for c in calls_in(f.node)), f, f.node, "the route is collected end-to-start and must be reversed")
    fa = p.own_method("Graph", "find_all_shortest_paths")
    r.instance(fa)
    c = [x for x in calls_in(fa.node) if (dotted(x.func) or "") == "csgraph.shortest_path"]
    need(len(c) == 1, "C14.R4: find_all_shortest_paths must call csgraph.shortest_path")
    kw = {k.arg: norm(k.value) for k in c[0].keywords}
    r.check(kw.get("directed") == "self._directed" and kw.get("unweighted") == "unweighted" and kw.get("method") == "algorithm" and kw.get("return_predecessors") == "True",
            fa, c[0], "directedness / weighting / algorithm must be forwarded to scipy (found %s)" % kw, {"forwarded": kw})
    fpth = p.own_method("Graph", "find_path")
    r.instance(fpth)
    for c in calls_in(fpth.node):
        if (dotted(c.func) or "") in ("csgraph.breadth_first_order", "csgraph.depth_first_order"):
            r.check(kwarg(c, "directed") is not None and norm(kwarg(c, "directed")) == "self._directed" and len(c.args) >= 2 and norm(c.args[1]) == fpth.params[1], fpth, c,
                    "graph search must start at `start` and honour directedness")
    for cname, ctor in (("UndirectedGraph", "Tree(mst_adjacency, %s"), ("PointUndirectedGraph", "PointTree(self.points, mst_adjacency, %s")):
        ms = p.own_method(cname, "minimum_spanning_tree")
        r.instance(ms)
        s = norm(ms.node)
        r.check("mst_adjacency = csgraph.minimum_spanning_tree(self.adjacency_matrix)" in s and "mst_adjacency = csgraph.depth_first_tree(mst_adjacency, %s, directed=False)" % ms.params[1] in s, ms, ms.node,
                "%s.minimum_spanning_tree: the tree that is rooted at the requested vertex must be the minimum spanning tree just computed (not the graph itself)" % cname, {"class": cname})
        r.check(ctor % ms.params[1] in s, ms, ms.node, "the spanning tree must be rooted at the requested vertex")
    for c in p.descendants(p.cls("UndirectedGraph"), include_self=False):
        if "minimum_spanning_tree" in c.methods and c.name not in ("PointUndirectedGraph",):
            r.note("%s overrides minimum_spanning_tree" % c.name)


def rule_r5(p, res):
    r = res.rule("C14.R5", "tree bookkeeping: root stored, predecessors after adjacency; leaf <=> no children; parent from predecessors")
    ti = p.own_method("Tree", "__init__")
    r.instance(ti)
    g = cfgmod.build(ti.node)
    sup = [stmt_of(c) for c in calls_in(ti.node) if isinstance(c.func, ast.Attribute) and c.func.attr == "__init__"]
    need(sup, "C14.R5: Tree.__init__ no longer calls the base initialiser")
    st_root = [n for n in walk_own(ti.node) if isinstance(n, ast.Assign) and norm(n.targets[0]) == "self.root_vertex"]
    st_pred = [n for n in walk_own(ti.node) if isinstance(n, ast.Assign) and norm(n.targets[0]) == "self.predecessors_list"]
    r.check(len(st_root) == 1 and norm(st_root[0].value) == ti.params[2], ti, ti.node, "the root vertex must be stored as given")
    r.check(len(st_pred) == 1 and norm(st_pred[0].value) == "self._get_predecessors_list()" and g.dominates(sup[0], st_pred[0]), ti, ti.node,
            "the predecessor list must be derived after the adjacency matrix is set")
    r.check(len(st_root) == 1 and g.must_pass([st_root[0]], cfgmod.RETURN), ti, ti.node, "every construction path must store the root")
    il = p.own_method("Tree", "is_leaf")
    r.instance(il)
    rets = returns_of(il.node)
    r.check(len(rets) == 1 and norm(rets[0].value) == "len(self.children(%s)) == 0" % il.params[1], il, il.node, "is_leaf <=> no children")
    pr = p.own_method("Tree", "parent")
    r.instance(pr)
    rets = returns_of(pr.node)
    r.check(len(rets) == 1 and norm(rets[0].value) == "self.predecessors_list[%s]" % pr.params[1], pr, pr.node, "parent must read the predecessor list")
    dv = p.own_method("Tree", "depth_of_vertex")
    r.instance(dv)
    s = norm(dv.node)
    r.check("while not parent == self.root_vertex" in s and "parent = self.predecessors_list[current]" in s and "depth += 1" in s, dv, dv.node, "depth = number of predecessor steps up to the root")
    it = p.own_method("Graph", "is_tree")
    r.instance(it)
    rets = returns_of(it.node)
    r.check(len(rets) == 1 and norm(rets[0].value) == "not self.has_cycles() and self.n_edges == self.n_vertices - 1", it, it.node, "a tree is acyclic with n-1 edges")
    pt = p.own_method("PointTree", "__init__")
    r.instance(pt)
    cs = [norm(c) for c in calls_in(pt.node)]
    r.check(any(x.startswith("Tree.__init__(self, adjacency_matrix, root_vertex") for x in cs), pt, pt.node, "PointTree must initialise its Tree part with the root")
    _predefined_roots(p, r)
    lv = p.own_method("Tree", "leaves")
    r.instance(lv)
    fl = [n_ for n_ in ast.walk(lv.node) if isinstance(n_, (ast.For, ast.comprehension))]
    need(len(fl) == 1, "C14.R5: the vertex scan of Tree.leaves was not found")
    r.check(str(norm(fl[0].iter)) == "range(self.n_vertices)", lv, lv.node, "Tree.leaves scans `%s`: every vertex, vertex 0 included, must be tested (the root need not be vertex 0)" % norm(fl[0].iter))


def _predefined_roots(p, r):
    """the root recorded for a predefined tree is the vertex its edges start from"""
    GP = "menpo.shape.graph_predefined."
    sg = p.func(GP + "star_graph")
    r.instance(sg)
    hub = [k for k in calls_in(sg.node) if (dotted(k.func) or "") == "_get_star_graph_edges"]
    need(len(hub) == 1 and len(hub[0].args) == 2, "C14.R5: star_graph no longer builds its edges with _get_star_graph_edges(vertices, hub)")
    hubx = norm(hub[0].args[1])
    r.check(hubx == sg.params[1], sg, hub[0], "the star's edges must fan out from the requested root vertex")
    roots = [(k, kwarg(k, "root_vertex")) for k in calls_in(sg.node) if kwarg(k, "root_vertex") is not None]
    need(len(roots) >= 2, "C14.R5: star_graph's tree constructions were not found")
    for k, v in roots:
        r.check(norm(v) == hubx, sg, k, "star_graph records root_vertex=%s on this path while its edges fan out from `%s`: root, parent and depth queries then contradict the edges"
                % (norm(v), hubx), {"builder": "star_graph", "root": norm(v)})
    he = p.func(GP + "_get_star_graph_edges")
    r.instance(he)
    s_ = norm(he.node)
    r.check("edges.append([%s, v])" % he.params[1] in s_, he, he.node, "every star edge must lead from the hub to another vertex")
    cg = p.func(GP + "chain_graph")
    r.instance(cg)
    for k in calls_in(cg.node):
        v = kwarg(k, "root_vertex")
        if v is not None:
            r.check(const_value(v) == 0, cg, k, "a chain's edges start at vertex 0, which must be the recorded root (found root_vertex=%s)" % norm(v), {"builder": "chain_graph", "root": norm(v)})


def rule_r6(p, res):
    r = res.rule("C14.R6", "cycle detector: depth-first discipline (entered before, exited after all successors)")
    f = p.func(G + "_has_cycles")
    r.instance(f)
    inner = [n for n in f.node.body if isinstance(n, ast.FunctionDef)]
    need(len(inner) == 1, "C14.R6: _has_cycles must define one recursive helper")
    dfs = inner[0]
    node = dfs.args.args[0].arg
    loops = [n for n in walk_own(dfs) if isinstance(n, ast.For)]
    need(len(loops) == 1 and norm(loops[0].iter) == "adjacency_list[%s]" % node, "C14.R6: successor loop not recognised")
    lp = loops[0]
    ent = [stmt_of(k) for k in calls_in(dfs) if norm(k) == "entered.add(%s)" % node]
    ext = [stmt_of(k) for k in calls_in(dfs) if norm(k) == "exited.add(%s)" % node]
    need(len(ent) == 1 and len(ext) == 1, "C14.R6: entered/exited bookkeeping not recognised")
    par = getattr(lp, "_parent", None)
    same_block = getattr(ent[0], "_parent", None) is par and getattr(ext[0], "_parent", None) is par
    r.check(same_block and ent[0].lineno < lp.lineno < ext[0].lineno and not any(ext[0] is x for x in ast.walk(lp)), f, ext[0],
            "a vertex must be marked exited once, after *all* of its successors have been explored (post-order); marking it inside the successor loop makes a "
            "vertex reachable by two routes look like a back edge", {"entered_line": ent[0].lineno, "loop_line": lp.lineno, "exited_line": ext[0].lineno})
    rec = [k for k in calls_in(lp) if norm(k.func) == dfs.name]
    r.check(len(rec) == 1 and norm(rec[0].args[0]) == norm(lp.target), f, lp, "every successor must be explored recursively")
    # every vertex is tried as a start: the negative answer is given only after the loop over the start vertices
    outer = [n_ for n_ in f.node.body if isinstance(n_, ast.For)]
    need(len(outer) == 1, "C14.R6: the loop over the start vertices of _has_cycles was not found")
    inside = [x for x in ast.walk(outer[0]) if isinstance(x, ast.Return) and x.value is not None and isinstance(x.value, ast.Constant) and x.value.value is False and not any(x is y for s_ in outer[0].orelse for y in ast.walk(s_))]
    r.check(not inside, f, inside[0] if inside else outer[0], "`return False` sits inside the loop over the start vertices: only the component of the first vertex is searched, "
            "a cycle that is not reachable from it is missed")
    # when is a back edge recorded?  truth table over (directed, neighbour entered, neighbour exited, neighbour is the tree parent)
    y = norm(lp.target)
    rec_be = [stmt_of(k) for k in calls_in(lp) if "back_edges" in norm(k.func) and isinstance(k.func, ast.Attribute) and k.func.attr in ("add", "append", "setdefault")]
    rec_be += [n for n in walk_own(lp) if isinstance(n, ast.Assign) and "back_edges" in norm(n.targets[0])]
    need(rec_be, "C14.R6: the statement that records a back edge was not found")
    gd = cfgmod.build(dfs)
    guards = [(t_, pol) for t_, pol in gd.guards(rec_be[0]) if any(x is t_ for st_ in walk_own(lp) for x in ast.walk(st_))]

    def ev(e, asg):
        if isinstance(e, ast.UnaryOp) and isinstance(e.op, ast.Not):
            v = ev(e.operand, asg)
            return None if v is None else not v
        if isinstance(e, ast.BoolOp):
            vs = [ev(v, asg) for v in e.values]
            if any(v is None for v in vs):
                return None
            return all(vs) if isinstance(e.op, ast.And) else any(vs)
        if isinstance(e, ast.IfExp):
            c_ = ev(e.test, asg)
            return None if c_ is None else ev(e.body if c_ else e.orelse, asg)
        if isinstance(e, ast.Name) and e.id == "directed":
            return asg["d"]
        if isinstance(e, ast.Compare) and len(e.ops) == 1:
            l_, r_ = norm(e.left), norm(e.comparators[0])
            op = e.ops[0]
            if isinstance(op, (ast.In, ast.NotIn)) and l_ == y and r_ in ("entered", "exited"):
                v = asg[r_]
                return v if isinstance(op, ast.In) else not v
            if isinstance(op, (ast.Eq, ast.NotEq)) and {l_, r_} == {y, "tree_edges.get(%s, None)" % node}:
                v = asg["parent"]
                return v if isinstance(op, ast.Eq) else not v
        return None
    bad = []
    for asg in ({"d": a_, "entered": b_, "exited": c_, "parent": d_} for a_ in (0, 1) for b_ in (0, 1) for c_ in (0, 1) for d_ in (0, 1)):
        got = True
        for t_, pol in guards:
            v = ev(t_, asg)
            if v is None:
                raise AnalysisError("C14.R6: cannot evaluate the back-edge condition `%s`" % norm(t_)[:70])
            got = got and (bool(v) == bool(pol))
        want = bool(asg["entered"]) and ((not asg["d"] and not asg["parent"]) or (asg["d"] and not asg["exited"]))
        if got != want:
            bad.append(dict(asg))
    r.check(not bad, f, rec_be[0], "back edge: undirected -> an entered neighbour that is not the tree parent; directed -> an entered neighbour that has not been exited "
            "(the recorded condition differs for %s)" % (bad[:2],), {"back_edge_cases": 16})
    outer = [n for n in f.node.body if isinstance(n, ast.For)]
    r.check(len(outer) == 1 and norm(outer[0].iter) == "range(len(adjacency_list))", f, f.node, "every vertex must be tried as a start (disconnected graphs)")


def rule_r7(p, res):
    r = res.rule("C14.R7", "predefined lattices: the closing edge of a chain runs last -> first; grid strides follow the row-major vertex numbering")
    f = p.func("menpo.shape.graph_predefined._get_chain_graph_edges")
    r.instance(f)
    d = Defs(f.node)
    vl, closed = f.params[0], f.params[1]
    g = cfgmod.build(f.node)
    apps = [k for k in calls_in(f.node) if isinstance(k.func, ast.Attribute) and k.func.attr == "append" and any(norm(t) in (closed,) and pol for t, pol in g.guards(stmt_of(k)))]
    need(len(apps) == 1, "C14.R7: closing edge of the chain not found")
    e = apps[0].args[0]
    if isinstance(e, (ast.List, ast.Tuple)):
        elts = []
        for x in e.elts:
            if isinstance(x, ast.Name):
                rd = [v for kd, v, st in cfgmod.reaching_defs(g, d, x.id, stmt_of(apps[0])) if kd == "assign"]
                x = rd[0] if len(rd) == 1 else x
            elts.append(x)
        e = ast.List(elts=elts, ctx=ast.Load())
    r.check(norm(e) in ("[%s[-1], %s[0]]" % (vl, vl), "(%s[-1], %s[0])" % (vl, vl)), f, apps[0],
            "the closing edge of a closed chain must run from the last vertex to the first (found `%s`): reversed it breaks the directed ring" % norm(e))
    sg = p.func("menpo.shape.graph_predefined.stencil_grid")
    r.instance(sg)
    ds = Defs(sg.node)
    st = ds.single("strides")
    need(st is not None, "C14.R7: strides of stencil_grid not found")
    shape = sg.params[1]
    txt = norm(st)
    r.check(("reversed(%s)" % shape) in txt or ("%s[::-1]" % shape) in txt, sg, st, "grid strides must be the cumulative products of the *reversed* shape (row-major numbering); found `%s`: on a non-square "
            "grid vertex k is then linked to k + n_rows instead of k + n_cols" % txt)


RULES = [rule_r1, rule_r2, rule_r3, rule_r4, rule_r5, rule_r6, rule_r7]

WITNESSES = [
    Witness("C14.W1", "menpo/shape/graph.py", "DirectedGraph.parents", "self.adjacency_matrix[:, vertex].nonzero()[0]", "self.adjacency_matrix[vertex, :].nonzero()[1]",
            rule="C14.R1", construct="DirectedGraph.parents"),
    Witness("C14.W2", "menpo/shape/graph.py", "_convert_edges_to_symmetric_adjacency_matrix", "cols = np.hstack((edges[:, 1], edges[:, 0]))", "cols = np.hstack((edges[:, 0], edges[:, 1]))",
            rule="C14.R2", construct="_convert_edges_to_symmetric_adjacency_matrix"),
    Witness("C14.W3", "menpo/shape/graph.py", "_mask_adjacency_matrix_and_points", "adjacency_matrix = adjacency_matrix[:, indices_to_keep]", "pass",
            rule="C14.R3", construct="_mask_adjacency_matrix_and_points"),
    Witness("C14.W4", "menpo/shape/graph.py", "PointTree.from_mask", "            root_vertex = root_vertex - np.sum(~mask[:root_vertex])\n", "            pass\n",
            rule="C14.R3", construct="PointTree.from_mask"),
    Witness("C14.W5", "menpo/shape/graph.py", "Graph.find_all_shortest_paths", "directed=self._directed", "directed=True", rule="C14.R4", construct="Graph.find_all_shortest_paths"),
    Witness("C14.W6", "menpo/shape/graph.py", "Tree._get_predecessors_list", "predecessors_list[child] = parent", "predecessors_list[parent] = child", rule="C14.R1", construct="Tree._get_predecessors_list"),
    Witness("C14.W7", "menpo/shape/graph.py", "PointDirectedGraph.relative_locations", "return self.points[children] - self.points[parents]", "return self.points[parents] - self.points[children]",
            rule="C14.R1", construct="relative_locations"),
    Witness("C14.W8", "menpo/shape/graph.py", "UndirectedGraph.edges", "np.vstack(triu(self.adjacency_matrix).nonzero()).T", "np.vstack(self.adjacency_matrix.nonzero()).T",
            rule="C14.R2", construct="UndirectedGraph.edges"),
    Witness("C14.W9", "menpo/shape/graph.py", "Tree.is_leaf", "len(self.children(vertex)) == 0", "len(self.parents(vertex)) == 0", rule="C14.R5", construct="Tree.is_leaf"),
    Witness("C14.W10", "menpo/shape/graph.py", "PointTree.from_mask", "if not mask[self.root_vertex]:\n            raise ValueError('Cannot remove root vertex.')", "pass",
            rule="C14.R3", construct="PointTree.from_mask"),
    Witness("C14.W11", "menpo/shape/graph.py", "PointTree.from_mask", "            root_vertex = root_vertex - np.sum(~mask[:root_vertex])", "            root_vertex = self.root_vertex - np.sum(~mask[:self.root_vertex])",
            rule="C14.R3", construct="PointTree.from_mask", note="seeded change C14-A"),
    Witness("C14.W12", "menpo/shape/graph.py", "_has_cycles", "                dfs(y, entered, exited, tree_edges, back_edges)\n            exited.add(node)", "                dfs(y, entered, exited, tree_edges, back_edges)\n                exited.add(node)",
            rule="C14.R6", construct="_has_cycles", note="seeded change C14-B"),
    Witness("C14.W13", "menpo/shape/graph.py", "PointUndirectedGraph.minimum_spanning_tree", "csgraph.depth_first_tree(mst_adjacency, root_vertex, directed=False)", "csgraph.depth_first_tree(self.adjacency_matrix, root_vertex, directed=False)",
            rule="C14.R4", construct="PointUndirectedGraph.minimum_spanning_tree", note="seeded change R2-C14-B"),
    Witness("C14.T1", "menpo/shape/graph.py", "Graph.get_adjacency_list", "from_v = rows[i]\n        to_v = cols[i]\n        adjacency_list[from_v].append(to_v)",
            "adjacency_list[rows[i]].append(cols[i])", kind="T"),
]

WITNESSES += [
    Witness("C14.W14", "menpo/shape/graph_predefined.py", "star_graph", "graph_cls.init_from_edges(edges=edges, n_vertices=n_vertices, root_vertex=root_vertex, skip_checks=True)",
            "graph_cls.init_from_edges(edges=edges, n_vertices=n_vertices, root_vertex=0, skip_checks=True)", rule="C14.R5", construct="star_graph", note="seeded change R3-C14-B"),
]

WITNESSES += [
    Witness("C14.W15", "menpo/shape/graph.py", "_has_cycles", "            return True\n    else:\n        return False", "            return True\n        else:\n            return False", rule="C14.R6", construct="_has_cycles", note="seeded change R4-C14-A"),
    Witness("C14.W16", "menpo/shape/graph.py", "Tree.leaves", "range(self.n_vertices)", "range(1, self.n_vertices)", rule="C14.R5", construct="Tree.leaves", note="seeded change R4-C14-B"),
]

WITNESSES += [
    Witness("C14.W17", "menpo/shape/graph_predefined.py", "stencil_grid", "list(reversed(shape))", "list(shape)", rule="C14.R7", construct="stencil_grid", note="seeded change R5-C14-C"),
]
