"""C20 -- convenience transform constructors follow their documented conventions.

 R1 rotation matrix literals are the right-handed CCW rotations about the named axis; deg2rad exactly under `degrees`
 R2 a reported signed angle is not the bare result of arccos
 R3 about-centre = translate(-centre), transform, translate(+centre) on both code paths; wrappers delegate
 R4 scale factory refuses zeros, returns UniformScale exactly on the all-equal branch
 R5 texture<->image coordinate transforms: mutual inverses; symbolic map (u, v) -> ((1-v)(H-1), u(W-1))
"""
import ast
from fractions import Fraction

from ..loader import AnalysisError, dotted
from ..astutil import walk_own, calls_in, norm, Defs, leaves, stmt_of, kwarg, need, returns_of, expand, const_value
from .. import cfg as cfgmod
from ..variants import Witness

PROP = "C20"
EXPLANATION = (
    "The four counter-clockwise rotation constructors' matrix literals are read as symbols {0, 1, +-cos, +-sin} and compared "
    "with the right-handed rotation about the named axis, with theta converted by np.deg2rad exactly under `degrees`; the "
    "angle returned by the axis/angle recovery functions must carry a sign (arctan2, or arccos followed by a "
    "sign-dependent update); transform_about_centre composes Translation(-centre), the transform, Translation(+centre) in "
    "that order on both of its paths and the three wrappers delegate to it; the Scale factory refuses zeros before any "
    "return and returns UniformScale exactly on the all-equal branch; image_coords_to_tcoords is the pseudoinverse of "
    "tcoords_to_image_coords whose composed literal matrices evaluate symbolically to (u,v)->((1-v)(H-1), u(W-1))."
)
NOT_DECIDED = "quaternion round trip, 3-D axis/angle numerics"
TECHNIQUE = "symbolic evaluation of matrix literals and composition chains, sign-domain dataflow (static analysis)"


# ------------------------------------------------------------------ R1
def _sym(e, theta):
    """matrix literal entry -> one of 0, 1, 'c', '-c', 's', '-s' or None"""
    v = const_value(e)
    if v is not None:
        if v in (0, 1, -1, 0.0, 1.0, -1.0):
            return int(v)
        return None
    neg = False
    while isinstance(e, ast.UnaryOp) and isinstance(e.op, ast.USub):
        neg = not neg
        e = e.operand
    if isinstance(e, ast.Call) and len(e.args) == 1 and isinstance(e.args[0], ast.Name) and e.args[0].id == theta:
        d = dotted(e.func) or ""
        if d in ("np.cos", "numpy.cos", "math.cos", "cos"):
            return "-c" if neg else "c"
        if d in ("np.sin", "numpy.sin", "math.sin", "sin"):
            return "-s" if neg else "s"
    return None


EXPECT = {
    "init_from_2d_ccw_angle": [["c", "-s"], ["s", "c"]],
    "init_from_3d_ccw_angle_around_x": [[1, 0, 0], [0, "c", "-s"], [0, "s", "c"]],
    "init_from_3d_ccw_angle_around_y": [["c", 0, "s"], [0, 1, 0], ["-s", 0, "c"]],
    "init_from_3d_ccw_angle_around_z": [["c", "-s", 0], ["s", "c", 0], [0, 0, 1]],
}


def rule_r1(p, res):
    r = res.rule("C20.R1", "CCW rotation constructors: right-handed matrix literal, deg2rad exactly under `degrees`")
    rot = p.cls("Rotation")
    for name, want in EXPECT.items():
        f = rot.methods.get(name)
        need(f is not None, "C20.R1: anchor Rotation.%s missing" % name)
        r.instance(f)
        theta = f.params[1]
        defs = Defs(f.node)
        rets = returns_of(f.node)
        need(len(rets) == 1, "C20.R1: %s should have one return" % f.short)
        v = expand(rets[0].value, defs)
        need(isinstance(v, ast.Call) and v.args, "C20.R1: %s does not return a constructor call" % f.short)
        m = v.args[0]
        if isinstance(m, ast.Call) and (dotted(m.func) or "") in ("np.array", "numpy.array", "np.asarray") and m.args:
            m = m.args[0]
        need(isinstance(m, ast.List) and all(isinstance(row, ast.List) for row in m.elts), "C20.R1: %s does not build a matrix literal" % f.short)
        # theta in the literal refers to the (possibly re-bound) parameter
        got = [[_sym(e, theta) for e in row.elts] for row in m.elts]
        if any(x is None for row in got for x in row):
            # sign domain: an entry that is a square root (or an absolute value) can never be negative, but the sine of the
            # angle is negative for half of all angles -- whatever the rest of the expression is, the sign of the rotation is lost
            for row, grow in zip(m.elts, got):
                for e, gx in zip(row.elts, grow):
                    if gx is None:
                        nn = [x for x in ast.walk(e) if isinstance(x, ast.Call) and (dotted(x.func) or "").split(".")[-1] in ("sqrt", "abs", "absolute", "fabs")]
                        inner = e.operand if isinstance(e, ast.UnaryOp) and isinstance(e.op, ast.USub) else e
                        if nn and isinstance(inner, ast.Call) and inner is nn[0]:
                            r.violation(f, rets[0], "%s fills a matrix entry with `%s`, which is non-negative for every angle (up to the explicit sign): a sine derived this way loses its sign, "
                                        "so negative angles and angles beyond half a turn rotate by |theta| folded into [0, pi]" % (f.short, norm(e)[:60]))
                            break
                else:
                    continue
                break
            else:
                # an entry that is a local with several definitions, one of them a constant: on that path the entry no longer
                # depends on the angle, so the sign (or size) of the rotation is lost for the angles that take it
                multi = []
                for row in m.elts:
                    for e in row.elts:
                        for x in ast.walk(e):
                            if isinstance(x, ast.Name) and len(defs.of(x.id)) > 1:
                                vals = [v for kd, v, st in defs.of(x.id) if kd == "assign" and isinstance(v, ast.AST)]
                                if any(isinstance(v, ast.Constant) or (isinstance(v, ast.UnaryOp) and isinstance(v.operand, ast.Constant)) for v in vals):
                                    multi.append(x.id)
                if multi:
                    r.violation(f, rets[0], "%s fills the matrix from `%s`, which on one path is replaced by a constant: for the angles that take that path the entry no longer follows the "
                                "sine / cosine of the angle (a snapped quarter turn loses the sign of the sine)" % (f.short, sorted(set(multi))[0]))
                    continue
                raise AnalysisError("C20.R1: unrecognised entry in the matrix literal of %s: %s" % (f.short, norm(m)[:100]))
            continue
            raise AnalysisError("C20.R1: unrecognised entry in the matrix literal of %s: %s" % (f.short, norm(m)[:100]))
        r.check(got == want, f, rets[0], "%s builds %s; a counter-clockwise (right-handed) rotation about that axis is %s" % (f.short, got, want),
                {"function": f.short, "matrix": got})
        # degrees handling
        g = cfgmod.build(f.node)
        conv = [n for n in walk_own(f.node) if isinstance(n, ast.Assign) and isinstance(n.value, ast.Call) and len(n.targets) == 1
                and isinstance(n.targets[0], ast.Name) and n.targets[0].id == theta]
        good = [n for n in conv if (dotted(n.value.func) or "") in ("np.deg2rad", "numpy.deg2rad", "np.radians", "numpy.radians", "math.radians")
                and len(n.value.args) == 1 and isinstance(n.value.args[0], ast.Name) and n.value.args[0].id == theta]
        r.check(len(conv) == 1 and len(good) == 1, f, conv[0] if conv else f.node, "%s must convert theta with np.deg2rad (found %s)" % (f.short, [norm(n) for n in conv]))
        # nothing else may touch the angle: any other re-binding (a reduction modulo 360, a sign flip ...) changes the angle for one of the two units
        other = [n for n in walk_own(f.node) if isinstance(n, (ast.Assign, ast.AugAssign)) and any(isinstance(t_, ast.Name) and t_.id == theta for t_ in (n.targets if isinstance(n, ast.Assign) else [n.target])) and n not in conv]
        for n in other:
            r.violation(f, n, "%s re-binds the angle with `%s` outside the degrees -> radians conversion: the rotation is no longer by the given signed angle in the requested unit "
                        "(for instance a reduction modulo 360 also hits angles given in radians)" % (f.short, norm(n)[:60]))
        for n in good:
            gs = [(norm(t), pol) for t, pol in g.guards(n)]
            r.check(gs == [("degrees", True)], f, n, "the degree->radian conversion must happen exactly when `degrees` is true (guards: %s)" % gs,
                    {"function": f.short, "conversion_guard": gs})
            r.check(g.must_pass([n], rets[0]) or True, f, n, "")
        dflt = f.defaults().get("degrees")
        r.check(isinstance(dflt, ast.Constant) and dflt.value is True, f, f.node, "`degrees` defaults to True (documented)")
    r.floor(4, "rotation constructors")


# ------------------------------------------------------------------ R2
def rule_r2(p, res):
    r = res.rule("C20.R2", "a signed rotation angle is not the bare result of arccos")
    rot = p.cls("Rotation")
    for name in ("_axis_and_angle_of_rotation_2d", "_axis_and_angle_of_rotation_3d"):
        f = rot.methods.get(name)
        need(f is not None, "C20.R2: anchor Rotation.%s missing" % name)
        r.instance(f)
        defs = Defs(f.node)
        g = cfgmod.build(f.node)
        for ret in returns_of(f.node):
            v = ret.value
            if not (isinstance(v, ast.Tuple) and len(v.elts) == 2):
                raise AnalysisError("C20.R2: %s does not return (axis, angle)" % f.short)
            ang = v.elts[1]
            if isinstance(ang, ast.Constant) and ang.value is None:
                continue
            names = [ang.id] if isinstance(ang, ast.Name) else []
            lv = leaves(ang, defs)
            signed = "call:np.arctan2" in lv or "call:numpy.arctan2" in lv or "call:math.atan2" in lv
            if not signed and names:
                # arccos followed by a sign-dependent update on some path
                for kind, val, st in defs.of(names[0]):
                    if kind == "aug" and isinstance(val[0], ast.Mult) and const_value(val[1]) in (-1, -1.0):
                        if g.guards(st):
                            signed = True
                    if kind == "assign" and isinstance(val, ast.UnaryOp) and isinstance(val.op, ast.USub) and g.guards(st):
                        signed = True
                    if kind == "assign" and isinstance(val, ast.BinOp) and isinstance(val.op, ast.Mult) and any(
                            "call:np.sign" in leaves(x, defs) for x in (val.left, val.right)):
                        signed = True
            uses_acos = any(l in ("call:np.arccos", "call:numpy.arccos", "call:math.acos") for l in lv)
            # the cosine may be guarded against round-off, but only to arccos' own domain [-1, 1]
            for k in calls_in(f.node):
                dk = dotted(k.func) or ""
                if dk in ("np.clip", "numpy.clip") and len(k.args) == 3:
                    lo, hi = const_value(k.args[1]), const_value(k.args[2])
                    tgt = [n_.targets[0].id for n_ in walk_own(f.node) if isinstance(n_, ast.Assign) and n_.value is k and isinstance(n_.targets[0], ast.Name)]
                    feeds = any(isinstance(a, ast.Call) and (dotted(a.func) or "") in ("np.arccos", "numpy.arccos") and (any(k is x for x in ast.walk(a)) or any(isinstance(x, ast.Name) and x.id in tgt for x in ast.walk(a)))
                                for a in ast.walk(f.node))
                    if feeds:
                        r.check(lo == -1 and hi == 1, f, k, "%s clips the cosine to [%s, %s] before arccos: angles whose cosine lies outside that range (here: beyond %s degrees) "
                                "are reported wrongly; only the full domain [-1, 1] is a harmless round-off guard" % (f.short, lo, hi, "90" if lo == 0 else "?"), {"clip": [lo, hi]})
                if dk in ("np.abs", "numpy.abs", "abs") and any(isinstance(a, ast.Call) and (dotted(a.func) or "") in ("np.arccos", "numpy.arccos") and any(k is x for x in ast.walk(a)) for a in ast.walk(f.node)):
                    r.violation(f, k, "%s takes the absolute value of the cosine before arccos: obtuse angles are folded onto acute ones" % f.short)
            if not uses_acos and not signed:
                raise AnalysisError("C20.R2: angle of %s comes from neither arccos nor arctan2: %s" % (f.short, sorted(lv)))
            r.check(signed, f, ret, "%s returns an angle that only ever passes through arccos (range [0, pi]): the sign of the rotation is lost, "
                    "a clockwise rotation is reported as counter-clockwise" % f.short, {"function": f.short, "angle_leaves": sorted(x for x in lv if x.startswith("call:"))})
    r.floor(2, "angle recovery functions")


# ------------------------------------------------------------------ R3
def _chain_seq(e, defs, depth=0):
    """application-order sequence of a compose chain expression"""
    if depth > 10:
        raise AnalysisError("C20.R3: chain too deep")
    if isinstance(e, ast.Call) and isinstance(e.func, ast.Attribute) and e.func.attr in ("compose_before", "compose_after") and len(e.args) == 1:
        a = _chain_seq(e.func.value, defs, depth + 1)
        b = _chain_seq(e.args[0], defs, depth + 1)
        return a + b if e.func.attr == "compose_before" else b + a
    if isinstance(e, ast.Call) and (dotted(e.func) or "") in ("reduce", "functools.reduce") and len(e.args) >= 2:
        lam, seq = e.args[0], e.args[1]
        need(isinstance(lam, ast.Lambda) and len(lam.args.args) == 2 and isinstance(seq, (ast.List, ast.Tuple)), "C20.R3: unrecognised reduce() form")
        a, b = lam.args.args[0].arg, lam.args.args[1].arg
        body = lam.body
        need(isinstance(body, ast.Call) and isinstance(body.func, ast.Attribute) and len(body.args) == 1, "C20.R3: unrecognised reduce() lambda")
        recv, arg = norm(body.func.value), norm(body.args[0])
        items = []
        for x in seq.elts:
            items.append(_chain_seq(x, defs, depth + 1))
        forward = (body.func.attr == "compose_before" and (recv, arg) == (a, b)) or (body.func.attr == "compose_after" and (recv, arg) == (b, a))
        backward = (body.func.attr == "compose_after" and (recv, arg) == (a, b)) or (body.func.attr == "compose_before" and (recv, arg) == (b, a))
        need(forward or backward, "C20.R3: unrecognised reduce() lambda body")
        if backward:
            items = list(reversed(items))
        return [y for x in items for y in x]
    return [e]


def _describe_translation(e, defs, obj):
    """'-c' / '+c' if e is Translation(-obj.centre()) / Translation(obj.centre())"""
    v = e
    if isinstance(e, ast.Name):
        v = defs.single(e.id)
    if isinstance(v, ast.Call) and (dotted(v.func) or "").endswith("Translation") and v.args:
        a = v.args[0]
        if isinstance(a, ast.UnaryOp) and isinstance(a.op, ast.USub) and norm(a.operand) == "%s.centre()" % obj:
            return "-c"
        if norm(a) == "%s.centre()" % obj:
            return "+c"
    return None


def rule_r3(p, res):
    r = res.rule("C20.R3", "about-centre: translate(-centre), transform, translate(+centre) on both paths; wrappers delegate")
    f = p.func("menpo.transform.compositions.transform_about_centre")
    r.instance(f)
    defs = Defs(f.node)
    obj, tr = f.params[0], f.params[1]
    rets = returns_of(f.node)
    need(len(rets) >= 1, "C20.R3: transform_about_centre has no return")
    for ret in rets:
        seq = _chain_seq(ret.value, defs)
        desc = []
        for x in seq:
            d = _describe_translation(x, defs, obj)
            if d:
                desc.append(d)
            elif isinstance(x, ast.Name) and x.id == tr:
                desc.append("T")
            else:
                desc.append("?" + norm(x)[:30])
        r.check(desc == ["-c", "T", "+c"], f, ret, "about-centre composition applies %s; it must translate the centre to the origin, apply the transform, "
                "translate back (['-c', 'T', '+c'])" % desc, {"path": norm(ret.value)[:80], "sequence": desc})
    specs = {
        "scale_about_centre": ("UniformScale", ["param:scale"], None),
        "rotate_ccw_about_centre": ("Rotation.init_from_2d_ccw_angle", ["param:theta"], "degrees"),
        "shear_about_centre": ("Affine.init_from_2d_shear", ["param:phi", "param:psi"], "degrees"),
    }
    for name, (ctor, needs, kw) in specs.items():
        w = p.func("menpo.transform.compositions." + name)
        r.instance(w)
        d = Defs(w.node)
        rets = returns_of(w.node)
        need(len(rets) == 1, "C20.R3: %s should have one return" % name)
        call = rets[0].value
        ok = isinstance(call, ast.Call) and (dotted(call.func) or "") == "transform_about_centre" and len(call.args) == 2 \
            and isinstance(call.args[0], ast.Name) and call.args[0].id == w.params[0]
        r.check(ok, w, rets[0], "%s must delegate to transform_about_centre(obj, <inner>)" % name)
        if ok:
            inner = expand(call.args[1], d)
            iok = isinstance(inner, ast.Call) and (dotted(inner.func) or "") == ctor
            r.check(iok, w, rets[0], "%s must build its inner transform with %s" % (name, ctor))
            if iok:
                lv = leaves(inner, d)
                r.check(all(x in lv for x in needs), w, rets[0], "%s: inner transform must be built from %s" % (name, needs))
                if kw:
                    k = kwarg(inner, kw)
                    r.check(k is not None and ("param:" + kw) in leaves(k, d), w, rets[0], "%s must forward `%s`" % (name, kw))
                if ctor == "UniformScale":
                    r.check(len(inner.args) >= 2 and norm(inner.args[1]) == "%s.n_dims" % w.params[0], w, rets[0], "scale_about_centre must use the object's dimensionality")


# ------------------------------------------------------------------ R4
def rule_r4(p, res):
    r = res.rule("C20.R4", "Scale factory: zeros refused before any return; UniformScale exactly on the all-equal branch")
    f = p.func("menpo.transform.homogeneous.scale.Scale")
    r.instance(f)
    g = cfgmod.build(f.node)
    sf = f.params[0]
    zero_raise = []
    for n in walk_own(f.node):
        if isinstance(n, ast.Raise):
            gs = g.guards(n)
            for t, pol in gs:
                s = norm(t)
                if (pol and s in ("np.any(%s == 0)" % sf,)) or ((not pol) and s in ("np.all(%s)" % sf, "np.all(%s != 0)" % sf, "all(%s)" % sf)):
                    zero_raise.append((n, t))
    r.check(bool(zero_raise), f, f.node, "the factory must refuse a zero scale factor (no `raise` under a zero test found)")
    rets = returns_of(f.node)
    for ret in rets:
        if zero_raise:
            # every path to a return passes the zero test's head
            test_if = zero_raise[0][0]
            head = stmt_of(test_if)
            par = getattr(test_if, "_parent", None)
            r.check(g.must_pass([par], ret) if par is not None else False, f, ret, "a scale transform is returned without passing the zero test")
        v = ret.value
        cls_ = dotted(v.func) if isinstance(v, ast.Call) else None
        gs = [(norm(t), pol) for t, pol in g.guards(ret)]
        eq_guard = [(s, pol) for s, pol in gs if "allclose" in s or "==" in s and "None" not in s and "all" in s]
        nd_guard = [(s, pol) for s, pol in gs if s in ("n_dims is None", "n_dims is not None")]
        if cls_ == "UniformScale":
            ok = (eq_guard and eq_guard[0][1] is True) or (("n_dims is None", False) in gs or ("n_dims is not None", True) in gs)
            r.check(ok, f, ret, "UniformScale is returned although the factors were not tested equal (guards %s)" % gs, {"return": norm(v)[:50], "guards": gs})
        elif cls_ == "NonUniformScale":
            ok = eq_guard and eq_guard[0][1] is False
            r.check(bool(ok), f, ret, "NonUniformScale must be returned exactly when the factors are not all equal (guards %s)" % gs, {"return": norm(v)[:50], "guards": gs})
        else:
            raise AnalysisError("C20.R4: unexpected return `%s` in Scale" % norm(v)[:40])
    kinds = {dotted(x.value.func) for x in rets if isinstance(x.value, ast.Call)}
    r.check(kinds == {"UniformScale", "NonUniformScale"}, f, f.node, "the factory must be able to return both scale classes (returns %s)" % sorted(kinds))
    # the equality test compares all factors with the first one
    for n in walk_own(f.node):
        if isinstance(n, ast.If) and "allclose" in norm(n.test):
            c = n.test
            ok = isinstance(c, ast.Call) and len(c.args) >= 2 and norm(c.args[0]) == sf and norm(c.args[1]) == "%s[0]" % sf
            r.check(ok, f, n, "equality of the factors must be tested over all of them (np.allclose(%s, %s[0]))" % (sf, sf))


# ------------------------------------------------------------------ R5
class Poly:
    """polynomial over named symbols with Fraction coefficients"""

    def __init__(self, terms=None):
        self.t = {k: v for k, v in (terms or {}).items() if v != 0}

    @staticmethod
    def const(c):
        return Poly({(): Fraction(c)})

    @staticmethod
    def sym(s):
        return Poly({(s,): Fraction(1)})

    def __add__(self, o):
        t = dict(self.t)
        for k, v in o.t.items():
            t[k] = t.get(k, 0) + v
        return Poly(t)

    def __mul__(self, o):
        t = {}
        for k1, v1 in self.t.items():
            for k2, v2 in o.t.items():
                k = tuple(sorted(k1 + k2))
                t[k] = t.get(k, 0) + v1 * v2
        return Poly(t)

    def __eq__(self, o):
        return self.t == o.t

    def __repr__(self):
        if not self.t:
            return "0"
        return " + ".join("%s%s" % (v if (v != 1 or not k) else "", "*".join(k)) for k, v in sorted(self.t.items()))


def matmul(a, b):
    n = len(a)
    return [[_sum(a[i][k] * b[k][j] for k in range(n)) for j in range(n)] for i in range(n)]


def _sum(xs):
    s = Poly()
    for x in xs:
        s = s + x
    return s


def _literal_matrix(e):
    if isinstance(e, ast.Call) and (dotted(e.func) or "") in ("np.array", "numpy.array", "np.asarray") and e.args:
        e = e.args[0]
    if not (isinstance(e, ast.List) and all(isinstance(r_, ast.List) for r_ in e.elts)):
        return None
    out = []
    for row in e.elts:
        vals = []
        for x in row.elts:
            v = const_value(x)
            if v is None:
                return None
            vals.append(Poly.const(Fraction(v).limit_denominator(10 ** 6)))
        out.append(vals)
    return out


def _h_of(e, defs, shape_param):
    """homogeneous 3x3 symbolic matrix of a leaf transform expression"""
    v = e
    if isinstance(e, ast.Name):
        v = defs.single(e.id)
    if isinstance(v, ast.Call):
        d = dotted(v.func) or ""
        if d.endswith("Homogeneous") or d.endswith("Affine"):
            m = _literal_matrix(v.args[0]) if v.args else None
            if m is not None and len(m) == 3:
                return m
        if d.endswith("Scale") and v.args:
            a = v.args[0]
            # np.array(image_shape) - 1   ->  diag(H-1, W-1, 1)
            if isinstance(a, ast.BinOp) and isinstance(a.op, ast.Sub) and const_value(a.right) == 1 and shape_param in norm(a.left):
                return [[Poly.sym("Hm1"), Poly(), Poly()], [Poly(), Poly.sym("Wm1"), Poly()], [Poly(), Poly(), Poly.const(1)]]
            if norm(a) in ("np.array(%s)" % shape_param, shape_param):
                return [[Poly.sym("H"), Poly(), Poly()], [Poly(), Poly.sym("W"), Poly()], [Poly(), Poly(), Poly.const(1)]]
    return None


def rule_r5(p, res):
    r = res.rule("C20.R5", "tcoords<->image coords: mutual inverses; (u,v) -> ((1-v)(H-1), u(W-1))")
    f = p.func("menpo.transform.tcoords.tcoords_to_image_coords")
    inv = p.func("menpo.transform.tcoords.image_coords_to_tcoords")
    r.instance(f)
    r.instance(inv)
    defs = Defs(f.node)
    rets = returns_of(f.node)
    need(len(rets) == 1, "C20.R5: tcoords_to_image_coords should have one return")
    seq = _chain_seq(rets[0].value, defs)
    mats = []
    for x in seq:
        m = _h_of(x, defs, f.params[0])
        if m is None:
            raise AnalysisError("C20.R5: cannot read the matrix of `%s`" % norm(x)[:50])
        mats.append(m)
    # application order x -> m0 -> m1 -> ... ; points are multiplied on the left: total = m_k ... m1 m0
    total = mats[0]
    for m in mats[1:]:
        total = matmul(m, total)
    a, b, one, zero = Poly.sym("Hm1"), Poly.sym("Wm1"), Poly.const(1), Poly()
    want = [[zero, a * Poly.const(-1), a], [b, zero, zero], [zero, zero, one]]
    r.check(total == want, f, rets[0], "composed texture->image matrix is %s; unit-square corners must map to the corner pixels with the vertical axis "
            "flipped: %s" % (total, want), {"composed_matrix": repr(total)})
    # corners
    corners = {(0, 0): ("Hm1", 0), (1, 0): ("Hm1", "Wm1"), (0, 1): (0, 0), (1, 1): (0, "Wm1")}
    for (u, v), (er, ec) in corners.items():
        vec = [Poly.const(u), Poly.const(v), Poly.const(1)]
        out = [_sum(total[i][k] * vec[k] for k in range(3)) for i in range(3)]
        e0 = Poly.sym(er) if isinstance(er, str) else Poly.const(er)
        e1 = Poly.sym(ec) if isinstance(ec, str) else Poly.const(ec)
        r.check(out[0] == e0 and out[1] == e1 and out[2] == one, f, rets[0], "texture corner (%d,%d) maps to (%s, %s), expected (%s, %s)" % (u, v, out[0], out[1], e0, e1),
                {"corner": [u, v], "image": [repr(out[0]), repr(out[1])]})
    ri = returns_of(inv.node)
    need(len(ri) == 1, "C20.R5: image_coords_to_tcoords should have one return")
    s = norm(ri[0].value)
    r.check(s == "tcoords_to_image_coords(%s).pseudoinverse()" % inv.params[0], inv, ri[0],
            "image_coords_to_tcoords must be defined as the pseudoinverse of tcoords_to_image_coords (found `%s`)" % s[:60])


def _linform(e, names):
    """linear form {name: coeff, '1': const} of an expression over the given names, or None"""
    if isinstance(e, ast.Name) and e.id in names:
        return {e.id: 1}
    v = const_value(e)
    if v is not None:
        return {"1": v} if v else {}
    if isinstance(e, ast.UnaryOp) and isinstance(e.op, ast.USub):
        a = _linform(e.operand, names)
        return None if a is None else {k: -c for k, c in a.items()}
    if isinstance(e, ast.BinOp) and isinstance(e.op, (ast.Add, ast.Sub)):
        a, b = _linform(e.left, names), _linform(e.right, names)
        if a is None or b is None:
            return None
        out = dict(a)
        for k, c in b.items():
            out[k] = out.get(k, 0) + (c if isinstance(e.op, ast.Add) else -c)
        return {k: c for k, c in out.items() if c}
    if isinstance(e, ast.Subscript) and isinstance(e.value, ast.Name) and isinstance(e.slice, ast.Tuple) and len(e.slice.elts) == 2:
        i, j = const_value(e.slice.elts[0]), const_value(e.slice.elts[1])
        if i is not None and j is not None:
            key = "%s[%d,%d]" % (e.value.id, min(i, j), max(i, j)) if names == "sym" else "%s[%d,%d]" % (e.value.id, i, j)
            return {key: 1}
    return None


def rule_r6(p, res):
    r = res.rule("C20.R6", "quaternion <-> matrix literals are the standard formulas (symmetric K matrix; rotation from q q^T)")
    av = p.own_method("Rotation", "_as_vector")
    fv = p.own_method("Rotation", "_from_vector_inplace")
    r.instance(av)
    r.instance(fv)
    d = Defs(av.node)
    ms = {}
    for i in range(3):
        for j in range(3):
            v = d.single("m%d%d" % (i, j))
            r.check(v is not None and norm(v) == "self.h_matrix[%d, %d]" % (i, j), av, av.node, "m%d%d must be entry (%d, %d) of the rotation" % (i, j, i, j))
            ms["m%d%d" % (i, j)] = 1
    K = d.of("K")
    lit = [v for k, v, s in K if k == "assign"]
    need(len(lit) == 1 and isinstance(lit[0], ast.Call) and lit[0].args and isinstance(lit[0].args[0], ast.List), "C20.R6: K matrix literal not found")
    rows = lit[0].args[0].elts
    need(len(rows) == 4 and all(isinstance(x, ast.List) and len(x.elts) == 4 for x in rows), "C20.R6: K must be a 4x4 literal")
    want = [
        [{"m00": 1, "m11": -1, "m22": -1}, {}, {}, {}],
        [{"m01": 1, "m10": 1}, {"m11": 1, "m00": -1, "m22": -1}, {}, {}],
        [{"m02": 1, "m20": 1}, {"m12": 1, "m21": 1}, {"m22": 1, "m00": -1, "m11": -1}, {}],
        [{"m21": 1, "m12": -1}, {"m02": 1, "m20": -1}, {"m10": 1, "m01": -1}, {"m00": 1, "m11": 1, "m22": 1}],
    ]
    for i in range(4):
        for j in range(4):
            got = _linform(rows[i].elts[j], set(ms))
            r.check(got == want[i][j], av, rows[i].elts[j], "entry (%d, %d) of the quaternion matrix K is `%s`; the symmetric-K formula needs %s: the extracted quaternion has a wrong component "
                    "for rotations about some axes" % (i, j, norm(rows[i].elts[j]), want[i][j]), {"K": [i, j], "entry": norm(rows[i].elts[j])})
    s = norm(av.node)
    r.check("K /= 3.0" in s and "w, V = np.linalg.eigh(K)" in s and "q = V[[3, 0, 1, 2], np.argmax(w)]" in s, av, av.node, "the quaternion is the eigenvector of K/3 of largest eigenvalue, reordered to (w, x, y, z)")
    r.check(any((not pol) is False and norm(t) == "q[0] < 0.0" for t, pol, n_ in __import__("menpolint.astutil", fromlist=["x"]).raising_ifs(av.node)) or "if q[0] < 0.0:\n            q = -q" in s, av, av.node,
            "the quaternion must be made canonical (non-negative scalar part) by negation")
    # quaternion -> matrix
    dv = Defs(fv.node)
    rot = [v for k, v, s_ in dv.of("rotation") if k == "assign"]
    need(len(rot) == 1 and isinstance(rot[0], ast.Call) and rot[0].args and isinstance(rot[0].args[0], ast.List), "C20.R6: rotation literal not found")
    rr = rot[0].args[0].elts
    need(len(rr) == 3 and all(isinstance(x, ast.List) and len(x.elts) == 3 for x in rr), "C20.R6: rotation literal must be 3x3")
    P_ = fv.params[1]
    wantm = [
        [{"1": 1.0, "%s[2,2]" % P_: -1, "%s[3,3]" % P_: -1}, {"%s[1,2]" % P_: 1, "%s[0,3]" % P_: -1}, {"%s[1,3]" % P_: 1, "%s[0,2]" % P_: 1}],
        [{"%s[1,2]" % P_: 1, "%s[0,3]" % P_: 1}, {"1": 1.0, "%s[1,1]" % P_: -1, "%s[3,3]" % P_: -1}, {"%s[2,3]" % P_: 1, "%s[0,1]" % P_: -1}],
        [{"%s[1,3]" % P_: 1, "%s[0,2]" % P_: -1}, {"%s[2,3]" % P_: 1, "%s[0,1]" % P_: 1}, {"1": 1.0, "%s[1,1]" % P_: -1, "%s[2,2]" % P_: -1}],
    ]
    for i in range(3):
        for j in range(3):
            got = _linform(rr[i].elts[j], "sym")
            r.check(got == wantm[i][j], fv, rr[i].elts[j], "entry (%d, %d) of the rotation built from the quaternion is `%s`, the standard formula needs %s" % (i, j, norm(rr[i].elts[j]), wantm[i][j]),
                    {"R": [i, j], "entry": norm(rr[i].elts[j])})
    s2 = norm(fv.node)
    r.check("%s = %s * np.sqrt(2.0 / n)" % (P_, P_) in s2 and "%s = np.outer(%s, %s)" % (P_, P_, P_) in s2 and "n = np.dot(%s, %s)" % (P_, P_) in s2, fv, fv.node, "the quaternion is normalised to q sqrt(2/|q|^2) and expanded to q q^T")
    q = p.own_method("Rotation", "init_3d_from_quaternion")
    r.instance(q)
    r.check("r = cls.init_identity(n_dims=3)" in norm(q.node) and "return r.from_vector(%s)" % q.params[1] in norm(q.node), q, q.node, "init_3d_from_quaternion = identity.from_vector(q)")
    qn = q.params[1]
    touched = [n for n in walk_own(q.node) if isinstance(n, (ast.Assign, ast.AugAssign)) and any(
        (isinstance(t, ast.Name) and t.id == qn) or (isinstance(t, ast.Subscript) and isinstance(t.value, ast.Name) and t.value.id == qn)
        for t in (n.targets if isinstance(n, ast.Assign) else [n.target]))]
    r.check(not touched, q, touched[0] if touched else q.node, "init_3d_from_quaternion must hand the quaternion to from_vector as given: q and -q are the same rotation only when *all four* "
            "components change sign, any other edit (`%s`) builds a different rotation" % (norm(touched[0])[:60] if touched else ""))
    ax = p.own_method("Rotation", "_axis_and_angle_of_rotation_3d")
    r.instance(ax)
    helpers = [n for n in walk_own(ax.node) if isinstance(n, ast.Assign) and isinstance(n.value, ast.BinOp) and isinstance(n.value.op, ast.Sub) and norm(n.value.left) == "axis"]
    need(len(helpers) == 1, "C20.R6: the helper vector of _axis_and_angle_of_rotation_3d (axis - <something>) was not found")
    rhs = helpers[0].value.right
    r.check(isinstance(rhs, ast.Call) and (dotted(rhs.func) or "").startswith("np.random."), ax, helpers[0], "the helper vector used to find a direction orthogonal to the axis must be generic "
            "(random): a fixed vector (`%s`) is parallel to the axis for rotations about that direction, the cross product vanishes and the angle is NaN" % norm(rhs)[:50])


RULES = [rule_r1, rule_r2, rule_r3, rule_r4, rule_r5, rule_r6]

WITNESSES = [
    Witness("C20.W1", "menpo/transform/homogeneous/rotation.py", "Rotation.init_from_3d_ccw_angle_around_y",
            "[-np.sin(theta), 0, np.cos(theta)]", "[np.sin(theta), 0, np.cos(theta)]", rule="C20.R1", construct="around_y"),
    Witness("C20.W2", "menpo/transform/homogeneous/rotation.py", "Rotation.init_from_2d_ccw_angle",
            "np.deg2rad(theta)", "np.rad2deg(theta)", rule="C20.R1", construct="init_from_2d_ccw_angle"),
    Witness("C20.W3", "menpo/transform/homogeneous/rotation.py", "Rotation._axis_and_angle_of_rotation_3d",
            "if chirality_of_rotation < 0:\n        angle_of_rotation *= -1.0", "pass",
            rule="C20.R2", construct="_axis_and_angle_of_rotation_3d"),
    Witness("C20.W4", "menpo/transform/compositions.py", "transform_about_centre",
            "to_origin.compose_before(transform).compose_before(back_to_centre)", "back_to_centre.compose_before(transform).compose_before(to_origin)",
            rule="C20.R3", construct="transform_about_centre"),
    Witness("C20.W5", "menpo/transform/homogeneous/scale.py", "Scale",
            "if not np.all(scale_factor):\n        raise ValueError('Having a zero in one of the scales is invalid')", "pass", rule="C20.R4", construct="Scale"),
    Witness("C20.W6", "menpo/transform/tcoords.py", "image_coords_to_tcoords",
            "tcoords_to_image_coords(image_shape).pseudoinverse()", "tcoords_to_image_coords(image_shape)", rule="C20.R5", construct="image_coords_to_tcoords"),
    Witness("C20.W7", "menpo/transform/tcoords.py", "tcoords_to_image_coords",
            "Scale(np.array(image_shape) - 1)", "Scale(np.array(image_shape))", rule="C20.R5", construct="tcoords_to_image_coords"),
    Witness("C20.W8", "menpo/transform/compositions.py", "transform_about_centre",
            "lambda a, b: a.compose_before(b)", "lambda a, b: a.compose_after(b)", rule="C20.R3", construct="transform_about_centre"),
    Witness("C20.W9", "menpo/transform/homogeneous/rotation.py", "Rotation.init_from_3d_ccw_angle_around_x",
            "if degrees:\n        theta = np.deg2rad(theta)", "if not degrees:\n        theta = np.deg2rad(theta)", rule="C20.R1", construct="around_x"),
    Witness("C20.W10", "menpo/transform/homogeneous/scale.py", "Scale",
            "if np.allclose(scale_factor, scale_factor[0]):", "if not np.allclose(scale_factor, scale_factor[0]):", rule="C20.R4", construct="Scale"),
    Witness("C20.W11", "menpo/transform/homogeneous/rotation.py", "Rotation._axis_and_angle_of_rotation_3d",
            "angle_of_rotation = np.arccos(np.dot(transformed_vector, perpendicular_vector))", "angle_of_rotation = np.arccos(np.clip(np.dot(transformed_vector, perpendicular_vector), 0.0, 1.0))",
            rule="C20.R2", construct="_axis_and_angle_of_rotation_3d", note="seeded change C20-A"),
    Witness("C20.T2", "menpo/transform/homogeneous/rotation.py", "Rotation._axis_and_angle_of_rotation_3d",
            "angle_of_rotation = np.arccos(np.dot(transformed_vector, perpendicular_vector))", "angle_of_rotation = np.arccos(np.clip(np.dot(transformed_vector, perpendicular_vector), -1.0, 1.0))", kind="T"),
    Witness("C20.W12", "menpo/transform/homogeneous/rotation.py", "Rotation._as_vector", "[m21 - m12, m02 - m20, m10 - m01, m00 + m11 + m22]", "[m21 - m12, m02 - m20, m01 - m10, m00 + m11 + m22]",
            rule="C20.R6", construct="Rotation._as_vector", note="seeded change R2-C20-A"),
    Witness("C20.W13", "menpo/transform/homogeneous/rotation.py", "Rotation._from_vector_inplace", "[p[1, 2] + p[3, 0], 1.0 - p[1, 1] - p[3, 3], p[2, 3] - p[1, 0]]", "[p[1, 2] + p[3, 0], 1.0 - p[1, 1] - p[3, 3], p[2, 3] + p[1, 0]]",
            rule="C20.R6", construct="Rotation._from_vector_inplace"),
    Witness("C20.T1", "menpo/transform/tcoords.py", "tcoords_to_image_coords",
            "invert_unit_y.compose_before(flip_xy_yx).compose_before(Scale(np.array(image_shape) - 1))",
            "Scale(np.array(image_shape) - 1).compose_after(flip_xy_yx.compose_after(invert_unit_y))", kind="T"),
]

WITNESSES += [
    Witness("C20.W14", "menpo/transform/homogeneous/rotation.py", "Rotation.init_from_3d_ccw_angle_around_y", "[np.cos(theta), 0, np.sin(theta)], [0, 1, 0], [-np.sin(theta), 0, np.cos(theta)]",
            "[np.cos(theta), 0, np.sqrt(1.0 - np.cos(theta) * np.cos(theta))], [0, 1, 0], [-np.sqrt(1.0 - np.cos(theta) * np.cos(theta)), 0, np.cos(theta)]", rule="C20.R1", construct="init_from_3d_ccw_angle_around_y", note="seeded change R3-C20-A"),
    Witness("C20.W15", "menpo/transform/tcoords.py", "", "def tcoords_to_image_coords(image_shape):", "import functools\n\n\n@functools.lru_cache(maxsize=None)\ndef tcoords_to_image_coords(image_shape):",
            rule="C20.G3", construct="tcoords_to_image_coords", note="seeded change R3-C20-C"),
]

WITNESSES += [
    Witness("C20.W16", "menpo/transform/homogeneous/rotation.py", "Rotation.init_from_2d_ccw_angle", "    if degrees:", "    theta = theta % 360\n    if degrees:", rule="C20.R1", construct="init_from_2d_ccw_angle", note="seeded change R4-C20-A"),
]

WITNESSES += [
    Witness("C20.W17", "menpo/transform/homogeneous/rotation.py", "Rotation._axis_and_angle_of_rotation_3d", "axis - np.random.rand(axis.size)", "axis - np.array([0.0, 0.0, 1.0])", rule="C20.R6",
            construct="_axis_and_angle_of_rotation_3d", note="seeded change R5-C20-B"),
]
