"""C02 -- transforming a shape moves points and landmarks as one and mutates nothing.

 R1 apply() = copy, then transform the copy in place; the object path and the bare-array path run the same function
 R2 for every shape class the resolved in-place hook transforms the landmark manager, which iterates every group
 R3 the coordinate hook only rebinds `points`; connectivity / triangles / labels / colours / textures are never written
 R4 every transform's _apply leaves its argument untouched
 R5 the result has the class of the input: no shape overrides copy/_transform with another class
"""
import ast

from ..loader import AnalysisError, dotted, ClassInfo
from ..astutil import walk_own, calls_in, norm, Defs, leaves, stmt_of, kwarg, need, returns_of, expand
from .. import cfg as cfgmod
from ..calls import CallCtx
from ..effects import get_effects
from ..variants import Witness
from .common import only_raises, self_attr_stores, transform_classes

PROP = "C02"
EXPLANATION = (
    "Transformable._transform copies the object and applies _transform_inplace to the copy only; Transform.apply hands a "
    "closure over _apply_batched to x._transform and falls back to the same call on bare arrays; for each of the shape "
    "classes the MRO-resolved _transform_inplace is Shape's, in which the landmark manager is transformed (under "
    "has_landmarks) on every path before the coordinates, and LandmarkManager._transform_inplace visits every group; the "
    "only coordinate hook rebinds `points` from transform(self.points) and has no other effect on self; the mutation "
    "summary of every concrete _apply/_apply_batched on its array argument is empty; no shape class overrides copy, "
    "_transform or _transform_inplace in a way that changes class or skips landmarks."
)
NOT_DECIDED = "the numerical values of the transformed points"
TECHNIQUE = "MRO resolution of hooks per shape class + CFG dominance + interprocedural mutation summaries (static analysis)"

STRUCTURE = {"adjacency_matrix", "trilist", "_labels_to_masks", "colours", "tcoords", "texture", "root_vertex", "predecessors_list", "_landmarks"}


def shape_classes(p):
    return p.descendants(p.cls("Shape"), include_self=False)


def rule_r1(p, res):
    r = res.rule("C02.R1", "apply = copy then in-place on the copy; object path and array path run the same function")
    t = p.own_method("Transformable", "_transform")
    r.instance(t)
    body = [norm(s) for s in t.node.body if not (isinstance(s, ast.Expr) and isinstance(s.value, ast.Constant))]
    tr = t.params[1]
    r.check(len(body) == 3 and body[0].endswith("= self.copy()") and body[1] == "%s._transform_inplace(%s)" % (body[0].split(" = ")[0], tr) and body[2] == "return %s" % body[0].split(" = ")[0],
            t, t.node, "_transform must copy self, transform the copy in place and return the copy (found %s)" % body, {"_transform": body})
    s = get_effects(p).summary(t, p.cls("PointCloud"))
    bad = s.on(t.params[0])
    r.check(not bad, t, bad[0].node if bad else t.node, "_transform modifies the object it is applied to: %s" % (bad[0].describe() if bad else ""))
    ap = p.own_method("Transform", "apply")
    r.instance(ap)
    x, bs = ap.params[1], ap.params[2]
    inner = [n for n in ap.node.body if isinstance(n, ast.FunctionDef)]
    need(len(inner) == 1, "C02.R1: Transform.apply must define one closure")
    cl = inner[0]
    cr = returns_of(cl)
    need(len(cr) == 1 and isinstance(cr[0].value, ast.Call), "C02.R1: the closure must return one call")
    clc = cr[0].value
    ok_cl = norm(clc.func) == "self._apply_batched" and [norm(a) for a in clc.args] == [cl.args.args[0].arg, bs] and [(k.arg, norm(k.value)) for k in clc.keywords] == [(None, "kwargs")]
    r.check(ok_cl, ap, cl, "the closure handed to the object must apply this transform (batched) to the array it receives")
    tries = [n for n in walk_own(ap.node) if isinstance(n, ast.Try)]
    need(len(tries) == 1, "C02.R1: Transform.apply must try the object path first")
    tb = [norm(s) for s in tries[0].body]
    r.check(tb == ["return %s._transform(%s)" % (x, cl.name)], ap, tries[0], "objects must be transformed through x._transform(closure)")
    hs = tries[0].handlers
    ok_h = len(hs) == 1 and norm(hs[0].type) == "AttributeError" and [norm(s) for s in hs[0].body] == ["return self._apply_batched(%s, %s, **kwargs)" % (x, bs)]
    r.check(ok_h, ap, tries[0], "bare arrays must go through the very same _apply_batched call as objects", {"array_path": [norm(s) for s in hs[0].body] if hs else None})
    for c in transform_classes(p):
        if "apply" in c.methods and c.name != "Transform":
            r.violation(c.methods["apply"], c.methods["apply"].node, "%s overrides apply(): the copy-then-transform contract is bypassed" % c.name)


def rule_r2(p, res):
    r = res.rule("C02.R2", "landmarks always ride along: resolved hook transforms the manager, the manager visits every group")
    sh = p.own_method("Shape", "_transform_inplace")
    n = 0
    for c in shape_classes(p):
        n += 1
        r.instance(c)
        f = p.lookup(c, "_transform_inplace")
        r.check(f is sh, c, c.node, "%s resolves _transform_inplace to %s instead of Shape._transform_inplace: its landmarks may not be transformed with it" % (c.name, f.short if f else None),
                {"class": c.name, "hook": f.short if f else None})
        t = p.lookup(c, "_transform")
        r.check(t is not None and t.cls.name == "Transformable", c, c.node, "%s overrides _transform" % c.name)
    if n < 8:
        raise AnalysisError("C02.R2: only %d shape classes (floor 8)" % n)
    r.instance(sh)
    g = cfgmod.build(sh.node)
    tr = sh.params[1]
    lm = [stmt_of(k) for k in calls_in(sh.node) if norm(k) == "self.landmarks._transform_inplace(%s)" % tr]
    own = [stmt_of(k) for k in calls_in(sh.node) if norm(k) == "self._transform_self_inplace(%s)" % tr]
    need(len(own) == 1, "C02.R2: Shape._transform_inplace must call _transform_self_inplace once")
    ok = len(lm) == 1 and [(norm(t), pol) for t, pol in g.guards(lm[0])] == [("self.has_landmarks", True)]
    r.check(ok, sh, sh.node, "the landmark manager must be transformed with the same transform whenever the shape has landmarks")
    if ok:
        # every path to the coordinate transform passes the landmark transform or the F edge of has_landmarks
        ifn = [n_ for n_ in walk_own(sh.node) if isinstance(n_, ast.If) and norm(n_.test) == "self.has_landmarks"][0]
        avoid_edges = {(nid, "F") for nid in g.nodes(ifn)}
        reach = g.reachable(avoid=g._ids(lm), avoid_edges=avoid_edges)
        r.check(not (reach & g._ids(own)) and cfgmod.RETURN not in reach, sh, own[0], "a shape with landmarks can be transformed without its landmarks on some path")
    r.check(g.must_pass(own, cfgmod.RETURN), sh, sh.node, "the coordinates must be transformed on every path")
    hl = p.own_method("Landmarkable", "has_landmarks")
    # truth table over (manager exists, manager has groups): true exactly when both hold
    def _hl_eval(e, asg):
        if isinstance(e, ast.Constant) and isinstance(e.value, bool):
            return e.value
        if isinstance(e, ast.UnaryOp) and isinstance(e.op, ast.Not):
            v = _hl_eval(e.operand, asg)
            return None if v is None else not v
        if isinstance(e, ast.BoolOp):
            vs = [_hl_eval(v, asg) for v in e.values]
            if isinstance(e.op, ast.And):
                return False if any(v is False for v in vs) else (None if any(v is None for v in vs) else True)
            return True if any(v is True for v in vs) else (None if any(v is None for v in vs) else False)
        s_ = norm(e)
        table = {"self._landmarks is not None": asg["m"], "self._landmarks is None": not asg["m"],
                 "self.landmarks.n_groups != 0": asg["g"], "self._landmarks.n_groups != 0": asg["g"], "self.landmarks.n_groups > 0": asg["g"], "self._landmarks.n_groups > 0": asg["g"],
                 "self.landmarks.n_groups == 0": not asg["g"], "self._landmarks.n_groups == 0": not asg["g"]}
        return table.get(str(s_))

    def _hl_run(stmts, asg):
        for st_ in stmts:
            if isinstance(st_, ast.Expr) and isinstance(st_.value, ast.Constant):
                continue
            if isinstance(st_, ast.Return):
                return _hl_eval(st_.value, asg) if st_.value is not None else None
            if isinstance(st_, ast.If):
                c_ = _hl_eval(st_.test, asg)
                if c_ is None:
                    return None
                v = _hl_run(st_.body if c_ else st_.orelse, asg)
                if v is not None or any(isinstance(x, ast.Return) for x in (st_.body if c_ else st_.orelse)):
                    return v
                continue
            return None
        return None
    tt = {(m_, g_): _hl_run(hl.node.body, {"m": m_, "g": g_}) for m_ in (False, True) for g_ in (False, True)}
    if any(v is None for (m_, g_), v in tt.items() if m_):
        raise AnalysisError("C02.R2: has_landmarks is written in a form I cannot evaluate")
    r.check(tt[(True, True)] is True and tt[(True, False)] is False and tt[(False, False)] in (False,) and tt[(False, True)] in (False,), hl, hl.node,
            "has_landmarks must be true exactly when a manager exists and holds at least one group (found %s)" % {k_: v for k_, v in tt.items()})
    mg = p.own_method("LandmarkManager", "_transform_inplace")
    r.instance(mg)
    loops = [n_ for n_ in walk_own(mg.node) if isinstance(n_, ast.For)]
    ok = False
    if len(loops) == 1 and len(loops[0].body) == 1:
        dm_ = Defs(mg.node)
        lp_, it_, tg_ = loops[0], norm(expand(loops[0].iter, dm_)), loops[0].target
        b0_ = loops[0].body[0]
        body_ = norm(expand(b0_.value, dm_)) if isinstance(b0_, ast.Expr) else norm(b0_)
        tr_ = mg.params[1]
        if it_ in ("self._landmark_groups.values()", "self.values()") and isinstance(tg_, ast.Name):
            ok = body_ == "%s._transform_inplace(%s)" % (tg_.id, tr_)
        elif it_ in ("self._landmark_groups", "self._landmark_groups.keys()", "self", "self.keys()") and isinstance(tg_, ast.Name):
            ok = body_ in ("self._landmark_groups[%s]._transform_inplace(%s)" % (tg_.id, tr_), "self[%s]._transform_inplace(%s)" % (tg_.id, tr_))
        elif it_ in ("self._landmark_groups.items()", "self.items()") and isinstance(tg_, ast.Tuple) and len(tg_.elts) == 2:
            ok = body_ == "%s._transform_inplace(%s)" % (norm(tg_.elts[1]), tr_)
    r.check(ok, mg, mg.node, "the manager must apply the transform to every one of its groups")


def rule_r3(p, res):
    r = res.rule("C02.R3", "the coordinate hook rebinds `points` only; structure attributes are never written")
    eff = get_effects(p)
    hooks = []
    for c in shape_classes(p):
        f = c.methods.get("_transform_self_inplace")
        if f is not None:
            hooks.append((c, f))
    need(hooks, "C02.R3: no concrete _transform_self_inplace found")
    # the object-level hook itself only delegates: it never assigns an attribute of the shape (going through the `landmarks`
    # setter would re-validate -- and copy -- the landmarks against points that have not been transformed yet)
    shp = p.own_method("Shape", "_transform_inplace")
    r.instance(shp)
    direct = self_attr_stores(shp.node)
    r.check(not direct, shp, direct[0][1] if direct else shp.node, "Shape._transform_inplace assigns `self.%s` itself: the landmark manager must be transformed in place, not re-installed through "
            "the setter (which checks the landmarks' dimensionality against the not-yet-transformed points and fails for dimension-changing transforms)" % (direct[0][0] if direct else ""))
    for c, f in hooks:
        r.instance(f)
        stores = self_attr_stores(f.node)
        for a, st, v in stores:
            r.check(a == "points", f, st, "%s writes self.%s while transforming: connectivity / labels / texture must be carried over unchanged" % (f.short, a), {"hook": f.short, "writes": a})
        pts = [(st, v) for a, st, v in stores if a == "points"]
        r.check(len(pts) == 1 and isinstance(pts[0][0], ast.Assign) and norm(pts[0][1]) == "%s(self.points)" % f.params[1], f, f.node,
                "the new coordinates must be the transform applied to the current coordinates, bound to a new array")
        rets = returns_of(f.node)
        r.check(all(norm(x.value) == "self" for x in rets) and rets, f, f.node, "the hook returns the transformed object itself")
    # per class: everything a transform may write on the shape
    for c in shape_classes(p):
        f = p.lookup(c, "_transform_inplace")
        s = eff.summary(f, c)
        bad = [e for e in s.on(f.params[0]) if (e.path and e.path[0] in STRUCTURE and e.path[0] != "_landmarks") or (e.kind.startswith("set:") and e.kind[4:] in STRUCTURE and not e.path)
               or (e.kind == "mutate" and e.path[:1] == ("points",))]
        r.check(not bad, bad[0].func if bad else f, bad[0].node if bad else f.node, "transforming a %s writes %s" % (c.name, bad[0].describe() if bad else ""),
                {"class": c.name, "self_effects": sorted({e.where() + ":" + e.kind for e in s.on(f.params[0])})[:5]})


def rule_r4(p, res):
    r = res.rule("C02.R4", "every transform's _apply / _apply_batched leaves its array argument untouched")
    eff = get_effects(p)
    n = 0
    for c in transform_classes(p):
        for name in ("_apply", "_apply_batched"):
            f = p.lookup(c, name)
            if f is None or only_raises(f.node):
                continue
            n += 1
            r.instance("%s@%s" % (f.short, c.name))
            s = eff.summary(f, c)
            bad = s.on(f.params[1])
            r.check(not bad, bad[0].func if bad else f, bad[0].node if bad else f.node, "%s on %s writes into the array it is given: %s" % (name, c.name, bad[0].describe() if bad else ""),
                    {"class": c.name, "method": name, "argument_effects": 0})
    if n < 30:
        raise AnalysisError("C02.R4: only %d _apply resolutions (floor 30)" % n)


def rule_r5(p, res):
    r = res.rule("C02.R5", "the result has the class of the input")
    gen = p.own_method("Copyable", "copy")
    for c in shape_classes(p):
        r.instance(c)
        f = p.lookup(c, "copy")
        if f is gen:
            r.ok({"class": c.name, "copy": "generic"})
            continue
        ctx = CallCtx(p, f, c)
        ctors = [ctx.class_constructed(k) for k in calls_in(f.node)]
        ctors = [k for k in ctors if isinstance(k, ClassInfo)]
        r.check(not ctors, f, f.node, "%s.copy builds a %s: transforming a %s would change its class" % (c.name, ctors[0].name if ctors else None, c.name))
        r.check(any(norm(k) in ("Copyable.copy(self)", "super().copy()") or norm(k).startswith("super(") for k in calls_in(f.node)), f, f.node, "%s.copy must delegate to the generic same-class copy" % c.name)
    s = norm(gen.node)
    r.check("self.__class__.__new__(self.__class__)" in s or "type(self).__new__(type(self))" in s, gen, gen.node, "the generic copy must instantiate the object's own class")


def rule_r6(p, res):
    r = res.rule("C02.R6", "homogeneous application: append ones, multiply by h^T, divide each row by its own last coordinate, drop that coordinate")
    f = p.own_method("Homogeneous", "_apply")
    r.instance(f)
    x = f.params[1]
    d = Defs(f.node)
    hx = d.single("h_x")
    hy = d.single("h_y")
    from ..astutil import P
    r.check(hx is not None and norm(hx) == P("np.hstack([%s, np.ones([%s.shape[0], 1])])" % (x, x)), f, f.node, "points must be lifted with a column of ones")
    r.check(hy is not None and norm(hy) in (P("h_x.dot(self.h_matrix.T)"), P("np.dot(h_x, self.h_matrix.T)")), f, f.node, "lifted points must be multiplied by h_matrix^T")
    rets = returns_of(f.node)
    need(len(rets) == 1, "C02.R6: Homogeneous._apply should have one return")
    s = norm(rets[0].value)
    r.check(s == "(h_y / h_y[:, -1][:, None])[:, :-1]", f, rets[0], "the result must be h_y divided row-wise by its last column, without that column (found `%s`): anything else gives wrong "
            "coordinates for projective matrices or for matrices that change the dimensionality" % s, {"return": s})
    nd = p.own_method("Homogeneous", "n_dims")
    ndo = p.own_method("Homogeneous", "n_dims_output")
    r.check(norm(returns_of(nd.node)[0].value) == "self.h_matrix.shape[1] - 1" and norm(returns_of(ndo.node)[0].value) == "self.h_matrix.shape[0] - 1", nd, nd.node,
            "input dimensionality = columns - 1, output dimensionality = rows - 1")
    af = p.own_method("Affine", "_apply")
    r.instance(af)
    s = norm(returns_of(af.node)[0].value)
    r.check(s == P("np.dot(%s, self.linear_component.T) + self.translation_component" % af.params[1]), af, af.node, "affine application = x L^T + t (found `%s`)" % s)


# rules of sibling properties over code paths this property's statement also quantifies over (DESIGN.md section 3, shared rules)
ALSO = ['C06.R2', 'C09.R3', 'C09.R4', 'C09.R7', 'C09.R2', 'C07.R6']

RULES = [rule_r1, rule_r2, rule_r3, rule_r4, rule_r5, rule_r6]

WITNESSES = [
    Witness("C02.W1", "menpo/shape/mesh/base.py", "TriMesh", "def tojson(self):", "def _transform_inplace(self, transform):\n        return self._transform_self_inplace(transform)\n\n    def tojson(self):",
            rule="C02.R2", construct="TriMesh"),
    Witness("C02.W2", "menpo/transform/homogeneous/affine.py", "Affine._apply", "return np.dot(x, self.linear_component.T) + self.translation_component",
            "x += self.translation_component\n    return np.dot(x, self.linear_component.T)", rule="C02.R4", construct="Affine._apply"),
    Witness("C02.W3", "menpo/shape/pointcloud.py", "PointCloud._transform_self_inplace", "self.points = transform(self.points)", "self.points = transform(self.points)\n    self.trilist = None",
            rule="C02.R3", construct="PointCloud._transform_self_inplace"),
    Witness("C02.W4", "menpo/transform/base/__init__.py", "Transformable._transform", "copy_of_self = self.copy()\n    copy_of_self._transform_inplace(transform)",
            "self._transform_inplace(transform)\n    copy_of_self = self.copy()", rule="C02.R1", construct="Transformable._transform"),
    Witness("C02.W5", "menpo/shape/base.py", "Shape._transform_inplace", "if self.has_landmarks:\n        self.landmarks._transform_inplace(transform)", "pass", rule="C02.R2", construct="Shape._transform_inplace"),
    Witness("C02.W6", "menpo/transform/rbf.py", "R2LogRRBF._apply", "euclidean_distance = cdist(points, self.c)", "points[:] = points - 0.0\n    euclidean_distance = cdist(points, self.c)",
            rule="C02.R4", construct="R2LogRRBF._apply"),
    Witness("C02.W7", "menpo/shape/pointcloud.py", "PointCloud._transform_self_inplace", "self.points = transform(self.points)", "self.points[:] = transform(self.points)",
            rule="C02.R3", construct="PointCloud._transform_self_inplace"),
    Witness("C02.W8", "menpo/transform/homogeneous/base.py", "Homogeneous._apply", "[:, :-1]", "[:, :self.n_dims]", rule="C02.R6", construct="Homogeneous._apply", note="seeded change R2-C02-B"),
    Witness("C02.T1", "menpo/transform/homogeneous/affine.py", "Affine._apply", "np.dot(x, self.linear_component.T)", "x.dot(self.linear_component.T)", kind="T"),
]

WITNESSES += [
    Witness("C02.W9", "menpo/shape/base.py", "Shape._transform_inplace", "self.landmarks._transform_inplace(transform)", "self.landmarks = self.landmarks._transform_inplace(transform)",
            rule="C02.R3", construct="Shape._transform_inplace", note="seeded change R4-C02-A"),
]
