"""C18 -- features agree on arrays and images and keep annotations attached.

 R1 every exported feature is wrapped by exactly one calling-convention decorator; each wrapper calls the same
    wrapped function on both paths and converts only at the boundary
 R2 rebuilding a feature image attaches the mask (copied / resized) and the landmarks (unchanged / rescaled) on every path
 R3 no feature body or wrapper writes into its input
 R4 the division by the scale statistic is guarded against zeros; the flag selects raise vs skip; centring precedes scaling
 R5 a boolean row mask used to skip zero scales conforms with the rows it indexes in every mode
"""
import ast

from ..loader import AnalysisError, dotted, FuncInfo
from ..astutil import walk_own, calls_in, norm, Defs, leaves, stmt_of, kwarg, need, returns_of, expand
from .. import cfg as cfgmod
from ..effects import get_effects
from ..variants import Witness

PROP = "C18"
EXPLANATION = (
    "Every feature exported by menpo.feature is defined under exactly one of ndfeature/imgfeature/winitfeature (double_igo "
    "through partial_doc of a wrapped feature); each wrapper applies the same wrapped function with the same extra "
    "arguments on the array path and on the image path and converts only at the boundary; rebuild_feature_image(_with_"
    "centres) attaches the mask when the input has one (copy if the size is kept, resize otherwise) and the landmarks when "
    "present (unchanged / rescaled by the shape ratio) on every path and builds MaskedImage iff the input had a mask; all "
    "feature bodies and wrappers have empty mutation summaries on their input; in normalize every division by the scale "
    "statistic is unreachable for zero scales or restricted to the non-zero entries, error_on_divide_by_zero selects raise "
    "vs skip, centring precedes scaling and the three normalize_* features forward mode and the flag; a boolean mask that "
    "row-indexes the pixels must have one entry per row in both modes."
)
NOT_DECIDED = "numerical agreement of the two calling conventions, idempotence of the normalisers, DAISY geometry"
TECHNIQUE = "decorator/wrapper structure check + CFG path coverage of annotation transfer + mutation summaries + symbolic row-shape of the skip mask (static analysis)"

DECOS = ("ndfeature", "imgfeature", "winitfeature")
FB = "menpo.feature.base."


def exported_features(p):
    m = p.modules.get("menpo.feature")
    need(m is not None, "C18: package menpo.feature missing")
    names = []
    for local, imp in m.imports.items():
        if imp[0] == "from" and imp[1] in ("menpo.feature.features", "menpo.feature.predefined"):
            names.append(local)
    return m, sorted(names)


def rule_r1(p, res):
    r = res.rule("C18.R1", "each exported feature has exactly one calling-convention wrapper; wrappers call the same function on both paths")
    m, names = exported_features(p)
    n = 0
    for nm in names:
        x = p.resolve_name(m, nm)
        if isinstance(x, FuncInfo):
            n += 1
            r.instance(x)
            decs = [d.split(".")[-1] for d in x.decorators() if d.split(".")[-1] in DECOS]
            r.check(len(decs) == 1, x, x.node, "feature %s has %d calling-convention decorators %s: it would not accept both arrays and images "
                    "(or would be converted twice)" % (x.short, len(decs), decs), {"feature": x.short, "wrapper": decs})
        elif isinstance(x, tuple) and x[0] == "value":
            # partial_doc(f, ...) of a wrapped feature
            v = x[2]
            ok = isinstance(v, ast.Call) and (dotted(v.func) or "").endswith("partial_doc") and v.args
            base = p.resolve_expr(x[1], v.args[0]) if ok else None
            n += 1
            r.instance("%s = %s" % (nm, norm(v)[:40]))
            okb = isinstance(base, FuncInfo) and len([d for d in base.decorators() if d.split(".")[-1] in DECOS]) == 1
            r.check(bool(ok and okb), "menpo.feature.predefined." + nm, v, "%s must be a partial application of a wrapped feature" % nm, {"feature": nm})
        else:
            raise AnalysisError("C18.R1: cannot resolve exported feature %s" % nm)
    if n < 11:
        raise AnalysisError("C18.R1: only %d exported features found (floor 11)" % n)
    # the three normalisers are one feature with three scale functions: same calling convention
    sib = {}
    for nm in ("normalize_norm", "normalize_std", "normalize_var"):
        x = p.resolve_name(m, nm)
        if isinstance(x, FuncInfo):
            sib[nm] = tuple(d.split(".")[-1] for d in x.decorators() if d.split(".")[-1] in DECOS)
    need(len(sib) == 3, "C18.R1: the normalize_norm / normalize_std / normalize_var siblings were not found")
    vals = list(sib.values())
    odd = [k_ for k_, v_ in sib.items() if vals.count(v_) == 1 and len(set(vals)) > 1]
    fx = p.resolve_name(m, odd[0]) if odd else None
    r.check(len(set(vals)) == 1, fx if fx is not None else "menpo.feature.features", fx.node if fx is not None else "normalizers", "%s is wrapped by %s while its siblings are wrapped by %s: on a masked "
            "image it then works on another set of pixels than on the bare array, so array and image calls disagree" % (odd[0] if odd else "?", sib.get(odd[0]) if odd else "?", [v_ for v_ in vals if vals.count(v_) > 1][:1]),
            {"normalizer_wrappers": {k_: list(v_) for k_, v_ in sib.items()}})
    # the wrappers
    for deco in DECOS:
        f = p.func(FB + deco)
        r.instance(f)
        inner = [x for x in f.node.body if isinstance(x, ast.FunctionDef)]
        need(len(inner) == 1, "C18.R1: %s must define one wrapper" % deco)
        w = inner[0]
        wp = f.params[0]
        img = w.args.args[0].arg
        calls = [c for c in calls_in(w) if isinstance(c.func, ast.Name) and c.func.id == wp]
        need(len(calls) == 2, "C18.R1: %s's wrapper must call the wrapped function once per path" % deco)
        # same extra arguments on both paths
        sig = lambda c: ([norm(a) for a in c.args[1:]], sorted((k.arg or "**", norm(k.value)) for k in c.keywords))
        r.check(sig(calls[0]) == sig(calls[1]) and sig(calls[0]) == (["*args"], [("**", "kwargs")]), f, calls[1],
                "%s: both calling conventions must pass the same extra arguments (*args, **kwargs) to the feature" % deco, {"wrapper": deco})
        firsts = sorted(norm(c.args[0]) for c in calls)
        g = cfgmod.build(w)
        tests = [n_ for n_ in walk_own(w) if isinstance(n_, ast.If)]
        need(len(tests) == 1 and "isinstance(%s, np.ndarray)" % img in norm(tests[0].test), "C18.R1: %s must dispatch on isinstance(image, np.ndarray)" % deco)
        if deco == "imgfeature":
            dw = Defs(w)
            wrapped_img = "Image(%s, copy=False)" % img
            efirsts = sorted(norm(expand(c.args[0], dw)) for c in calls)
            if efirsts == sorted([img, wrapped_img]):
                # the array is wrapped into a fresh local: the result's pixels must be what the array path returns
                r.ok()
                rets = [norm(expand(x.value, dw)) for x in returns_of(w) if x.value is not None]
                r.check(any(x.endswith(".pixels") and wrapped_img in x for x in rets), f, w, "on the array path imgfeature must wrap the array in an Image and return the result's pixels")
            else:
                r.check(firsts == [img, img], f, w, "imgfeature must hand an Image to the feature on both paths")
                arr_branch = tests[0].body if not norm(tests[0].test).startswith("not") else tests[0].orelse
                from ..astutil import norm_block
                s = norm_block(arr_branch, " ")
                r.check("%s = Image(%s, copy=False)" % (img, img) in s and ".pixels" in s, f, w, "on the array path imgfeature must wrap the array in an Image and return the result's pixels")
        else:
            r.check(firsts == sorted([img, img + ".pixels"]), f, w, "%s must hand image.pixels (image path) or the array itself (array path) to the feature" % deco)
            rb = "rebuild_feature_image" if deco == "ndfeature" else "rebuild_feature_image_with_centres"
            r.check(any((dotted(c.func) or "") == rb and c.args and norm(c.args[0]) == img for c in calls_in(w)), f, w, "%s must rebuild the result image from the input image with %s" % (deco, rb))
        r.check(bool(returns_of(f.node)) and norm(returns_of(f.node)[-1].value) == w.name, f, f.node, "%s must return its wrapper" % deco)


def _attach_paths(p, r, f, image, new):
    """every path to return attaches landmarks unless the F edge of `if image.has_landmarks` is taken"""
    g = cfgmod.build(f.node)
    d = Defs(f.node)
    lm_if = [n for n in walk_own(f.node) if isinstance(n, ast.If) and norm(n.test) == "%s.has_landmarks" % image]
    r.check(len(lm_if) == 1, f, f.node, "%s must test %s.has_landmarks once" % (f.short, image))
    stores = [n for n in walk_own(f.node) if isinstance(n, ast.Assign) and norm(n.targets[0]) == "%s.landmarks" % new]
    good = [n for n in stores if ("param:" + image) in leaves(n.value, d) and "landmarks" in norm(n.value)]
    avoid_edges = set()
    for n in lm_if:
        for nid in g.nodes(n):
            avoid_edges.add((nid, "F"))
    ids = set()
    for n in good:
        ids.update(g.nodes(n))
    reach = g.reachable(avoid=ids, avoid_edges=avoid_edges)
    r.check(cfgmod.RETURN not in reach, f, lm_if[0] if lm_if else f.node, "%s: an image with landmarks can be returned without them on some path" % f.short,
            {"function": f.short, "landmark_stores": [norm(n)[:70] for n in good]})
    for ret in returns_of(f.node):
        r.check(isinstance(ret.value, ast.Name) and ret.value.id == new, f, ret, "%s must return the rebuilt image" % f.short)
    return g, d, stores


def rule_r2(p, res):
    r = res.rule("C18.R2", "feature images keep mask and landmarks on every path; masked iff the input was masked")
    f = p.func(FB + "rebuild_feature_image")
    r.instance(f)
    image, fp = f.params
    g, d, stores = _attach_paths(p, r, f, image, "new_image")
    # mask
    mk_if = [n for n in walk_own(f.node) if isinstance(n, ast.If) and norm(n.test) == "hasattr(%s, 'mask')" % image]
    need(len(mk_if) == 1, "C18.R2: rebuild_feature_image must test hasattr(image, 'mask') once")
    ctor = {}
    for n in walk_own(f.node):
        if isinstance(n, ast.Assign) and norm(n.targets[0]) == "new_image" and isinstance(n.value, ast.Call):
            gs = [(norm(t), pol) for t, pol in g.guards(n) if "hasattr" in norm(t)]
            ctor[tuple(gs)] = n
    tkey, fkey = (("hasattr(%s, 'mask')" % image, True),), (("hasattr(%s, 'mask')" % image, False),)
    r.check(set(ctor) == {tkey, fkey}, f, mk_if[0], "the result must be built once for masked and once for unmasked inputs (found %s)" % sorted(ctor))
    if tkey in ctor:
        c = ctor[tkey].value
        mk = kwarg(c, "mask")
        r.check((dotted(c.func) or "") == "MaskedImage" and mk is not None and c.args and norm(c.args[0]) == fp, f, ctor[tkey], "a masked input must give MaskedImage(f_pixels, mask=...)",
                {"masked_ctor": norm(c)[:60]})
        if mk is not None and isinstance(mk, ast.Name):
            vals = {}
            for kind, val, st in d.of(mk.id):
                if kind == "assign":
                    gs = tuple((norm(t), pol) for t, pol in g.guards(st) if "shape_changed" in norm(t))
                    vals[gs] = norm(val)
            want = {(("shape_changed", True),): "%s.mask.resize(%s.shape[1:])" % (image, fp), (("shape_changed", False),): "%s.mask.copy()" % image}
            r.check(vals == want, f, ctor[tkey], "the mask must be resized to the feature size when the size changed and copied otherwise (found %s)" % vals, {"mask_sources": {str(k): v for k, v in vals.items()}})
    if fkey in ctor:
        c = ctor[fkey].value
        r.check((dotted(c.func) or "") == "Image" and c.args and norm(c.args[0]) == fp, f, ctor[fkey], "an unmasked input must give Image(f_pixels)")
    sc = d.single("shape_changed")
    r.check(sc is not None and norm(sc) == "%s.shape[1:] != %s.shape" % (fp, image), f, f.node, "shape_changed must compare the feature's spatial shape with the image's")
    # landmarks: rescaled by new/old when the size changed
    lvals = {}
    for n in stores:
        gs = tuple((norm(t), pol) for t, pol in g.guards(n) if "shape_changed" in norm(t))
        lvals[gs] = norm(n.value)
    want = {(("shape_changed", True),): "NonUniformScale(sf).apply(%s.landmarks)" % image, (("shape_changed", False),): "%s.landmarks" % image}
    r.check(lvals == want, f, f.node, "landmarks must be carried unchanged, or rescaled when the size changed (found %s)" % lvals, {"landmark_sources": {str(k): v for k, v in lvals.items()}})
    sf = d.single("sf")
    r.check(sf is not None and norm(sf) == "np.array(%s.shape[1:]) / np.array(%s.shape)" % (fp, image), f, f.node,
            "the landmark scale must be new shape / old shape per axis (found %s)" % (norm(sf) if sf is not None else None))
    # with centres
    f2 = p.func(FB + "rebuild_feature_image_with_centres")
    r.instance(f2)
    image2, fp2, cen = f2.params
    g2, d2, st2 = _attach_paths(p, r, f2, image2, "new_image")
    s = norm(f2.node)
    r.check("mask = sample_mask_for_centres(%s.mask.mask, %s)" % (image2, cen) in s and "MaskedImage(%s, copy=False, mask=mask)" % fp2 in s, f2, f2.node,
            "a masked input must keep its mask sampled at the window centres")
    r.check("t = lm_centres_correction(%s)" % cen in s and "new_image.landmarks = t.apply(%s.landmarks)" % image2 in s, f2, f2.node, "landmarks must be mapped into the window-centre grid")


def _feature_bodies(p):
    fs = [f for f in p.functions.values() if f.module.name == "menpo.feature.features"]
    fs += [p.func(FB + n) for n in ("ndfeature", "imgfeature", "winitfeature", "rebuild_feature_image", "rebuild_feature_image_with_centres",
                                    "sample_mask_for_centres", "lm_centres_correction")]
    return fs


def rule_r3(p, res):
    r = res.rule("C18.R3", "features and wrappers never write into their input")
    eff = get_effects(p)
    for f in _feature_bodies(p):
        r.instance(f)
        s = eff.summary(f)
        bad = [e for e in s.effects if e.param in f.params]
        r.check(not bad, bad[0].func if bad else f, bad[0].node if bad else f.node, "%s writes into its argument: %s" % (f.short, bad[0].describe() if bad else ""),
                {"function": f.short, "effects": 0})
    dz = p.modules.get("menpo.external.skimage._daisy")
    if dz is not None:
        for f in [x for x in p.functions.values() if x.module is dz]:
            r.instance(f)
            s = eff.summary(f)
            bad = [e for e in s.effects if e.param == f.params[0]] if f.params else []
            r.check(not bad, f, bad[0].node if bad else f.node, "%s writes into the image it is given: %s" % (f.short, bad[0].describe() if bad else ""))
    r.floor(15, "feature bodies and wrappers")


def rule_r4(p, res):
    r = res.rule("C18.R4", "division by the scale statistic is guarded; flag selects raise vs skip; centring precedes scaling")
    f = p.func("menpo.feature.features.normalize")
    r.instance(f)
    d = Defs(f.node)
    g = cfgmod.build(f.node)
    zd = d.single("zero_denom")
    need(zd is not None, "C18.R4: zero test of the scale factor not found")
    if any(isinstance(x, ast.Call) and (dotted(x.func) or "").split(".")[-1] in ("isclose", "allclose") for x in ast.walk(zd)):
        r.violation(f, zd, "the zero test of the scale statistic uses a tolerance (`%s`): a small but non-zero scale is refused (or silently left unscaled) although dividing by it is well defined" % norm(zd)[:60])
        return
    need(norm(zd) in ("(scale_factor == 0).ravel()", "scale_factor == 0"), "C18.R4: zero test of the scale factor not recognised")
    anyz = [nm for nm, ds in d.defs.items() if len(ds) == 1 and ds[0][0] == "assign" and norm(ds[0][1]) == "np.any(zero_denom)"]
    need(len(anyz) == 1, "C18.R4: np.any(zero_denom) flag not found")
    az = anyz[0]
    # divisions
    n_div = 0
    for n in walk_own(f.node):
        if isinstance(n, ast.BinOp) and isinstance(n.op, ast.Div) and "scale_factor" in {x.id for x in ast.walk(n.right) if isinstance(x, ast.Name)}:
            n_div += 1
            st = stmt_of(n)
            gs = [(norm(t), pol) for t, pol in g.guards(st)]
            no_zero = (az, False) in gs or any(s == az and pol is False for s, pol in gs)
            restricted = False
            if isinstance(n.right, ast.Subscript) and isinstance(n.right.slice, ast.Name):
                v = d.single(n.right.slice.id)
                restricted = v is not None and norm(v) == "~zero_denom" and isinstance(n.left, ast.Subscript) and norm(n.left.slice) == norm(n.right.slice)
            # divisor made safe: scale_factor = np.where(scale_factor == 0, <non-zero>, scale_factor) dominates
            safe = False
            for kind, val, s_ in d.of("scale_factor"):
                if kind == "assign" and isinstance(val, ast.Call) and (dotted(val.func) or "") in ("np.where", "numpy.where") and len(val.args) == 3:
                    c0, a1, a2 = val.args
                    from ..astutil import const_value
                    if norm(c0) in ("scale_factor == 0", "zero_denom") and const_value(a1) not in (None, 0, 0.0) and norm(a2) == "scale_factor":
                        # on every path to this division on which a zero exists, the replacement has run
                        if g.must_pass([s_], st) or not g.reaches(cfgmod.ENTRY, st, avoid=[s_]) or _zero_paths_pass(g, s_, st, az):
                            safe = True
            r.check(no_zero or restricted or safe, f, n, "`%s` divides by the scale statistic on a path where it may be zero (guards %s): a zero scale would "
                    "produce non-finite values" % (norm(n)[:60], gs), {"division": norm(n)[:60], "guards": gs})
    need(n_div >= 1, "C18.R4: no division by scale_factor found in normalize")
    # the flag selects raise vs skip
    raises = [n for n in walk_own(f.node) if isinstance(n, ast.Raise) and "scale factor" in norm(n).lower()]
    ok = False
    for n in raises:
        for t, pol in g.guards(n):
            if pol and isinstance(t, ast.BoolOp) and isinstance(t.op, ast.And) and sorted(norm(v) for v in t.values) == sorted(["error_on_divide_by_zero", az]):
                ok = True
    r.check(ok, f, raises[0] if raises else f.node, "a zero scale must raise exactly when error_on_divide_by_zero is set")
    # centring precedes scaling, per mode
    want = {"'all'": ("pixels - np.mean(pixels)", "scale_func(centered_pixels)"),
            "'per_channel'": ("pixels - np.mean(pixels, axis=1, keepdims=True)", None)}
    for n in walk_own(f.node):
        if isinstance(n, ast.If) and isinstance(n.test, ast.Compare) and norm(n.test.left) == "mode":
            key = norm(n.test.comparators[0])
            body = {norm(s.targets[0]): s.value for s in n.body if isinstance(s, ast.Assign)}
            cp = body.get("centered_pixels")
            sfv = body.get("scale_factor")
            r.check(cp is not None and norm(cp) == want.get(key, (None,))[0], f, n, "mode %s must subtract the %s mean first" % (key, "overall" if key == "'all'" else "per-channel"), {"mode": key})
            r.check(sfv is not None and "centered_pixels" in {x.id for x in ast.walk(sfv) if isinstance(x, ast.Name)} and "scale_func" in norm(sfv), f, n,
                    "mode %s must compute the scale statistic of the centred data" % key)
            if key == "'per_channel'" and sfv is not None:
                r.check("axis=1" in norm(sfv) and norm(sfv).endswith(".reshape([-1, 1])"), f, n, "per-channel scale must be one value per channel (axis=1) shaped (C, 1)")
    unk = [n for n in walk_own(f.node) if isinstance(n, ast.Raise) and "mode" in norm(n).lower()]
    r.check(bool(unk), f, f.node, "an unknown mode must be refused")
    pv = d.single("pixels")
    r.check(pv is not None and norm(pv) == "%s.as_vector(keep_channels=True)" % f.params[0], f, f.node, "normalize must work on the (channels, pixels) view of the image")
    for ret in returns_of(f.node):
        r.check(isinstance(ret.value, ast.Call) and norm(ret.value.func) == "%s.from_vector" % f.params[0], f, ret, "the result must be rebuilt from the input image (from_vector keeps mask and landmarks)")
    # the three convenience normalisers forward mode and the flag
    for nm, stat in (("normalize_norm", "np.linalg.norm"), ("normalize_std", "np.std"), ("normalize_var", "np.var")):
        h = p.func("menpo.feature.features." + nm)
        r.instance(h)
        cs = [c for c in calls_in(h.node) if (dotted(c.func) or "") == "normalize"]
        need(len(cs) == 1, "C18.R4: %s must call normalize once" % nm)
        c = cs[0]
        kws = {k.arg: norm(k.value) for k in c.keywords}
        r.check(kws.get("mode") == "mode" and kws.get("error_on_divide_by_zero") == "error_on_divide_by_zero", h, c, "%s must forward mode and error_on_divide_by_zero (found %s)" % (nm, kws), {"feature": nm, "forwarded": kws})
        # the scale function: a nested def, a module-level function of this module, or a lambda -- resolved by name
        sf = kwarg(c, "scale_func")
        fnode = None
        if isinstance(sf, ast.Lambda):
            fnode = sf
        elif isinstance(sf, ast.Name):
            nested = [x for x in h.node.body if isinstance(x, ast.FunctionDef) and x.name == sf.id]
            if nested:
                fnode = nested[0]
            else:
                tgt = p.resolve_name(h.module, sf.id)
                fnode = tgt.node if isinstance(tgt, FuncInfo) else None
        okf = fnode is not None and any((dotted(k.func) or "") == stat and kwarg(k, "axis") is not None and str(norm(kwarg(k, "axis"))) in ("axis",) for k in ast.walk(fnode) if isinstance(k, ast.Call))
        r.check(okf, h, c, "%s must scale by %s along the requested axis" % (nm, stat))


def _zero_paths_pass(g, repl_stmt, div_stmt, az):
    """every path to div_stmt on which the any-zero flag was true passes through the replacement"""
    for n, s in g.stmt.items():
        if isinstance(s, ast.If):
            from ..astutil import norm as _n
            t = _n(s.test)
            if t == az or t.endswith(az):
                # paths that take the F edge of a test on the flag carry no zero
                r = g.reachable(avoid=g._ids([repl_stmt]), avoid_edges={(n, "F")})
                if not (r & g._ids([div_stmt])):
                    return True
    return False


def rule_r5(p, res):
    r = res.rule("C18.R5", "a boolean mask that skips zero scales has one entry per row it indexes, in every mode")
    f = p.func("menpo.feature.features.normalize")
    r.instance(f)
    d = Defs(f.node)
    g = cfgmod.build(f.node)
    # symbolic number of rows of scale_factor per mode
    rows = {}
    for n in walk_own(f.node):
        if isinstance(n, ast.If) and isinstance(n.test, ast.Compare) and norm(n.test.left) == "mode":
            key = norm(n.test.comparators[0])
            for s in n.body:
                if isinstance(s, ast.Assign) and norm(s.targets[0]) == "scale_factor":
                    v = norm(s.value)
                    if "axis=1" in v and v.endswith(".reshape([-1, 1])"):
                        rows[key] = "C"
                    elif "axis" not in v:
                        rows[key] = "1"
                    else:
                        rows[key] = "?"
    need(set(rows) == {"'all'", "'per_channel'"}, "C18.R5: could not derive the shape of scale_factor per mode (%s)" % rows)
    # boolean-mask row indexing of the pixel matrix with a mask derived from scale_factor
    sites = []
    for n in walk_own(f.node):
        if isinstance(n, ast.Subscript) and isinstance(n.value, ast.Name) and n.value.id == "centered_pixels" and isinstance(n.slice, ast.Name):
            lv = leaves(n.slice, d)
            if any("scale_factor" in x or x == "name:scale_factor" for x in lv) or "zero_denom" in norm(d.single(n.slice.id) or n.slice):
                sites.append(n)
    if not sites:
        r.ok({"row_mask_sites": 0, "scale_rows_per_mode": rows})
        return
    for n in sites:
        bad = sorted(k for k, v in rows.items() if v != "C")
        r.check(not bad, f, n, "`%s` row-indexes the (C, N) pixel matrix with a mask that has %s entr%s in mode %s (scale_factor is not per-channel there): for C > 1 "
                "this raises IndexError instead of skipping the zero scale" % (norm(n), "/".join(rows[k] for k in bad), "y" if all(rows[k] == "1" for k in bad) else "ies", ", ".join(bad)),
                {"site": norm(n), "scale_rows_per_mode": rows})


def rule_r6(p, res):
    r = res.rule("C18.R6", "window-centre correction of landmarks: translate to the first centre, then divide by the step")
    f = p.func("menpo.feature.base.lm_centres_correction")
    r.instance(f)
    d = Defs(f.node)
    rets = returns_of(f.node)
    need(len(rets) == 1 and isinstance(rets[0].value, ast.Call) and isinstance(rets[0].value.func, ast.Attribute), "C18.R6: return of lm_centres_correction not recognised")
    k = rets[0].value

    def kind(e):
        e = expand(e, d)
        return (dotted(e.func) or "") if isinstance(e, ast.Call) else None

    recv, arg, meth = kind(k.func.value), kind(k.args[0]) if k.args else None, k.func.attr
    ok = (meth == "compose_before" and recv == "Translation" and arg in ("NonUniformScale", "Scale")) or (meth == "compose_after" and arg == "Translation" and recv in ("NonUniformScale", "Scale"))
    r.check(ok, f, rets[0], "the correction must first translate by minus the first window centre and then scale by 1/step ((x - c0) / step); found `%s` with %s / %s" % (norm(k), recv, arg))


# rules of sibling properties over code paths this property's statement also quantifies over (DESIGN.md section 3, shared rules)
ALSO = ['C02.R2', 'C05.R5']

RULES = [rule_r1, rule_r2, rule_r3, rule_r4, rule_r5, rule_r6]

WITNESSES = [
    Witness("C18.W1", "menpo/feature/features.py", "es", "@ndfeature\ndef es(", "def es(", rule="C18.R1", construct="es"),
    Witness("C18.W2", "menpo/feature/base.py", "rebuild_feature_image", "else:\n            new_image.landmarks = image.landmarks", "else:\n            pass",
            rule="C18.R2", construct="rebuild_feature_image"),
    Witness("C18.W3", "menpo/feature/base.py", "rebuild_feature_image", "MaskedImage(f_pixels, mask=mask, copy=False)", "MaskedImage(f_pixels, copy=False)",
            rule="C18.R2", construct="rebuild_feature_image"),
    Witness("C18.W4", "menpo/feature/features.py", "gaussian_filter", "output=output[dim]", "output=pixels[dim]", rule="C18.R3", construct="gaussian_filter"),
    Witness("C18.W5", "menpo/feature/features.py", "normalize", "scale_factor = np.where(scale_factor == 0, 1.0, scale_factor)", "pass",
            rule="C18.R4", construct="normalize"),
    Witness("C18.W9", "menpo/feature/features.py", "normalize", "scale_factor = np.where(scale_factor == 0, 1.0, scale_factor)",
            "non_zero_denom = ~zero_denom\n        centered_pixels[non_zero_denom] = centered_pixels[non_zero_denom] / scale_factor[non_zero_denom]\n        return img.from_vector(centered_pixels)",
            rule="C18.R5", construct="normalize", note="reverts the repair of finding #16"),
    Witness("C18.W6", "menpo/feature/features.py", "normalize_std", "mode=mode, ", "", rule="C18.R4", construct="normalize_std"),
    Witness("C18.W7", "menpo/feature/base.py", "ndfeature", "feature = wrapped(image.pixels, *args, **kwargs)", "feature = wrapped(image.pixels, *args)", rule="C18.R1", construct="ndfeature"),
    Witness("C18.W8", "menpo/feature/base.py", "rebuild_feature_image", "mask = image.mask.resize(f_pixels.shape[1:])", "mask = image.mask.copy()", rule="C18.R2", construct="rebuild_feature_image"),
    Witness("C18.W10", "menpo/feature/features.py", "normalize", "zero_denom = (scale_factor == 0).ravel()", "zero_denom = np.isclose(scale_factor, 0).ravel()", rule="C18.R4", construct="normalize", note="seeded change R2-C18-B"),
    Witness("C18.T1", "menpo/feature/features.py", "no_op", "return pixels.copy()", "out = pixels.copy()\n    return out", kind="T"),
]

WITNESSES += [
    Witness("C18.W11", "menpo/feature/features.py", "normalize_var", "@ndfeature", "@imgfeature", rule="C18.R1", construct="normalize_var", note="seeded change R4-C18-B"),
]

WITNESSES += [
    Witness("C18.W12", "menpo/feature/features.py", "normalize_std", "error_on_divide_by_zero=error_on_divide_by_zero", "error_on_divide_by_zero=True",
            rule="C18.G4", construct="normalize_std", note="generic: forwarded option replaced by a constant"),
]

WITNESSES += [
    Witness("C18.W13", "menpo/feature/base.py", "lm_centres_correction", "return t.compose_before(s)", "return s.compose_before(t)", rule="C18.R6", construct="lm_centres_correction", note="seeded change R5-C18-A"),
]
